"""Shared machinery of the /verif checks: scratch space, building the Go harness against
/repo's current working tree, evaluating case files inside Coq, rebuilding the proofs,
evidence files, violations and known findings."""
import atexit, fcntl, hashlib, json, os, re, shutil, subprocess, sys, tempfile, time
from concurrent.futures import ThreadPoolExecutor

VERIF = os.path.dirname(os.path.dirname(os.path.abspath(__file__)))
REPO = os.environ.get("VERIF_REPO", "/repo")
COQ = os.path.join(VERIF, "coq")
T0 = time.time()

FORBIDDEN = re.compile(
    r"\b(Admitted|admit|Axiom|Axioms|Parameter|Parameters|Conjecture|Conjectures|Admit Obligations)\b"
    r"|Unset Guard|bypass_check|type-in-type|impredicative-set|Unset Universe Checking|Unset Positivity")


class InternalError(Exception):
    pass


class CrashUnderTest(Exception):
    """the harness process died with a Go panic / fatal error whose innermost non-runtime frame is in the code under test"""
    def __init__(self, what, cmd, trace):
        Exception.__init__(self, what)
        self.what, self.cmd, self.trace = what, cmd, trace


REPO_FRAME = re.compile(r"^github\.com/Vedant9500/WTF/(internal|cmd|pkg)/")


def crash_under_test(stderr_text):
    """Return the panic message when stderr shows a Go panic/fatal error raised inside the repository's own packages
    (first frame that is not runtime/stdlib/panic machinery belongs to github.com/Vedant9500/WTF/{internal,cmd,pkg}), else None.
    A panic whose innermost frame is the harness (main.*) is a harness bug, not a finding."""
    m = re.search(r"^(panic: .*|fatal error: .*)$", stderr_text, re.M)
    if not m:
        return None
    tail = stderr_text[m.start():]
    g = re.search(r"^goroutine \d+ \[running\]:\n", tail, re.M) or re.search(r"^goroutine \d+ .*:\n", tail, re.M)
    if not g:
        return None
    for line in tail[g.end():].splitlines():
        if not line or line.startswith("\t") or line.startswith("created by"):
            if line.startswith("created by") or not line:
                break
            continue
        fn = line.strip()
        if fn.startswith("main."):
            return None             # the harness's own code is innermost: a harness bug, not a finding
        if REPO_FRAME.match(fn):
            return m.group(1)       # innermost frame of the repository (below it: runtime, stdlib or third-party code it called)
        continue
    return None


def harness_failed(what, cmd, p):
    err = p.stderr.decode(errors="replace")
    msg = crash_under_test(err)
    if msg:
        raise CrashUnderTest(msg, [str(c) for c in cmd], err[-6000:])
    raise InternalError("%s failed (%d): %s" % (what, p.returncode, err[-4000:]))


_scratch = None


def scratch():
    global _scratch
    if _scratch is None:
        base = "/var/tmp"
        _scratch = tempfile.mkdtemp(prefix="verif.", dir=base)
        os.chmod(_scratch, 0o755)   # C15 runs a child of the harness as an unprivileged user
        atexit.register(lambda: shutil.rmtree(_scratch, ignore_errors=True))
    return _scratch


def go_env():
    env = dict(os.environ)
    env.update({"GOFLAGS": "-mod=mod", "GOPROXY": "off", "GOMODCACHE": "/root/go/pkg/mod",
                "GOCACHE": os.environ.get("GOCACHE", "/root/.cache/go-build"),
                "CGO_ENABLED": env.get("CGO_ENABLED", "1")})
    env["VERIF_REPO"] = REPO
    env.pop("GOTOOLCHAIN", None)
    env.pop("GOSUMDB", None)
    return env


def run(cmd, timeout=600, cwd=None, env=None, check=False, stdin=None):
    try:
        p = subprocess.run(cmd, cwd=cwd, env=env, timeout=timeout, stdout=subprocess.PIPE,
                           stderr=subprocess.PIPE, input=stdin)
    except subprocess.TimeoutExpired as e:
        class R: pass
        r = R(); r.returncode = 124; r.stdout = e.stdout or b""; r.stderr = (e.stderr or b"") + b"\nTIMEOUT"
        return r
    if check and p.returncode != 0:
        raise InternalError("command failed: %s\n%s\n%s" % (cmd, p.stdout.decode(errors="replace")[-3000:],
                                                             p.stderr.decode(errors="replace")[-3000:]))
    return p


_harness = None


def build_harness(race=False):
    """Build the harness (tag verif) against /repo's working tree, in scratch space."""
    global _harness
    key = "race" if race else "plain"
    if _harness is None:
        _harness = {}
    if key in _harness:
        return _harness[key]
    hdir = os.path.join(scratch(), "harness")
    if not os.path.isdir(hdir):
        shutil.copytree(os.path.join(VERIF, "harness"), hdir)
        with open(os.path.join(hdir, "go.mod")) as f:
            gm = f.read()
        gm = gm.replace("=> /repo", "=> " + REPO)
        with open(os.path.join(hdir, "go.mod"), "w") as f:
            f.write(gm)
        shutil.copy(os.path.join(REPO, "go.sum"), os.path.join(hdir, "go.sum"))
    out = os.path.join(scratch(), "vh-" + key)
    cmd = ["go", "build", "-tags", "verif"] + (["-race"] if race else []) + ["-o", out, "."]
    p = run(cmd, cwd=hdir, env=go_env(), timeout=600)
    if p.returncode != 0:
        raise BuildFailure("harness build failed against current /repo tree:\n" +
                           p.stderr.decode(errors="replace")[-4000:])
    _harness[key] = out
    return out


class BuildFailure(Exception):
    pass


def build_wtf():
    """Build /repo/cmd/wtf from the current working tree into scratch space."""
    out = os.path.join(scratch(), "wtf")
    if os.path.exists(out):
        return out
    p = run(["go", "build", "-o", out, "./cmd/wtf"], cwd=REPO, env=go_env(), timeout=600)
    if p.returncode != 0:
        raise BuildFailure("wtf build failed:\n" + p.stderr.decode(errors="replace")[-4000:])
    return out


def run_harness(sub, seed=1, n=100, replay=None, extra=(), timeout=1800, race=False, env=None):
    h = build_harness(race=race)
    out = os.path.join(scratch(), "%s-%d-%d.jsonl" % (sub, os.getpid(), int(time.time() * 1e6) % 10**9))
    cmd = [h, sub, "-seed", str(seed), "-n", str(n), "-out", out] + list(extra)
    if replay:
        cmd += ["-replay", replay]
    e = go_env()
    if env:
        e.update(env)
    p = run(cmd, timeout=timeout, env=e)
    if p.returncode != 0:
        harness_failed("harness " + sub, cmd, p)
    cases = []
    with open(out) as f:
        for line in f:
            line = line.strip()
            if line:
                cases.append(json.loads(line))
    os.unlink(out)
    return cases


# ---------------------------------------------------------------- Coq term emission

def cz(n):
    n = int(n)
    return "(%d)%%Z" % n


def cn(n):
    return "%d%%N" % int(n)


def cnat(n):
    n = int(n)
    if n > 5000:
        raise InternalError("nat literal too large: %d" % n)
    return "%d%%nat" % n


def cbool(b):
    return "true" if b else "false"


def clist(items):
    return "[" + "; ".join(items) + "]"


def cbytes(b):
    """bytes / str -> list N"""
    if isinstance(b, str):
        b = b.encode("utf-8", errors="surrogateescape")
    return "[" + ";".join(str(x) for x in b) + "]%N"


def copt(x, f):
    return "None" if x is None else "(Some %s)" % f(x)


def cfloat(hexs):
    """Go %x float (e.g. 0x1.8p+01) -> Coq hex float literal"""
    s = hexs.strip()
    if s in ("+Inf", "Inf"):
        return "infinity"
    if s == "-Inf":
        return "neg_infinity"
    if s == "NaN":
        return "nan"
    neg = s.startswith("-")
    if neg:
        s = s[1:]
    if s.startswith("+"):
        s = s[1:]
    # Go prints 0x1.8p+01 ; Coq accepts 0x1.8p+1
    m = re.match(r"0x([0-9a-fA-F]+)(?:\.([0-9a-fA-F]*))?p([+-]?\d+)$", s)
    if not m:
        raise InternalError("bad float literal " + hexs)
    lit = "0x%s%sp%+d" % (m.group(1), ("." + m.group(2)) if m.group(2) else "", int(m.group(3)))
    return "(-%s)%%float" % lit if neg else "(%s)%%float" % lit


# ---------------------------------------------------------------- evaluating cases in Coq

TOKEN = re.compile(r'"(\d+):([^"]*)"')


def coq_eval(header, case_terms, case_type, check_fn, shard=250, timeout=400, jobs=16, preamble=""):
    """Write shards of `Definition cases : list T := [...]`, evaluate check_fn by vm_compute in
    one coqc per shard, return list of (verdict, detail, trivial, tags) per case in order."""
    d = os.path.join(scratch(), "cases-%d" % (int(time.time() * 1e6) % 10**9))
    os.makedirs(d, exist_ok=True)
    shards = [case_terms[i:i + shard] for i in range(0, len(case_terms), shard)] or [[]]
    files = []
    for si, sh in enumerate(shards):
        fn = os.path.join(d, "cases_%d.v" % si)
        with open(fn, "w") as f:
            f.write(header + "\nFrom Coq Require Import List ZArith NArith String Floats.\nImport ListNotations.\n")
            f.write(preamble + "\n")
            f.write("Definition cases : list (%s) := [\n" % case_type)
            f.write(";\n".join(sh))
            f.write("\n].\nDefinition out := Eval vm_compute in (%s cases).\nPrint out.\n" % check_fn)
        files.append(fn)

    def one(fn):
        p = run(["coqc", "-Q", COQ, "WTF", "-w", "-all", fn], timeout=timeout, cwd=d)
        if p.returncode == 124:
            # the evaluation is total (vm_compute of structurally recursive checkers): a time-out means a loaded machine,
            # not a verdict - evaluate the shard once more with a budget that a loaded machine meets too
            p = run(["coqc", "-Q", COQ, "WTF", "-w", "-all", fn], timeout=timeout * 6, cwd=d)
        return fn, p

    results = []
    with ThreadPoolExecutor(max_workers=jobs) as ex:
        outs = list(ex.map(one, files))
    for (fn, p), sh in zip(outs, shards):
        if p.returncode != 0:
            raise CoqCaseFailure("coqc failed on %s:\n%s" % (fn, (p.stderr.decode(errors="replace") + p.stdout.decode(errors="replace"))[-4000:]), fn)
        text = p.stdout.decode(errors="replace").replace("\n", " ")
        toks = TOKEN.findall(text)
        if len(toks) != len(sh):
            raise InternalError("expected %d verdicts from %s, got %d: %s" % (len(sh), fn, len(toks), text[:2000]))
        for (idx, rest) in toks:
            parts = rest.split(":")
            kind = parts[0]
            if kind == "ok":
                detail, k = "", 1
            else:
                detail, k = parts[1], 2
            trivial = parts[k] == "t"
            tags = [t for t in (parts[k + 1].split(",") if len(parts) > k + 1 else []) if t]
            results.append({"verdict": kind, "detail": detail, "trivial": trivial, "tags": tags})
    shutil.rmtree(d, ignore_errors=True)
    return results


class CoqCaseFailure(Exception):
    def __init__(self, msg, fn):
        super().__init__(msg)
        self.fn = fn


# ---------------------------------------------------------------- proofs

def coq_sources():
    out = []
    for root, _, files in os.walk(COQ):
        for fn in files:
            if fn.endswith(".v"):
                out.append(os.path.join(root, fn))
    return sorted(out)


def forbidden_constructs():
    bad = []
    for fn in coq_sources():
        with open(fn, errors="replace") as f:
            src = f.read()
        # strip comments (nested)
        src2 = strip_comments(src)
        for m in FORBIDDEN.finditer(src2):
            line = src2.count("\n", 0, m.start()) + 1
            bad.append("%s:%d:%s" % (os.path.relpath(fn, VERIF), line, m.group(0)))
    return bad


def strip_comments(s):
    out = []
    depth = 0
    i = 0
    instr = False
    while i < len(s):
        if depth == 0 and s[i] == '"':
            instr = not instr
            out.append(s[i]); i += 1; continue
        if not instr and s.startswith("(*", i):
            depth += 1; i += 2; continue
        if not instr and depth > 0 and s.startswith("*)", i):
            depth -= 1; i += 2; continue
        if depth == 0:
            out.append(s[i])
        elif s[i] == "\n":
            out.append("\n")
        i += 1
    return "".join(out)


def make_proofs(clean=False, timeout=3000):
    """Full .vo build of the development (incremental unless clean). Serialised by a lock."""
    lock = open(os.path.join(COQ, ".lock"), "w")
    fcntl.flock(lock, fcntl.LOCK_EX)
    try:
        if not os.path.exists(os.path.join(COQ, "Makefile")) or \
                os.path.getmtime(os.path.join(COQ, "Makefile")) < os.path.getmtime(os.path.join(COQ, "_CoqProject")):
            run(["coq_makefile", "-f", "_CoqProject", "-o", "Makefile"], cwd=COQ, check=True)
        if clean:
            run(["make", "clean"], cwd=COQ, timeout=300)
        p = run(["make", "-k", "-j16"], cwd=COQ, timeout=timeout)
        return p.returncode == 0, (p.stdout.decode(errors="replace") + p.stderr.decode(errors="replace"))[-6000:]
    finally:
        fcntl.flock(lock, fcntl.LOCK_UN)
        lock.close()


THEOREM = re.compile(r"^\s*(Theorem|Corollary)\s+([A-Za-z0-9_']+)", re.M)


def coqchk_props(prop_id, timeout=3000):
    """Independent re-check of the compiled Props/<id>.vo and everything it depends on (thorough tier only: minutes).
    Returns dict(ok, axioms(list), log)."""
    p = run(["coqchk", "-silent", "-o", "-Q", COQ, "WTF", "WTF.Props." + prop_id], cwd=COQ, timeout=timeout)
    out = p.stdout.decode(errors="replace") + p.stderr.decode(errors="replace")
    ok = p.returncode == 0
    axioms = []
    m = re.search(r"\* Axioms:(.*?)\n\s*\n\* Constants/Inductives relying on type-in-type", out, re.S)
    if m:
        axioms = [l.strip() for l in m.group(1).splitlines() if l.strip() and l.strip() != "<none>"]
    for key in ("relying on type-in-type", "relying on unsafe (co)fixpoints", "whose positivity is assumed"):
        mm = re.search(re.escape(key) + r":\s*(.*)", out)
        if not mm or mm.group(1).strip() != "<none>":
            ok = False
    return {"ok": ok, "axioms": axioms, "log": out[-3000:]}


def check_props(prop_id, timeout=900):
    """Re-compile Props/<id>.v (theorem statements closed by `exact`), capture Print Assumptions.
    Returns dict(obligations, discharged, assumptions(list), log, ok)."""
    src = os.path.join(COQ, "Props", prop_id + ".v")
    if not os.path.exists(src):
        return {"ok": False, "obligations": 0, "discharged": 0, "assumptions": [], "theorems": [],
                "log": "missing " + src}
    with open(src) as f:
        text = strip_comments(f.read())
    theorems = [m.group(2) for m in THEOREM.finditer(text)]
    d = os.path.join(scratch(), "props-" + prop_id)
    os.makedirs(d, exist_ok=True)
    tmp = os.path.join(d, prop_id + "_recheck.v")
    shutil.copy(src, tmp)
    p = run(["coqc", "-Q", COQ, "WTF", "-w", "-all", tmp], cwd=d, timeout=timeout)
    out = p.stdout.decode(errors="replace")
    ok = p.returncode == 0
    assumptions = parse_assumptions(out)
    shutil.rmtree(d, ignore_errors=True)
    return {"ok": ok, "obligations": len(theorems), "discharged": len(theorems) if ok else 0,
            "assumptions": assumptions, "theorems": theorems,
            "log": (out + p.stderr.decode(errors="replace"))[-4000:]}


def parse_assumptions(out):
    """Collect axiom names printed by `Print Assumptions` (lines `name : type` after `Axioms:`)."""
    names = []
    in_ax = False
    for line in out.splitlines():
        if line.startswith("Axioms:"):
            in_ax = True
            continue
        if line.startswith("Closed under the global context"):
            in_ax = False
            continue
        if in_ax:
            m = re.match(r"^([A-Za-z_][A-Za-z0-9_'.]*)\s*:", line)
            if m:
                if m.group(1) not in names:
                    names.append(m.group(1))
            elif line and not line.startswith(" "):
                in_ax = False
    return names


# ---------------------------------------------------------------- known findings

def known_findings(prop_id):
    fn = os.path.join(VERIF, "KNOWN_FINDINGS.txt")
    out = []
    if not os.path.exists(fn):
        return out
    with open(fn) as f:
        for line in f:
            line = line.strip()
            m = re.match(r"finding:\s+property=(\S+)\s+key=(\S+)\s+(.*)$", line)
            if m and m.group(1) == prop_id:
                out.append({"key": m.group(2), "text": m.group(3)})
    return out


# ---------------------------------------------------------------- evidence / violations

def write_replay(prop_id, payload):
    os.makedirs(os.path.join(VERIF, "replays"), exist_ok=True)
    blob = json.dumps(payload, sort_keys=True, default=str)
    h = hashlib.sha256(blob.encode()).hexdigest()[:10]
    path = os.path.join(VERIF, "replays", "%s-%s.json" % (prop_id, h))
    payload = dict(payload)
    payload["replay_cmd"] = "bin/check %s --replay %s" % (prop_id, os.path.relpath(path, VERIF))
    with open(path, "w") as f:
        json.dump(payload, f, indent=1, default=str)
    return path


def write_evidence(prop_id, tier, seed, coverage, assumptions, violations, extra=None):
    os.makedirs(os.path.join(VERIF, "evidence"), exist_ok=True)
    ev = {"property_id": prop_id, "tier": tier, "seed": int(seed), "level": "proof",
          "coverage": coverage, "assumptions": assumptions, "wall_s": round(time.time() - T0, 2),
          "violations": int(violations)}
    if extra:
        ev.update(extra)
    path = os.path.join(VERIF, "evidence", prop_id + ".json")
    tmp = path + ".tmp%d" % os.getpid()
    with open(tmp, "w") as f:
        json.dump(ev, f, indent=1, default=str)
    os.replace(tmp, path)
    return path
