"""Shared Coq emitters for the engine cases."""
import core


def cres(rs):
    return core.clist(["(%s, %s)" % (core.cz(r["doc"]), core.cfloat(r["score"])) for r in (rs or [])])


def cbl(l):
    return core.clist([core.cbytes(bytes(x or [])) for x in (l or [])])


def b2s(x):
    return bytes(x or []).decode("utf-8", "replace")


def opts_sample(o):
    d = {k: v for k, v in o.items() if v not in (None, False, "", 0, [])}
    if "boosts" in d:
        d["boosts"] = {b2s(b["word"]): b["f"] for b in d["boosts"]}
    if "platforms" in d:
        d["platforms"] = [b2s(p) for p in d["platforms"]]
    return d


def db_sample(db, k=3):
    return [{"command": b2s(c["cmd"]), "description": b2s(c["desc"])[:60], "keywords": [b2s(x) for x in c["keys"] or []],
             "platform": [b2s(x) for x in c["platform"] or []], "pipeline": c["pipeline"]} for c in (db or [])[:k]]
