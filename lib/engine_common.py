"""Shared Coq emitters for the engine cases."""
import core


def cres(rs):
    return core.clist(["(%s, %s)" % (core.cz(r["doc"]), core.cfloat(r["score"])) for r in (rs or [])])


def cbl(l):
    return core.clist([core.cbytes(bytes(x or [])) for x in (l or [])])


def b2s(x):
    return bytes(x or []).decode("utf-8", "replace")


def opts_sample(o):
    d = {k: v for k, v in o.items() if v not in (None, False, "", 0, [])}
    if "boosts" in d:
        d["boosts"] = {b2s(b["word"]): b["f"] for b in d["boosts"]}
    if "platforms" in d:
        d["platforms"] = [b2s(p) for p in d["platforms"]]
    return d


def db_sample(db, k=3):
    return [{"command": b2s(c["cmd"]), "description": b2s(c["desc"])[:60], "keywords": [b2s(x) for x in c["keys"] or []],
             "platform": [b2s(x) for x in c["platform"] or []], "pipeline": c["pipeline"]} for c in (db or [])[:k]]


# ---------------------------------------------------------------- shared engine cases (harness "eng")

def ccmd(e, lc):
    return ("{| c_cmd := %s; c_desc := %s; c_keys := %s; c_tags := %s; c_niche := %s; c_platform := %s; c_pipeline := %s; "
            "c_cmd_l := %s; c_desc_l := %s; c_keys_l := %s; c_tags_l := %s; c_cmd_lc := %s |}") % (
        core.cbytes(bytes(e["cmd"] or [])), core.cbytes(bytes(e["desc"] or [])), cbl(e["keys"]), cbl(e["tags"]),
        core.cbytes(bytes(e["niche"] or [])), cbl(e["platform"]), core.cbool(e["pipeline"]),
        core.cbytes(bytes(e["cmd_l"] or [])), core.cbytes(bytes(e["desc_l"] or [])), cbl(e["keys_l"]), cbl(e["tags_l"]),
        core.cbytes(bytes(lc or [])))


def fl(x):
    """decimal or %x float text -> Coq float"""
    if x in ("", None):
        return "0%float"
    if x.startswith("0x") or x.startswith("-0x") or x in ("+Inf", "-Inf", "NaN", "Inf"):
        return core.cfloat(x)
    return core.cfloat(float(x).hex())


def copts(o):
    return ("{| o_limit := %s; o_boosts := %s; o_pipeline_only := %s; o_pipeline_boost := %s; o_fuzzy := %s; o_threshold := %s; "
            "o_nlp := %s; o_terms_cap := %s; o_all_platforms := %s; o_platforms := %s; o_no_cross := %s |}") % (
        core.cz(o["limit"]), core.clist(["(%s, %s)" % (core.cbytes(bytes(b["word"] or [])), fl(b["f"])) for b in dedupe_boosts(o.get("boosts"))]),
        core.cbool(o["pipeline_only"]), fl(o.get("pipeline_boost")), core.cbool(o["fuzzy"]), core.cz(o["threshold"]),
        core.cbool(o["nlp"]), core.cz(o["terms_cap"]), core.cbool(o["all_platforms"]), cbl(o.get("platforms")), core.cbool(o["no_cross"]))


def dedupe_boosts(bs):
    """Go builds a map: the last factor given for a word wins."""
    out = {}
    for b in (bs or []):
        out[bytes(b["word"] or [])] = b
    return list(out.values())


def cnlp(n):
    tf = "None"
    if n["has_tfidf"]:
        tf = "(Some %s)" % cres(n.get("tfidf"))
    return ("{| n_actions := %s; n_targets := %s; n_enhanced := %s; n_intent_boost := %s; n_cooccur := %s; n_cascade := %s; n_tfidf := %s |}") % (
        cbl(n["actions"]), cbl(n["targets"]), cbl(n["enhanced"]), core.clist([core.cfloat(x) for x in (n.get("intent_boost") or [])]),
        core.clist([core.cbool(x) for x in (n.get("cooccur") or [])]), core.clist([core.cfloat(x) for x in (n.get("cascade") or [])]), tf)


def cecase(c):
    params = "{| p_k1 := %s; p_b := (%s, %s, %s, %s); p_w := (%s, %s, %s, %s); p_min_idf := %s |}" % (
        (core.cfloat(c["k1"]),) + tuple(core.cfloat(x) for x in c["b"]) + tuple(core.cfloat(x) for x in c["w"]) + (core.cfloat(c["min_idf"]),))
    extra = core.clist(['("%s", %s)' % (k, cres(v)) for k, v in sorted((c.get("extra") or {}).items())])
    fz = core.clist(["None" if x is None else "(Some %s)" % core.cz(x) for x in (c.get("fuzzy") or [])])
    cmds = core.clist([ccmd(e, lc) for e, lc in zip(c.get("db") or [], c.get("cmd_lc") or [])])
    return ("{| k_stop := stopw; k_tools := toolw; k_host := %s; k_params := %s; k_idf := %s; k_fuzzy := %s; k_cmds := %s; k_q := %s; "
            "k_opts := %s; k_nlp := %s; k_obs := %s; k_extra := %s; k_recased := %s; k_nlp_keywords := %s; k_nlp_sig := %s; k_nlp_sig2 := %s; k_doc_toks := %s; k_q_toks := %s; k_logt := %s; k_tabs := {| t_stop := stopw; t_actions := nlp_actions; t_targets := nlp_targets; t_synonyms := nlp_synonyms |}; "
            "k_words := %s; k_qlower := %s; k_nlp_intent := %s; k_nlp_hints := %s; k_legacy := %s; k_legacy_words := %s |}") % (
        core.cbytes(bytes(c["host"] or [])), params, core.clist([core.cfloat(x) for x in c["idf"]]), fz, cmds,
        core.cbytes(bytes(c["q"] or [])), copts(c["opts"]), cnlp(c["nlp"]), cres(c.get("obs")), extra,
        core.cbytes(bytes(c.get("recased") or [])), cbl(c["nlp"].get("keywords")), cbl(c["nlp"].get("sig")), cbl(c["nlp"].get("sig2")),
        core.clist([cbl(d) for d in (c["nlp"].get("doc_toks") or [])]), cbl(c["nlp"].get("q_toks")), core.clist([core.cfloat(x) for x in (c["nlp"].get("logt") or [])]),
        cbl(c["nlp"].get("words")), core.cbytes(bytes(c["nlp"].get("q_lower") or [])), INTENTS.get(c["nlp"].get("intent"), "IGeneral"), cbl(c["nlp"].get("hints")),
        core.clist([core.cfloat(x) for x in (c.get("legacy") or [])]), cbl(c.get("legacy_words")))


_TAB = {}
INTENTS = {"general": "IGeneral", "find": "IFind", "create": "ICreate", "delete": "IDelete", "modify": "IModify", "view": "IView", "run": "IRun",
           "install": "IInstall", "configure": "IConfigure"}


def ctab(pairs):
    return core.clist(["(%s, %s)" % (core.cbytes(bytes(p["k"] or [])), cbl(p["v"])) for p in (pairs or [])])


def eng_preamble(cases):
    """stop words, tool list and the NLP word tables are the same for every case of a run: define them once per file"""
    for c in cases:
        if c.get("nlp_tables"):
            _TAB["t"] = c["nlp_tables"]
    t = _TAB.get("t") or {"actions": [], "targets": [], "synonyms": []}
    tabs = ("Definition nlp_actions : list (list N * list (list N)) := %s.\nDefinition nlp_targets : list (list N * list (list N)) := %s.\n"
            "Definition nlp_synonyms : list (list N * list (list N)) := %s.\n" % (ctab(t["actions"]), ctab(t["targets"]), ctab(t["synonyms"])))
    for c in cases:
        if c.get("stop") is not None:
            return "Definition stopw : list (list N) := %s.\nDefinition toolw : list (list N) := %s.\n" % (cbl(c["stop"]), cbl(c["tools"])) + tabs
    return "Definition stopw : list (list N) := [].\nDefinition toolw : list (list N) := [].\n" + tabs


def eng_sample(c):
    return {"query": b2s(c["q"]), "options": opts_sample(c["opts"]), "db_size": len(c.get("db") or []), "db_head": db_sample(c.get("db")),
            "answer": (c.get("obs") or [])[:5], "paired_runs": {k: len(v or []) for k, v in (c.get("extra") or {}).items()}}


def eng_identity(c):
    return [c.get("db"), c["q"], c["opts"]]


def eng_shrink(c):
    db = c.get("db") or []
    n = len(db)
    if n > 1:
        for lo, hi in ((0, n // 2), (n // 2, n)):
            d = dict(c); d["db"] = db[:lo] + db[hi:]; yield d
    for i in range(min(n, 40)):
        d = dict(c); d["db"] = db[:i] + db[i + 1:]; yield d
    q = bytes(c["q"] or [])
    ws = q.split(b" ")
    if len(ws) > 1:
        for i in range(len(ws)):
            d = dict(c); d["q"] = list(b" ".join(ws[:i] + ws[i + 1:])); d["recased"] = d["q"]; yield d


ENG_HEADER = "From WTF Require Import Model.Validate Model.Text Model.Platform Model.Engine Model.Nlp Check.EngineTypes Check.Eng."
ENG_RULE = ("engine cases: databases of 0-41 entries built from a 75-word vocabulary (actions, targets, stop words, tool names) with planted duplicates, "
            "entries identical except for one field, equal-scoring groups, empty fields, punctuation glue, multi-byte / invalid bytes, platform tags from "
            "{none, linux, macos, windows, darwin, powershell, cmd, bash, unix, Cross-Platform, unknown, mixed case}, pipeline markers; queries of 0-15 words "
            "(vocabulary words, typos/fragments of entries, words of entries, punctuation, re-cased); options vary in every field (limits around the "
            "database size, boosts, pipeline, fuzzy, threshold, NLP, term cap, platform switches). Each case runs SearchUniversal plus paired runs "
            "(fuzzy on/off, NLP on/off and boosts on/off at a limit above the database size, re-cased query, cached twice, legacy pipeline search). ")
