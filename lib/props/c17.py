"""C17: every CLI command runs, and search output matches the engine's answer."""
import json, re
import core, engine_common as ec
ID = "C17"
HARNESS = "c17"
N = {"quick": 150, "thorough": 1500}
SHARD = 40
HEADER = "From WTF Require Import Model.Validate Model.Text Model.Cli Check.C17."
CASE_TYPE = "case17"
CHECK_FN = "check_cases"
MISMATCH_IS_VIOLATION = False
HARNESS_TIMEOUT = 3000
RULE = ("one 'tree' case: the cobra command tree with every declared flag (reflected from the built code), checked by flags_ok; 'sub' cases: every sub-command "
        "(search, alias add/list/remove, setup, save, wizard, pipeline, save-pipeline, history, help, completion, none) run as the BUILT binary with 0-4 hostile "
        "arguments (empty, dashes, newlines, ESC sequences, invalid UTF-8, YAML-significant text, flags without values) in an isolated home: no panic; 'search' "
        "cases: generated database (--database), query (padded / repeated spaces / non-matching prefix), --limit in {none,0,1,2,3,5,7,100,101,-1}, --format "
        "list|json|table, -v, --no-color or NO_COLOR, platform flags; printed items compared with the engine's answer computed in-process from the same inputs "
        "(else the recovery search cut to the limit), JSON parsed, ESC bytes searched, history file read back. non-trivial = at least one item printed; "
        "distinct = distinct command line and database")
TRUSTED = ["cobra / pflag merge rule as modelled in Model/Cli.v (a different flag owning the shorthand panics; same-named flags are skipped)",
           "fmt / encoding/json rendering: printed items are recovered from stdout by the harness's parser", "correspondence harness"]
ASSUMPTIONS = []


def prepare(tier, seed):
    import os
    os.environ["VERIF_WTF_BIN"] = core.build_wtf()


def flag(f):
    return "{| f_name := %s; f_short := %s; f_type := %s |}" % (core.cbytes(bytes(f["name"] or [])), core.cbytes(bytes(f["short"] or [])), core.cbytes(bytes(f["type"] or [])))


SGR = re.compile(rb"\x1b\[[0-9;]*m")


def parse_printed(c):
    """recover the printed items (command, description) from stdout; returns (items, exact, json_ok)"""
    out = bytes(c.get("stdout") or [])
    fmt = c.get("format")
    if fmt == "json":
        i = out.find(b"\n[")
        if i < 0:
            return [], True, False
        body = out[i + 1:]
        j = body.rfind(b"]")
        if j < 0:
            return [], True, False
        try:
            arr = json.loads(body[:j + 1].decode("utf-8", "surrogateescape"))
        except Exception:
            return [], True, False
        ok = isinstance(arr, list) and all(isinstance(x, dict) and "command" in x and "description" in x for x in arr)
        if not ok:
            return [], True, False
        items = [(x["command"].encode("utf-8", "surrogateescape"), x["description"].encode("utf-8", "surrogateescape")) for x in arr]
        return items, True, True
    color = not c.get("no_color")
    if fmt == "table":
        lines = out.split(b"\n")
        items = []
        started = False
        for ln in lines:
            l2 = SGR.sub(b"", ln) if color else ln
            if l2.startswith(b"---"):
                started = True
                continue
            m = re.match(rb"^(\d+)\s+(.*)$", l2)
            if started and m and len(l2) >= 4:
                items.append((l2[4:52].rstrip(), b""))
        return items, False, True
    # list
    items = []
    exact = not any(b"\n" in bytes(e["cmd"]) or b"\n" in bytes(e["desc"]) or b"\r" in bytes(e["cmd"]) for e in (c.get("db") or [])) if c.get("db") else True
    lines = out.split(b"\n")
    k = 0
    while k < len(lines):
        ln = lines[k]
        if color:
            m = re.match(rb"^\x1b\[1m(\d+)\.\x1b\[0m \x1b\[36m(.*)\x1b\[0m$", ln, re.S)
        else:
            m = re.match(rb"^(\d+)\. (.*)$", ln, re.S)
        if m and int(m.group(1)) == len(items) + 1:
            desc = b""
            if k + 1 < len(lines):
                d = lines[k + 1]
                pre = b"   \x1b[33mDescription:\x1b[0m " if color else b"   Description: "
                if d.startswith(pre):
                    desc = d[len(pre):]
            items.append((m.group(2), desc))
        k += 1
    return items, exact, True


def coq_case(c):
    k = c["kind"]
    if k == "tree":
        cmds = ["{| cm_path := %s; cm_local := %s; cm_persistent := %s |}" % (ec.cbl(x["path"]), core.clist([flag(f) for f in (x.get("local") or [])]),
                                                                              core.clist([flag(f) for f in (x.get("persistent") or [])])) for x in c["tree"]]
        return "KTree %s" % core.clist(cmds)
    if k == "sub":
        return "KSub %s %s %s" % (ec.cbl(c.get("args")), core.cz(c["exit"]), core.cbool(c["panic"]))
    items, exact, json_ok = parse_printed(c)
    c["_printed"] = [(a.decode("utf-8", "replace"), b.decode("utf-8", "replace")) for a, b in items]

    def it(l):
        return core.clist(["(%s, %s)" % (core.cbytes(bytes(x["cmd"] or [])), core.cbytes(bytes(x["desc"] or []))) for x in (l or [])])
    pr = core.clist(["(%s, %s)" % (core.cbytes(a), core.cbytes(b)) for a, b in items])
    # no dedicated db in the search case sample: the exactness of list parsing is decided from the expected texts
    exp = (c.get("engine") or []) or (c.get("recovery") or [])
    if c.get("format") == "list":
        exact = not any(10 in (x["cmd"] or []) or 10 in (x["desc"] or []) or 13 in (x["cmd"] or []) or 13 in (x["desc"] or []) for x in exp)
    return ("KSearch {| s_format := \"%s\"; s_no_color := %s; s_accepted := %s; s_limit_ok := %s; s_limit := %s; s_engine := %s; s_recovery := %s; "
            "s_printed := %s; s_exact := %s; s_json_ok := %s; s_stdout := %s; s_exit := %s; s_panic := %s; s_hist_before := %s; s_hist_after := %s; "
            "s_hist_last := %s; s_hist_last_n := %s; s_clean := %s; s_query := %s; s_limit_arg := %s; s_default := %s |}") % (
        c.get("format") or "list", core.cbool(c["no_color"]), core.cbool(c["accepted"]), core.cbool(c["limit_ok"]), core.cz(c["limit"]),
        it(c.get("engine")), it(c.get("recovery")), pr, core.cbool(exact), core.cbool(json_ok), core.cbytes(bytes(c.get("stdout") or [])),
        core.cz(c["exit"]), core.cbool(c["panic"]), core.cz(c["hist_before"]), core.cz(c["hist_after"]), core.cbytes(bytes(c.get("hist_last") or [])),
        core.cz(c["hist_last_n"]), core.cbytes(bytes(c.get("clean") or [])), core.cbytes(bytes(c.get("q") or [])), core.cz(c.get("limit_arg", 0)), core.cz(c.get("default_limit", 5)))


def keep(c):
    return c["kind"] != "skip"


def identity(c):
    return [c["kind"], c.get("args"), c.get("db"), c.get("env")]


def sample(c):
    if c["kind"] == "tree":
        return {"kind": "tree", "commands": [" ".join(ec.b2s(p) for p in x["path"]) for x in c["tree"]]}
    d = {"kind": c["kind"], "argv": [ec.b2s(a) for a in (c.get("args") or [])], "env": c.get("env"), "exit": c["exit"], "panic": c["panic"]}
    if c["kind"] == "search":
        d.update({"limit_in_force": c["limit"], "engine_items": len(c.get("engine") or []), "recovery_items": len(c.get("recovery") or []),
                  "stdout_head": bytes(c.get("stdout") or [])[:200].decode("utf-8", "replace"), "history_after": c["hist_after"]})
    return d


def finding_key(c, r):
    return None

LEVEL_TEXT = "Theorems (Props/C17.v): the search command as a whole (Model/SearchCommand.v, any engine and recovery search) - an accepted query is searched and recorded as the validated text itself, what is printed is the answer for that text, the history ends with one entry for it with the printed count, a rejected query or limit searches, prints and records nothing (run on every search case with the observed answers); a command tree accepted by flags_ok has no command whose merged flag set lets two different flags share a shorthand (the condition under which cobra panics at start-up) - re-established on every run by evaluating flags_ok on the tree reflected from the built code; the CLI prints the engine's results when there are any, else the recovery results cut to the limit, never more than the limit; its stable re-sort does not reorder a ranked answer; a search leaves its query as the newest history entry. Tied to the code by running the BUILT binary in an isolated home: every sub-command with hostile arguments (no panic), and searches whose printed items (list / table / JSON) are compared with the engine's in-process answer for the same inputs, JSON parsed, ESC bytes searched under --no-color / NO_COLOR, history file read back."
LEVEL_NOTE = "Partial: cobra/pflag, fmt and encoding/json are third-party / runtime (merge rule modelled; output recovered by the harness's parser). Trusted: Coq kernel; FloatAxioms for the re-sort lemma; harness."
TECHNIQUE = "Coq proof (flag-merge soundness, CLI composition) + regenerated command-tree table + differential runs of the built binary"
