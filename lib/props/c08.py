"""C08: a saved command is stored faithfully, keeps its neighbours, is searchable."""
import core, engine_common as ec
ID = "C08"
HARNESS = "c08"
N = {"quick": 120, "thorough": 1500}
SHARD = 40
HEADER = "From WTF Require Import Model.Validate Model.Text Model.Save Check.C08."
CASE_TYPE = "case08"
CHECK_FN = "check_cases"
MISMATCH_IS_VIOLATION = True
HARNESS_TIMEOUT = 3000
RULE = ("sequences of 1-6 `wtf save` / `wtf save-pipeline` runs of the BUILT binary in an isolated home, starting from a missing, empty or populated notebook; command "
        "and description drawn from a hostile alphabet (YAML indicators - : # {} [] | > & * ! % @ `, null/true/numbers/dates, quotes, {{...}}, leading/trailing/double "
        "space, tab, multi-line, leading/trailing newline, CR, control characters, invalid UTF-8, NEL, empty, 300-byte text), keywords / category / platforms / "
        "--pipeline / --description flags, one third of the steps re-saving an existing command string; after every run the notebook file is re-loaded with "
        "LoadDatabase and must equal save_entry(previous notebook, entry); then LoadDatabaseWithPersonal must give main ++ notebook and a search for the first content "
        "word of the saved command must return the saved entry. non-trivial = at least one run reported success; distinct = distinct sequence")
TRUSTED = ["yaml.v3 (third party) is an oracle: decode(encode(notebook)) = notebook is exactly what each step tests", "pflag's parsing of the command line (keywords are comma / quote free)",
           "correspondence harness"]
ASSUMPTIONS = ["arguments cannot contain NUL (execve)"]


def prepare(tier, seed):
    import os
    os.environ["VERIF_WTF_BIN"] = core.build_wtf()


def ent(e):
    return "{| n_cmd := %s; n_desc := %s; n_keys := %s; n_tags := %s; n_niche := %s; n_platforms := %s; n_pipeline := %s |}" % (
        core.cbytes(bytes(e.get("cmd") or [])), core.cbytes(bytes(e.get("desc") or [])), ec.cbl(e.get("keys")), ec.cbl(e.get("tags")), core.cbytes(bytes(e.get("niche") or [])),
        ec.cbl(e.get("platforms")), core.cbool(e.get("pipeline", False)))


def step_entry(s):
    if s["kind"] == "save":
        return ent(s)
    desc = "(Some %s)" % core.cbytes(bytes(s.get("desc") or [])) if s.get("has_desc") else "None"
    return "(pipeline_entry %s %s %s %s %s %s)" % (core.cbytes(bytes(s.get("name") or [])), core.cbytes(bytes(s.get("cmd") or [])), desc, ec.cbl(s.get("keys")),
                                                   core.cbytes(bytes(s.get("niche") or [])), ec.cbl(s.get("platforms")))


def coq_case(c):
    steps = []
    for s in c["steps"]:
        ran = s.get("book") is not None or s.get("exit", 0) != 0 or s.get("success") or s.get("panic") or s.get("load_err")
        steps.append("{| t_entry := %s; t_ran := %s; t_panic := %s; t_success := %s; t_load_err := %s; t_book := %s; t_has_token := %s; t_found := %s; t_merged_ok := %s |}" % (
            step_entry(s), core.cbool(bool(ran)), core.cbool(s["panic"]), core.cbool(s["success"]), core.cbool(s["load_err"]),
            core.clist([ent(e) for e in (s.get("book") or [])]), core.cbool(bool(s.get("token"))), core.cbool(s["found"]), core.cbool(s["merged_ok"])))
    return "{| c_init := %s; c_steps := %s |}" % (core.clist([ent(e) for e in (c.get("init") or [])]), core.clist(steps))


def identity(c):
    return [c["start"], [(s["kind"], s.get("name"), s["cmd"], s.get("desc"), s.get("keys"), s.get("niche"), s.get("platforms"), s.get("pipeline")) for s in c["steps"]]]


def sample(c):
    return {"start": c["start"], "steps": [{"kind": s["kind"], "command": repr(bytes(s["cmd"] or [])), "description": repr(bytes(s.get("desc") or [])),
                                             "success": s["success"], "exit": s["exit"], "notebook_entries_after": len(s.get("book") or []), "found_by_search": s["found"]} for s in c["steps"]]}


def finding_key(c, r):
    return None


def shrink_candidates(c):
    st = c["steps"]
    for i in range(len(st)):
        d = dict(c); d["steps"] = st[:i] + st[i + 1:]; yield d

LEVEL_TEXT = "Theorems (Props/C08.v) on Model/Save.v: the saved entry is in the notebook exactly as given; every earlier entry with a different command string is still there, unchanged and in its original relative position; re-saving a command string replaces in place (length unchanged), a new one is appended; no duplicate command strings are ever introduced; the searched database is main ++ notebook; a saved command is a candidate of the next search for any word of its command line (with C03's index theorems). Tied to the code by driving the BUILT binary: after every `wtf save` / `save-pipeline` with hostile arguments the notebook is re-loaded and must equal save_entry(previous, entry), then searched for a word of the saved command."
LEVEL_NOTE = 'Partial: yaml.v3 is a third-party oracle whose round-trip is sampled (every step), not proved. Trusted: Coq kernel; pflag argument parsing; harness.'
TECHNIQUE = "Coq proof (list logic of the notebook, composition with the index theorems) + differential runs of the built binary with reload"
