"""C06 (engine family): shared engine cases, property predicate C06 evaluated in Coq on the implementation's outputs,
model Model/Engine.v compared on every run."""
import core, engine_common as ec
ID = "C06"
HARNESS = "eng"
N = {"quick": 400, "thorough": 5000}
SHARD = 25
HEADER = ec.ENG_HEADER
CASE_TYPE = "ecase"
CHECK_FN = 'check_cases "C06"'
MISMATCH_IS_VIOLATION = False
RULE = ec.ENG_RULE + "non-trivial = the main answer is non-empty; distinct = distinct (database, query, options)"
TRUSTED = ["oracles fed to the model from the real code for each case: bm25IDF values (math.Log), the cleaned lower-cased words of the query (the analysis itself is computed by Model/Nlp.v from them and compared) and per-document NLP "
           "multipliers, the TF-IDF tokenizer output and math.Log table (the ranking itself is computed by Model/Tfidf.v and compared), raw sahilm/fuzzy scores", "correspondence harness", "PrimFloat = Go float64 on amd64 (no FMA fusion)"]
ASSUMPTIONS = ["platform tags are ASCII (EqualFold modelled by ASCII folding)"]
coq_case = ec.cecase
preamble = ec.eng_preamble
sample = ec.eng_sample
identity = ec.eng_identity
shrink_candidates = ec.eng_shrink


def keep(c):
    return not c.get("note")


def finding_key(c, r):
    return None

LEVEL_TEXT = "Theorems (Props/C06.v): for every query the expanded term list of the NLP model has no duplicates and begins with the keywords of the query in the order typed, each keyword being a typed word or its first listed synonym; with NLP on every command returned with NLP off is still returned (<= 10 distinct content words, default cap, no cut), each of the first four terms survives term selection at any length, the enhanced term list begins with the user's own terms in order, selection never invents a term - for ANY NLP analysis. Tied to the code by the engine correspondence (NLP on/off pairs at a limit above the database size compared with the model bit for bit)."
LEVEL_NOTE = 'ProcessQuery, the hint rule base and GetEnhancedKeywords are modelled (Model/Nlp.v) and compared with the code on every case; oracles left: regexp cleaning and Unicode lower-casing of the query (the word list), the word tables (data read from the built code through a hook), per-document multipliers. Same analysis on repeated calls is observed (8 calls per case), the model being a function. Trusted: Coq kernel; oracles; harness.'
TECHNIQUE = "Coq proof over the engine model + differential correspondence (vm_compute, bit-exact scores)"
