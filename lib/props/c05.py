"""C05: the result cache is invisible - cached answers equal fresh answers."""
import core, engine_common as ec
ID = "C05"
HARNESS = "c05"
N = {"quick": 300, "thorough": 4000}
SHARD = 40
HEADER = "From WTF Require Import Model.Validate Model.Text Model.Platform Model.Engine Model.Lru Model.CacheLayer Check.EngineTypes Check.C05."
CASE_TYPE = "case05"
CHECK_FN = "check_cases"
MISMATCH_IS_VIOLATION = False
RULE = ("histories of 3-25 operations on one MonitoredDatabase (= CachedDatabase + monitor): cached search, monitored search, invalidate, enable, disable, "
        "expiry sweep, UpdateDatabase or LoadDatabaseWithMonitoring (one of 3 generated databases), stats; queries drawn with repeats from a pool of 4 queries with upper-case, re-cased and "
        "space-padded variants; options drawn from a pool in which every field of SearchOptions is varied one at a time (limit, boosts, pipeline-only, pipeline "
        "boost, fuzzy, threshold, NLP, term cap, all-platforms, platforms, no-cross-platform). After every search the uncached SearchUniversal is called on the same "
        "Database: the two answers must be identical (predicate), and the model (Model/CacheLayer.v over Model/Lru.v) must predict every answer and the "
        "hit / miss / size statistics after every step. non-trivial = at least two searches; distinct = distinct history")
TRUSTED = ["SHA-256 of encoding/json output is injective on (query, options) tuples (keys are modelled structurally)", "the engine is a function (C02)",
           "correspondence harness"]
ASSUMPTIONS = ["cache lifetime (5 min) does not elapse within a history; expiry itself is C12"]


def sorted_opts(o):
    o = dict(o)
    o["boosts"] = sorted(ec.dedupe_boosts(o.get("boosts")), key=lambda b: bytes(b["word"] or []))
    return o


def coq_step(s):
    st = "(%s, %s, %s)" % (core.cz(s["hits"]), core.cz(s["misses"]), core.cz(s["size"]))
    if s["op"] in ("search", "monsearch"):
        return "(SSearch %s %s %s %s %s, %s)" % (core.cbool(s["op"] == "monsearch"), core.cbytes(bytes(s.get("q") or [])), ec.copts(sorted_opts(s["opts"])),
                                                 ec.cres(s.get("got")), ec.cres(s.get("fresh")), st)
    # "monload" (LoadDatabaseWithMonitoring) is the same abstract operation as "update": the database is replaced
    return '(SOther "%s" %s, %s)' % ("update" if s["op"] == "monload" else s["op"], core.cnat(s.get("db_sel", 0)), st)


def coq_case(c):
    return "{| c_steps := %s |}" % core.clist([coq_step(s) for s in c["steps"]])


def keep(c):
    return not c.get("note")


def identity(c):
    return [c["dbs"], [(s["op"], s.get("q"), s.get("opts"), s.get("db_sel")) for s in c["steps"]]]


def sample(c):
    return {"db_sizes": [len(d) for d in c["dbs"]],
            "steps": [{"op": s["op"], "query": ec.b2s(s.get("q")), "options": ec.opts_sample(s["opts"]) if s.get("opts") else None,
                       "answer_len": len(s.get("got") or []), "hits": s["hits"], "misses": s["misses"], "size": s["size"]} for s in c["steps"][:10]]}


def finding_key(c, r):
    return None


def shrink_candidates(c):
    st = c["steps"]
    n = len(st)
    if n > 2:
        for lo, hi in ((0, n // 2), (n // 2, n)):
            d = dict(c); d["steps"] = st[:lo] + st[hi:]; yield d
    for i in range(n):
        d = dict(c); d["steps"] = st[:i] + st[i + 1:]; yield d

LEVEL_TEXT = 'Theorems (Props/C05.v): for ANY engine function and key function under which requests sharing a key share an answer, and for every history of cached / monitored searches, invalidations, enable / disable switches, sweeps and database replacements, each search returns exactly what the engine returns on the database current at that moment (invariant: every cached pair is a non-empty engine answer on the current database); no entry outlives a replacement; requests with different answers never share a key; and the repaired key (ASCII-lower-cased query, every option field) is sound for the engine model. Tied to the code on every run: histories through MonitoredDatabase with the uncached answer taken after every search; the model (CacheLayer over the C12 LRU model) must predict every answer and the hit / miss / size statistics after every step.'
LEVEL_NOTE = 'Trusted: Coq kernel + vm_compute; SHA-256(JSON) injective on key tuples (keys are structural in the model); the engine is a function (C02); key soundness of the concrete engine is partial as in C20 (query-derived oracles). No axioms.'
TECHNIQUE = "Coq proof (invariant over operation histories of the cache layer on the LRU model) + differential correspondence"
