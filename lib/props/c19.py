"""C19: semantic embeddings are strictly optional and their files cannot hurt."""
import core, engine_common as ec
ID = "C19"
HARNESS = "c19"
N = {"quick": 240, "thorough": 3000}
SHARD = 40
HEADER = "From WTF Require Import Model.Validate Model.Text Model.Engine Model.Embedding Check.EngineTypes Check.Eng Check.C19."
CASE_TYPE = "case19"
CHECK_FN = "check_cases"
MISMATCH_IS_VIOLATION = False
HARNESS_TIMEOUT = 3000
RULE = ("six kinds of case. dbload: Database.LoadEmbeddings in a child whose working directory holds valid asset files with fewer, as many or more command embeddings than the database has commands, then a search: no crash. wvpipe / cepipe: the same kinds of content delivered through a named pipe (no size to check the header against): no crash, same memory budget. wv / ce: word-vector and command-embedding files (valid with 0-3 entries, truncated at any byte, header-only files of 0-11 bytes, counts of "
        "2^32-1 / 2^28 / one too many, wrong dimension, 65535-byte word length, trailing garbage) loaded in a CHILD process under RLIMIT_AS: exit status, error flag, number "
        "of vectors, first vector bytes and peak resident memory (against 64 bytes per file byte + 48 MiB over the idle child) are observed and the parse result is compared "
        "with Model/Embedding.v; cos: pairs of float32 vectors of dimension 0-8 (identical, opposite, zero, mismatched, NaN, Inf, huge, tiny) - both orders, range, zero "
        "cases, bit-exact against the model; stage: a generated database searched without an index, with an attached in-memory index (4-d vectors for half of the "
        "vocabulary, sometimes fewer embeddings than commands), and again after detaching it - candidates, raise-only bounded factor, order, and the model's stage on the "
        "real similarity vector. non-trivial = not a zero-case cosine / a query that embeds; distinct = distinct case content")
TRUSTED = ["float32 query embedding (EmbedQuery) is not modelled: the similarity vector the code computed is an input of the stage model", "peak resident memory is a runtime quantity: the model bounds requested sizes, the child run observes the real thing",
           "PrimFloat = Go float64", "correspondence harness"]
ASSUMPTIONS = []


def coq_case(c):
    k = c["kind"]
    f = core.cbytes(bytes(c.get("file") or []))
    if k == "wv":
        return "KWv %s %s %s %s %s %s" % (f, core.cbool(c["crashed"]), core.cbool(c["err"]), core.cz(c["n_vec"]), core.cz(c["max_rss_kb"]), core.cz(c["base_rss_kb"]))
    if k == "ce":
        return "KCe %s %s %s %s %s %s %s" % (f, core.cbool(c["crashed"]), core.cbool(c["err"]), core.cz(c["n_vec"]), core.cbytes(bytes(c.get("vec0") or [])),
                                            core.cz(c["max_rss_kb"]), core.cz(c["base_rss_kb"]))
    if k == "dbload":
        return 'KPipe "dbload" [] %s %s %s' % (core.cbool(c["crashed"]), core.cz(c["max_rss_kb"]), core.cz(c["base_rss_kb"]))
    if k in ("wvpipe", "cepipe"):
        return 'KPipe "%s" %s %s %s %s' % (k[:2], f, core.cbool(c["crashed"]), core.cz(c["max_rss_kb"]), core.cz(c["base_rss_kb"]))
    if k == "cos":
        return "KCos %s %s %s %s" % (core.clist([core.cfloat(x) for x in (c.get("a") or [])]), core.clist([core.cfloat(x) for x in (c.get("b") or [])]),
                                     core.cfloat(c["ab"]), core.cfloat(c["ba"]))
    sims = "(Some %s)" % core.clist([core.cfloat(x) for x in (c.get("sims") or [])]) if c.get("has_sims") else "None"
    return "KStage %s %s %s %s" % (ec.cres(c.get("without")), ec.cres(c.get("with")), ec.cres(c.get("no_index_again")), sims)


def keep(c):
    return c["kind"] != "skip"


def identity(c):
    return [c["kind"], c.get("file"), c.get("a"), c.get("b"), c.get("db"), c.get("q")]


def sample(c):
    k = c["kind"]
    if k == "dbload":
        return {"kind": k, "setting": bytes(c.get("file") or []).decode(), "crashed": c["crashed"]}
    if k in ("wv", "ce", "wvpipe", "cepipe"):
        return {"kind": k, "file_hex": bytes(c.get("file") or [])[:24].hex(), "file_len": len(c.get("file") or []), "crashed": c["crashed"], "error": c["err"],
                "vectors": c["n_vec"], "peak_rss_kb": c["max_rss_kb"], "idle_rss_kb": c["base_rss_kb"]}
    if k == "cos":
        return {"kind": k, "a": c.get("a"), "b": c.get("b"), "cos_ab": c["ab"], "cos_ba": c["ba"]}
    return {"kind": k, "query": ec.b2s(c.get("q")), "db_size": len(c.get("db") or []), "embedded": c["has_sims"], "without": (c.get("without") or [])[:3], "with": (c.get("with") or [])[:3]}


def finding_key(c, r):
    return None

LEVEL_TEXT = 'Theorems (Props/C19.v) on Model/Embedding.v: both loaders are total on every byte string (vectors or an error, the parsing loops never exhaust their fuel) and request memory proportional to the file (<= 2 bytes per file byte + a constant) whatever the header counts say; cosine similarity is symmetric bit for bit, lies in [-1, 1] for all vectors (NaN and Inf included) and is 0 for empty or mismatched vectors; without an index the semantic stage is the identity, with one it keeps the same commands and an ordered list. Tied to the code on every run: generated files are loaded in a memory-capped child process (exit status, error flag, vector count, first vector, peak resident memory), cosine values are compared bit for bit, and searches with an attached / detached in-memory index are compared with the stage model.'
LEVEL_NOTE = "Partial: real memory use is observed, not proved; 'only raises scores, by a bounded factor' needs float monotonicity and is checked per case; EmbedQuery (float32 averaging) is not modelled. Trusted: Coq kernel; FloatAxioms (mul_spec, ltb/leb_spec, classify_spec, Prim2SF_inj) for the cosine theorems; harness."
TECHNIQUE = "Coq proof (parser totality and allocation bound by induction over the byte string; stage structure) + differential runs incl. a memory-capped child process"
