"""C02: same database, query and options always give the same ranked answer."""
import core, engine_common as ec
ID = "C02"
HARNESS = "c02"
N = {"quick": 300, "thorough": 3000}
SHARD = 40
HEADER = "From WTF Require Import Model.Validate Check.EngineTypes Check.C02."
CASE_TYPE = "case02"
CHECK_FN = "check_cases"
MISMATCH_IS_VIOLATION = False
RULE = ("each case = one database (generated with duplicates / equal-scoring groups; every third case a tie-heavy database of 4-13 identically tokenizing "
        "entries with a limit cutting through the tie; every tenth case the shipped 6,619-entry database), one query, one option record; SearchUniversal is "
        "called 8x on one Database and 3x on an independently loaded copy, GetSuggestions 4x; all answers must be identical in order and score BITS. "
        "non-trivial = the answer is non-empty; distinct = distinct (database, query, options)")
TRUSTED = ["the Go runtime re-randomises map iteration per loop: repetition samples that scheduler, it does not enumerate it", "correspondence harness"]
ASSUMPTIONS = []


def coq_case(c):
    return "{| c_runs := %s; c_sugg := %s; c_kind := \"%s\" |}" % (
        core.clist([ec.cres(r) for r in c.get("runs") or []]), core.clist([ec.cbl(s) for s in c.get("sugg") or []]), c["kind"])


FAMILIES = {"eng": dict(
    HARNESS="eng", N={"quick": 150, "thorough": 2000}, SHARD=25, CASE_TYPE="ecase", CHECK_FN='check_cases "C02"', HEADER=ec.ENG_HEADER,
    coq_case=ec.cecase, preamble=ec.eng_preamble, identity=ec.eng_identity, sample=ec.eng_sample, shrink_candidates=ec.eng_shrink)}


def _ctx_family():
    # what the CLI adds to the options on its own (the context boosts of the working directory) is part of "the same
    # query and options" as a user sees them: the analysis of one directory must give one answer (C13's family, reused)
    import importlib
    f = dict(importlib.import_module("props.c13").FAMILIES["ctx"])
    f["N"] = {"quick": 250, "thorough": 3000}
    return f


FAMILIES["ctx"] = _ctx_family()


def keep(c):
    return not c.get("note_db") and not c.get("note")


def identity(c):
    return [c["db"], c["q"], c["opts"], c["kind"]]


def sample(c):
    return {"kind": c["kind"], "query": ec.b2s(c["q"]), "options": ec.opts_sample(c["opts"]), "db_size": len(c.get("db") or []),
            "db_head": ec.db_sample(c.get("db")), "answer": (c.get("runs") or [[]])[0][:5], "runs": len(c.get("runs") or [])}


def finding_key(c, r):
    return None


def shrink_candidates(c):
    if c["kind"] == "shipped":
        return
    db = c["db"]
    n = len(db)
    if n > 1:
        for lo, hi in ((0, n // 2), (n // 2, n)):
            d = dict(c); d["db"] = db[:lo] + db[hi:]; yield d
    for i in range(n):
        d = dict(c); d["db"] = db[:i] + db[i + 1:]; yield d

LEVEL_TEXT = ("The model of the repaired engine (Model/Engine.v with the TF-IDF ranking computed by Model/Tfidf.v) is a function with no schedule argument; theorems "
              "(Props/C02.v) are the facts that make that sound: sorting the collected keys erases the runtime's map order (score accumulator, vector sums), the TF-IDF vocabulary "
              "depends only on the SET of words, the ranking sort is a permutation and is stable - entries none of which scores above another keep document order, so the survivor of a "
              "limit is fixed - and the TF-IDF ranking names each command once. Tie to the code: every case is answered 8x on one Database and 3x on an independently loaded copy (plus 4x "
              "GetSuggestions), all bit-identical; databases with exact ties and queries sharing 4-7 words with them; the engine + TF-IDF model compared bit for bit on 150 more cases.")
LEVEL_NOTE = "Partial: the Go runtime's map randomisation is sampled by repetition, not enumerated; separate processes are covered by the CLI runs of C17 only. Trusted: Coq kernel; FloatAxioms none; oracles (math.Log tables, tokenizer output, NLP multipliers); harness."
TECHNIQUE = "Coq proof (determinism of the engine model: no schedule argument; stable sort is a function) + differential correspondence"
