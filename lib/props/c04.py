"""C04 (engine family): shared engine cases, property predicate C04 evaluated in Coq on the implementation's outputs,
model Model/Engine.v compared on every run."""
import core, engine_common as ec
ID = "C04"
HARNESS = "eng"
N = {"quick": 400, "thorough": 5000}
SHARD = 25
HEADER = ec.ENG_HEADER
CASE_TYPE = "ecase"
CHECK_FN = 'check_cases "C04"'
MISMATCH_IS_VIOLATION = False
RULE = ec.ENG_RULE + "non-trivial = the main answer is non-empty; distinct = distinct (database, query, options)"
TRUSTED = ["oracles fed to the model from the real code for each case: bm25IDF values (math.Log), the cleaned lower-cased words of the query (the analysis itself is computed by Model/Nlp.v from them and compared) and per-document NLP "
           "multipliers, the TF-IDF tokenizer output and math.Log table (the ranking itself is computed by Model/Tfidf.v and compared), raw sahilm/fuzzy scores", "correspondence harness", "PrimFloat = Go float64 on amd64 (no FMA fusion)"]
ASSUMPTIONS = ["platform tags are ASCII (EqualFold modelled by ASCII folding)"]
coq_case = ec.cecase
preamble = ec.eng_preamble
sample = ec.eng_sample
identity = ec.eng_identity
shrink_candidates = ec.eng_shrink


def keep(c):
    return not c.get("note") and c.get("kind") != "skip"


def finding_key(c, r):
    return None

def _c17():
    import importlib
    return importlib.import_module("props.c17")


def prepare(tier, seed):
    _c17().prepare(tier, seed)       # the CLI family runs the built binary


FAMILIES = {"cli": dict(
    HARNESS="c17", N={"quick": 120, "thorough": 1200}, SHARD=40, CASE_TYPE="case17", CHECK_FN="check_platform_flags_cases",
    HEADER="From WTF Require Import Model.Validate Model.Text Model.Cli Check.C17.",
    coq_case=lambda c: _c17().coq_case(c), identity=lambda c: [c.get("args"), c.get("q")],
    keep=lambda c: c.get("kind") != "skip",
    sample=lambda c: {"family": "cli", "args": [bytes(a).decode("utf-8", "replace") for a in (c.get("args") or [])][:14], "exit": c.get("exit")},
)}


LEVEL_TEXT = 'Theorem c04_filters (Props/C04.v): every result of SearchUniversal - lexical, NLP or typo fallback - is an entry that satisfies the platform rule as the property words it (Spec/Filters.v) and, in pipeline-only searches, is a pipeline command; for every database, query and option record. Model compared bit for bit with the engine on every case; the same rule is evaluated in Coq on the real answers of 8 runs per case (incl. cached).'
LEVEL_NOTE = 'Trusted: Coq kernel; platform tags assumed ASCII (EqualFold modelled by ASCII folding); the alias rules (checkPlatformVariant) and tool list are transcribed / read from the built code and exercised on every case; oracles as for C01.'
TECHNIQUE = "Coq proof over the engine model + differential correspondence (vm_compute, bit-exact scores)"
