"""C15: loading always ends with a usable database, without futile retries."""
import core, engine_common as ec
ID = "C15"
HARNESS = "c15"
N = {"quick": 120, "thorough": 1500}
SHARD = 60
HEADER = "From WTF Require Import Model.Validate Model.Text Model.Retry Check.C15.\nFrom Coq Require Import QArith."
CASE_TYPE = "case15"
CHECK_FN = "check_cases"
MISMATCH_IS_VIOLATION = False
HARNESS_TIMEOUT = 3000
RULE = ("every combination of faults on the main file {good (UTF-8, UTF-8 with BOM, UTF-16 LE / BE), missing, a directory, unreadable (child runs as uid 65534), malformed YAML, empty}, the personal notebook {absent, "
        "good, malformed, a directory, unreadable} and the backup file {absent, good}, with retry configurations MaxAttempts in {-1,0,1,2,3,4}, base delay {0,1,2 ms}, cap "
        "{0,1 ms,3 ms,5 s}, dyadic back-off factors {1,2,4,1.5,0.5}; LoadDatabaseWithFallback runs in a child process under strace: load attempts = openat calls on the main "
        "file, gaps between them from strace time stamps (checked as lower bounds only), the returned database is listed and searched once. non-trivial: every case; "
        "distinct = distinct (faults, configuration)")
TRUSTED = ["file-access outcomes are inputs of the model (kernel / os package classification of errors)", "math.Pow is exact for the dyadic factors used", "time.Sleep sleeps at least the requested time",
           "strace", "correspondence harness"]
ASSUMPTIONS = ["the files do not change between attempts"]
EMB = None


def acc(kind, names):
    if kind in ("utf16le", "utf16be", "utf8bom"):   # the same list of entries in another legal encoding
        kind = "good"
    return {"good": "(AOk %s)" % ec.cbl([list(n.encode()) for n in names]), "empty": "(AOk [])", "blank": "(AOk [])", "comment": "(AOk [])", "emptylist": "(AOk [])", "dup": "(AOk %s)" % ec.cbl([list(n.encode()) for n in ["git status", "my cmd", "my cmd"]]), "missing": "ANotExist", "absent": "ANotExist", "dir": "AOtherRead",
            "unreadable": "APermission", "malformed": "AParse"}[kind]


def coq_case(c):
    cfg = c["cfg"]
    emb = ec.cbl(c.get("embedded") or [])
    return ("{| k_main := %s; k_personal := %s; k_cfg := {| r_attempts := %s; r_base := (%d # 1); r_max := (%d # 1); r_factor := (%d # %d) |}; k_embedded := %s; k_minimal := %s; "
            "k_main_kind := \"%s\"; k_nil := %s; k_err := %s; k_db := %s; k_attempts := %s; k_gaps := %s; k_delays := %s; k_searched := %s |}") % (
        acc(c["main"], ["git status", "ls -la", "df -h"]), acc(c["personal"], ["my cmd"]), core.cz(cfg["max_attempts"]), cfg["base_ns"], cfg["max_ns"],
        cfg["factor_num"], cfg["factor_den"], emb, ec.cbl(c.get("minimal") or []), c["main"], core.cbool(c["nil_db"]), core.cbool(c["err"]), ec.cbl(c.get("first")),
        core.cz(c["attempts"]), core.clist([core.cz(x) for x in (c.get("gaps_ns") or [])]), core.clist([core.cz(x) for x in (c.get("delays") or [])]), core.cbool(c["searched"]))


def preamble(cases):
    return ""


def keep(c):
    return not c.get("child_fail")


def identity(c):
    return [c["main"], c["personal"], c["backup"], c["cfg"]]


def sample(c):
    return {"main": c["main"], "personal": c["personal"], "backup": c["backup"], "config": c["cfg"], "attempts": c["attempts"], "gaps_ns": c.get("gaps_ns"),
            "database": [ec.b2s(x) for x in (c.get("first") or [])][:4], "error": c["err"], "nil": c["nil_db"]}


def finding_key(c, r):
    return None

LEVEL_TEXT = "Theorems (Props/C15.v) on Model/Retry.v, with the outcome of every file access an arbitrary input: loading always ends with a database and no error - the real one (main ++ notebook) whenever the main file loads and the notebook loads or is absent, else the built-in fallback; between 1 and max(1, MaxAttempts) attempts with one wait per retry; a missing or permission-denied file is tried exactly once; waits are capped and, for a factor >= 1, never decrease. Tied to the code by running LoadDatabaseWithFallback in a child process (uid 65534 so that 'unreadable' is real) under strace for every fault x configuration combination: returned database, attempts (openat calls on the main file), computed delays and observed gaps are compared with the model."
LEVEL_NOTE = "Partial: time.Sleep durations are the scheduler's (gaps checked as lower bounds). Trusted: Coq kernel (QArith, no axioms); error classification by os / errors packages enters as the access outcome; strace; harness."
TECHNIQUE = "Coq proof over a retry-loop model with file-access outcomes as inputs + differential runs of the loader in a traced child process"
