"""C10: no input crashes the engine - any database file, any query, any options."""
import core, engine_common as ec
ID = "C10"
HARNESS = "c10"
N = {"quick": 400, "thorough": 6000}
SHARD = 200
HEADER = "From WTF Require Import Model.Validate Model.Text Model.Retry Check.C10."
CASE_TYPE = "case10"
CHECK_FN = "check_cases"
MISMATCH_IS_VIOLATION = False
HARNESS_TIMEOUT = 3000
RULE = ("file content: missing file, empty file, well-formed entry lists with hostile text (NUL bytes, 5000-byte fields, empty fields, invalid UTF-8), valid YAML of other shapes "
        "(mapping, scalars, nested lists, wrongly typed fields, null, anchors/aliases, !!binary), damaged YAML (1-6 byte mutations / truncation of a well-formed file), random "
        "binary; then 6 calls per loaded database over SearchUniversal, Search, SearchWithPipelineOptions, SearchWithOptions, SearchWithFuzzy, SearchWithNLP, GetSuggestions, the "
        "recovery searches and the cached search, with queries incl. NUL, invalid UTF-8, 1000-byte and 1000-rune strings, punctuation, and options with extreme values (limits "
        "+-2^62, 2^31, thresholds and caps +-2^62, boosts NaN/Inf/1e308/negative, 300-byte platform names); every call runs under recover with a 10 s watchdog. "
        "non-trivial = the file loaded and calls were made; distinct = distinct (file, calls)")
TRUSTED = ["yaml.v3, regexp, sort and sahilm/fuzzy are exercised, not proved total", "a 10 s watchdog stands for 'bounded time'", "correspondence harness"]
ASSUMPTIONS = []


def coq_case(c):
    calls = core.clist(['{| l_entry := "%s"; l_panic := %s; l_hang := %s |}' % (k["entry"], core.cbool(bool(k.get("panic"))), core.cbool(k["hang"])) for k in (c.get("calls") or [])])
    load = c["load"] if c["load"] in ("ok", "notfound", "parse", "permission", "other", "hang") else "panic"
    return '{| t_file_kind := "%s"; t_load := "%s"; t_well_formed := %s; t_calls := %s |}' % (c["file_kind"], load, core.cbool(c["well_formed"]), calls)


def identity(c):
    return [c["file"], [(k["entry"], k["q"], k["opts"]) for k in (c.get("calls") or [])]]


def sample(c):
    return {"file_kind": c["file_kind"], "file_head": bytes(c.get("file") or [])[:80].decode("utf-8", "replace"), "load": c["load"], "entries": c["load_n"],
            "calls": [{"entry": k["entry"], "query": repr(bytes(k["q"] or [])[:30]), "limit": k["opts"]["limit"], "panic": k.get("panic"), "hang": k["hang"], "ms": k["ms"]} for k in (c.get("calls") or [])[:4]]}


def finding_key(c, r):
    return None


def shrink_candidates(c):
    calls = c.get("calls") or []
    for i in range(len(calls)):
        d = dict(c); d["calls"] = [calls[i]]; yield d

LEVEL_TEXT = 'Theorems (Props/C10.v): the engine model is a total function of arbitrary byte strings and option values (termination by construction); every document it returns exists in the searched database, on every path; the answer never exceeds the limit in force for any limit value; index postings only name existing documents; the loader classifies missing / undecodable / decoded content as not-found / parse error / loaded. Tied to the code by a crash search on every run: generated files of every kind are loaded and searched through every entry point (SearchUniversal, Search, legacy searches, fuzzy, NLP, suggestions, recovery, cached) with hostile queries and extreme option values, each call under recover and a 10 s watchdog; load outcomes are compared with the classification.'
LEVEL_NOTE = "Partial: yaml.v3, regexp, sort, sahilm/fuzzy are exercised, not proved total; the model's 'no panic' is totality of Gallina functions plus in-range theorems, it does not cover Go-level arithmetic overflow (found by the search: Limit*3). Trusted: Coq kernel; harness watchdog."
TECHNIQUE = "Coq proof (engine model total by construction, every index in range; matcher transcription never runs past the pattern) + differential / crash search through every entry point"
