"""C16: search history — bounded, ordered, faithfully persisted log."""
import core
ID = "C16"
HARNESS = "c16"
N = {"quick": 400, "thorough": 6000}
SHARD = 60
HEADER = "From WTF Require Import Model.Validate Model.History Check.C16."
CASE_TYPE = "case16"
CHECK_FN = "check_cases"
MISMATCH_IS_VIOLATION = True   # the model is the reference log of the property: a disagreement is a counter-example
RULE = ("histories of 3-32 calls (add / save / load / load of a generated file / clear / recent / top / stats) on one SearchHistory with initial "
        "maximum in {-1,0,1,2,3,5,100}; generated files: missing, empty, not JSON, JSON objects whose entries / max_size fields are each absent, null, "
        "well-typed (max_size negative, 0, small, huge; 0-120 entries) or wrongly typed; after every call the return value AND the Entries/MaxSize "
        "fields are compared with Model/History.v; non-trivial = contains an add; distinct = distinct (max, op list)")
TRUSTED = ["encoding/json is an oracle: a file is represented by its decoded structure, produced by the generator together with the text",
           "time.Now: the time stamp of each added entry is read back from the object", "correspondence harness"]
ASSUMPTIONS = ["JSON decode(encode(x)) = x for the values SearchHistory writes (sampled by every save/load pair)"]


def ent(e):
    return "{| h_query := %s; h_time := %s; h_results := %s; h_context := %s; h_duration := %s |}" % (
        core.cbytes(bytes(e["q"] or [])), core.cz(e["t"]), core.cz(e["r"]), core.cbytes(bytes(e["ctx"] or [])), core.cz(e["d"]))


def cfile(f):
    k = f["kind"]
    if k == "missing":
        return "FileMissing"
    if k == "empty":
        return "FileEmpty"
    if k == "garbage":
        return "FileGarbage"
    e = {"absent": "FAbsent", "null": "FNull", "wrong": "FWrong"}.get(f["e"]) or "(FVal %s)" % core.clist([ent(x) for x in (f["entries"] or [])])
    m = {"absent": "FAbsent", "null": "FNull", "wrong": "FWrong"}.get(f["m"]) or "(FVal %s)" % core.cz(f["max"])
    return "(FileDoc %s %s)" % (e, m)


def coq_op(o):
    op = o["op"]
    if op == "add":
        t, out = "HAdd %s" % ent(o["entry"]), "AUnit"
    elif op == "save":
        t, out = "HSave", "AErr %s" % core.cbool(o["failed"])
    elif op == "load":
        t, out = "HLoad", "AErr %s" % core.cbool(o["failed"])
    elif op == "loadfile":
        t, out = "HLoadFile %s" % cfile(o["file"]), "AErr %s" % core.cbool(o["failed"])
    elif op == "clear":
        t, out = "HClear", "AErr %s" % core.cbool(o["failed"])
    elif op == "recent":
        t, out = "HRecent %s" % core.cz(o["limit"]), "ARecent %s" % core.clist([core.cbytes(bytes(q)) for q in (o.get("recent") or [])])
    elif op == "top":
        t, out = "HTop %s" % core.cz(o["limit"]), "ATop %s" % core.clist(
            ["(%s, %s, %s)" % (core.cbytes(bytes(x["q"] or [])), core.cz(x["c"]), core.cz(x["l"])) for x in (o.get("top") or [])])
    elif op == "stats":
        s = o["stats"]
        t, out = "HStats", "AStats %s %s %s %s %s %s" % (core.cz(s["Total"]), core.cz(s["Unique"]), core.cz(s["Oldest"]), core.cz(s["Newest"]),
                                                         core.cfloat(s["AvgR"]), core.cfloat(s["AvgD"]))
    else:
        raise core.InternalError("bad op " + op)
    if o["panic"]:
        return "(%s, {| ob_out := APanic; ob_state := None |})" % t
    st = "(Some (%s, %s))" % (core.clist([ent(x) for x in (o["state"] or [])]), core.cz(o["max_obs"]))
    return "(%s, {| ob_out := %s; ob_state := %s |})" % (t, out, st)


def coq_case(c):
    return "{| c_max := %s; c_ops := %s |}" % (core.cz(c["max"]), core.clist([coq_op(o) for o in c["ops"]]))


def identity(c):
    return [c["max"], [(o["op"], (o.get("entry") or {}).get("q"), o["limit"], (o.get("file") or {}).get("text")) for o in c["ops"]]]


def sample(c):
    out = []
    for o in c["ops"][:10]:
        d = {"op": o["op"]}
        if o.get("entry"):
            d["query"] = bytes(o["entry"]["q"]).decode("utf-8", "replace")
        if o.get("file"):
            d["file"] = bytes(o["file"].get("text") or [])[:120].decode("utf-8", "replace") if o["file"]["kind"] in ("doc", "garbage") else o["file"]["kind"]
        d["panic"] = o["panic"]; d["entries_after"] = len(o.get("state") or []); d["max_after"] = o.get("max_obs")
        out.append(d)
    return {"initial_max": c["max"], "ops": out}


def finding_key(c, r):
    return None


def shrink_candidates(c):
    ops = c["ops"]
    n = len(ops)
    if n > 1:
        for lo, hi in ((0, n // 2), (n // 2, n)):
            d = dict(c); d["ops"] = ops[:lo] + ops[hi:]; yield d
    for i in range(n):
        d = dict(c); d["ops"] = ops[:i] + ops[i + 1:]; yield d

LEVEL_TEXT = ("Theorems (Props/C16.v) over every history of add/save/load/clear and every decoded file content on Model/History.v: the maximum stays positive, "
              "recording never crashes and always records, the log is bounded and chronological, immediate repeats collapse, save/load round-trips, and the "
              "recent/top/statistics views agree with the entries. Tied to internal/history on every run: generated histories (incl. generated files) run on the "
              "real SearchHistory; return values and the Entries/MaxSize fields after every call are compared with the model in Coq.")
LEVEL_NOTE = ("Trusted: Coq kernel + vm_compute; PrimFloat primitives for the two averages (bit-compared). encoding/json and time.Now are oracles "
              "(a file is its decoded structure). No axioms beyond what Print Assumptions lists in the evidence.")
TECHNIQUE = "Coq proof by induction over operation histories + differential correspondence (vm_compute)"
