"""C09: an interrupted or failed write never damages the notebook or the history."""
import json, os, random, re, resource, shutil, subprocess, tempfile
import core
ID = "C09"
HARNESS = None
N = {"quick": 0, "thorough": 0}
SHARD = 20
HEADER = "From WTF Require Import Model.Validate Model.Text Model.FsAtomic Check.C09."
CASE_TYPE = "case09"
CHECK_FN = "check_cases"
MISMATCH_IS_VIOLATION = False
RULE = ("three write paths of the BUILT binary - `wtf save`, `wtf save-pipeline` (notebook) and the history update of `wtf search` - each starting from a populated "
        "file (notebooks of 2 and 40 entries, histories of 1, 60 and 100 = max_size entries). (trace) the system calls on the file's directory are recorded with strace and must be the "
        "temp-file-then-rename program the theorem is about; (fail) the run is repeated with RLIMIT_FSIZE = k so that the kernel writes exactly k bytes and fails the "
        "rest, for k over a grid of the new content's length (quick) or, in the thorough tier, every k for new contents of up to 2 500 bytes and every seventh k for the larger files; (crash) the process is SIGKILLed on entering its n-th write / fsync / rename "
        "call, also combined with a size limit (short write, then death). Afterwards the file must hold the complete previous or the complete new content; `save` must "
        "report success iff the new content is in place; no temporary file may be left by a reported failure. non-trivial: every case injects a fault or checks a trace; "
        "distinct = distinct (path, scenario, fault point)")
TRUSTED = ["kernel semantics (rename(2) replaces atomically; a size limit makes write(2) stop exactly at the limit) are the model's assumptions about the world, exercised by the injections",
           "strace's syscall decoding", "power-loss reordering is out of reach"]
ASSUMPTIONS = ["single writer (no concurrent wtf processes)"]


def lim(k):
    def f():
        resource.setrlimit(resource.RLIMIT_FSIZE, (k, k))
    return f


def ec_cbl(l):
    return core.clist([core.cbytes(bytes(x or [])) for x in (l or [])])


def env_for(home):
    return {"HOME": home, "XDG_CONFIG_HOME": os.path.join(home, ".config"), "PATH": "/usr/bin:/bin", "NO_COLOR": "1"}


def notebook_path(home):
    return os.path.join(home, ".config", "cmd-finder", "personal.yml")


def history_path(home):
    return os.path.join(home, ".config", "wtf", "search_history.json")


def make_home(base, name):
    home = os.path.join(base, name)
    os.makedirs(os.path.join(home, "cwd"), exist_ok=True)
    return home


def read(p):
    try:
        with open(p, "rb") as f:
            return f.read()
    except FileNotFoundError:
        return None


def scenarios(wtf, base):
    """(name, is_save, target path fn, argv, prepare(home))"""
    db = os.path.join(base, "db.yml")
    with open(db, "w") as f:
        f.write('- command: "ls -la"\n  description: "list files"\n  keywords: ["list"]\n  pipeline: false\n- command: "df -h"\n  description: "disk usage"\n  keywords: ["disk"]\n  pipeline: false\n')

    def prep_notebook(n):
        def p(home):
            for i in range(n):
                subprocess.run([wtf, "save", "--", "cmd number %d | x" % i, "description number %d" % i], env=env_for(home), cwd=os.path.join(home, "cwd"), capture_output=True)
        return p

    def prep_history(n):
        def p(home):
            os.makedirs(os.path.dirname(history_path(home)), exist_ok=True)
            ents = [{"query": "older %d" % i, "timestamp": "2024-01-01T00:00:%02dZ" % (i % 60), "results_count": 1} for i in range(n)]
            with open(history_path(home), "w") as f:
                json.dump({"entries": ents, "max_size": 100}, f, indent=2)
        return p
    out = []
    for n in (2, 40):
        out.append(("save/%d" % n, True, notebook_path, ["save", "--", "brand new command", "brand new description\nsecond line"], prep_notebook(n)))
    out.append(("save-pipeline/2", True, notebook_path, ["save-pipeline", "--", "stats", "cat f | sort | uniq -c"], prep_notebook(2)))

    def prep_symlinked(n):
        base_prep = prep_notebook(n)

        def p(home):
            base_prep(home)
            nb = notebook_path(home)
            real = os.path.join(home, "dotfiles-personal.yml")
            os.replace(nb, real)
            os.symlink(real, nb)
        return p
    # the notebook is a symbolic link into a dotfiles directory (stow / chezmoi style)
    out.append(("save-symlink/6", True, notebook_path, ["save", "--", "brand new command", "brand new description"], prep_symlinked(6)))
    for n in (1, 60, 100):   # 100 = a full history: the update also drops the oldest entry
        out.append(("history/%d" % n, False, history_path, ["--database", db, "list files"], prep_history(n)))
    return out


TRACE_RE = re.compile(r'^(?:\[pid\s+\d+\]\s+|\d+\s+)?(\w+)\((.*)$')


def classify(line, target, fds):
    """map one strace line to a tstep name, tracking which fds refer to the target / a temp file beside it"""
    m = TRACE_RE.match(line)
    if not m:
        return None
    sc, rest = m.group(1), m.group(2)
    d = os.path.dirname(target)
    if sc == "openat":
        pm = re.search(r'"([^"]*)"', rest)
        if not pm or not pm.group(1).startswith(d):
            return None
        path = pm.group(1)
        rm = re.search(r'=\s+(-?\d+)', rest)
        fd = int(rm.group(1)) if rm else -1
        wr = "O_WRONLY" in rest or "O_RDWR" in rest
        if path == target:
            if wr:
                fds[fd] = "target"
                return "TOpenTrunc" if "O_TRUNC" in rest else "TOther"
            return None
        if os.path.dirname(path) == d and wr and "O_CREAT" in rest:
            fds[fd] = "tmp"
            # a fresh file of its own (O_EXCL) or at least an emptied one; anything else may hold an earlier writer's bytes
            return "TCreateTmp" if ("O_EXCL" in rest or "O_TRUNC" in rest) else "TOther"
        return None
    if sc in ("write", "pwrite64", "fsync", "fdatasync", "close", "fchmod", "ftruncate"):
        fm = re.match(r'(\d+)', rest)
        if not fm:
            return None
        fd = int(fm.group(1))
        if fd not in fds:
            return None
        kind = fds[fd]
        if sc in ("write", "pwrite64"):
            return "TWriteTmp" if kind == "tmp" else "TWriteTarget"
        if sc in ("fsync", "fdatasync"):
            return "TSync"
        if sc == "close":
            del fds[fd]
            return "TClose"
        return "TOpenTrunc" if sc == "ftruncate" and kind == "target" else "TOther"
    if sc in ("rename", "renameat", "renameat2"):
        return "TRename" if target in rest else None
    if sc in ("unlink", "unlinkat"):
        return "TUnlink" if d in rest else None
    return None


def run_case(wtf, base, sc, kind, k=None, point=None, idx=0):
    name, is_save, tpath, argv, prep = sc
    home = make_home(base, "h%d" % idx)
    try:
        prep(home)
        target = tpath(home)
        old = read(target)
        env = env_for(home)
        cwd = os.path.join(home, "cwd")
        case = {"kind": kind, "name": name, "is_save": is_save, "k": k if k is not None else -1, "point": point or ""}
        if kind == "new":
            p = subprocess.run([wtf] + argv, env=env, cwd=cwd, capture_output=True)
            return read(target)
        if kind == "trace":
            tf = os.path.join(base, "trace%d.txt" % idx)
            subprocess.run(["strace", "-f", "-o", tf, "-e", "trace=openat,write,pwrite64,fsync,fdatasync,close,rename,renameat,renameat2,unlink,unlinkat,fchmod,ftruncate",
                            wtf] + argv, env=env, cwd=cwd, capture_output=True)
            fds, steps = {}, []
            with open(tf, errors="replace") as f:
                for line in f:
                    s = classify(line.strip(), target, fds)
                    if s:
                        steps.append(s)
            os.unlink(tf)
            case["steps"] = steps
            return case
        if kind == "fail":
            p = subprocess.run([wtf] + argv, env=env, cwd=cwd, capture_output=True, preexec_fn=lim(k))
        else:  # crash: kill on entering the n-th call of the given kind; optionally after a short write
            sysc, when = point.split(":")
            cmd = ["strace", "-f", "-o", "/dev/null", "-e", "trace=%s" % sysc, "-e", "inject=%s:signal=SIGKILL:when=%s" % (sysc, when), wtf] + argv
            p = subprocess.run(cmd, env=env, cwd=cwd, capture_output=True, preexec_fn=lim(k) if k is not None else None)
        obs = read(target)
        case.update({"old": list(old) if old is not None else None, "observed": list(obs) if obs is not None else None,
                     "success": b"saved successfully!" in p.stdout, "exit": p.returncode,
                     "tmp_left": any(f != os.path.basename(target) for f in os.listdir(os.path.dirname(target))) if os.path.isdir(os.path.dirname(target)) else False})
        if not is_save:
            ok = False
            try:
                doc = json.loads(obs.decode()) if obs is not None else None
                oldn = len(json.loads(old.decode())["entries"]) if old else 0
                ok = doc is not None and doc["entries"][-1]["query"] == "list files" and len(doc["entries"]) == min(oldn + 1, 100)
            except Exception:
                ok = False
            case["complete_new"] = ok
        return case
    finally:
        shutil.rmtree(home, ignore_errors=True)


def generate(tier, seed):
    wtf = core.build_wtf()
    base = tempfile.mkdtemp(prefix="verif-c09-", dir="/var/tmp")
    rnd = random.Random(seed)
    cases = []
    try:
        idx = 0
        for sc in scenarios(wtf, base):
            idx += 1
            new = run_case(wtf, base, sc, "new", idx=idx)
            is_save = sc[1]
            idx += 1
            cases.append(run_case(wtf, base, sc, "trace", idx=idx))
            n = len(new) if new else 0
            if tier == "thorough" and n > 2500:
                # the large files (40-entry notebook, 60- and 100-entry histories): every seventh byte count and the ends;
                # every count is tried on the small ones, where the same code writes the same way
                ks = sorted(set(range(0, n + 2, 7)) | {0, 1, 2, max(n - 2, 0), max(n - 1, 0), n, n + 1})
            elif tier == "thorough":
                ks = list(range(0, n + 2))
            else:
                ks = sorted(set([0, 1, 2, n // 2, max(n - 2, 0), max(n - 1, 0), n, n + 1] + [rnd.randrange(0, n + 1) for _ in range(10)]))
            for k in ks:
                idx += 1
                c = run_case(wtf, base, sc, "fail", k=k, idx=idx)
                c["new"] = list(new) if (new is not None and is_save) else None
                cases.append(c)
            for pt in ["fsync:1", "rename,renameat,renameat2:1", "write:2"]:
                idx += 1
                cases.append(run_after(wtf, base, sc, pt, idx))
            points = ["write:%d" % i for i in range(1, 5)] + ["fsync:1", "rename,renameat,renameat2:1", "openat:%d" % rnd.randrange(5, 40)]
            for pt in points:
                for kk in ([None] if tier != "thorough" else [None, n // 3]):
                    idx += 1
                    c = run_case(wtf, base, sc, "crash", k=kk, point=pt, idx=idx)
                    c["new"] = list(new) if (new is not None and is_save) else None
                    cases.append(c)
    finally:
        shutil.rmtree(base, ignore_errors=True)
    return cases


def rerun(inputs):
    wtf = core.build_wtf()
    base = tempfile.mkdtemp(prefix="verif-c09-", dir="/var/tmp")
    out = []
    try:
        scs = {s[0]: s for s in scenarios(wtf, base)}
        for i, c in enumerate(inputs):
            sc = scs[c["name"]]
            new = run_case(wtf, base, sc, "new", idx=1000 + 3 * i)
            if c["kind"] == "after":
                out.append(run_after(wtf, base, sc, c["point"], 1001 + 3 * i))
                continue
            r = run_case(wtf, base, sc, c["kind"], k=(c["k"] if c.get("k", -1) >= 0 else None), point=c.get("point") or None, idx=1001 + 3 * i)
            if c["kind"] != "trace":
                r["new"] = list(new) if (new is not None and sc[1]) else None
            out.append(r)
    finally:
        shutil.rmtree(base, ignore_errors=True)
    return out


def ob(x):
    return "None" if x is None else "(Some %s)" % core.cbytes(bytes(x))


def project(is_save, content):
    """what is compared after a completed save: the notebook's bytes; the history's queries (time stamps differ between runs)"""
    if content is None:
        return []
    if is_save:
        return [list(content)]
    try:
        return [list(e["query"].encode()) for e in json.loads(content.decode())["entries"]]
    except Exception:
        return [list(b"<unparseable>")]


def run_after(wtf, base, sc, point, idx):
    """kill a LONG write at `point` (temp file written, not yet renamed), then run a SHORT write to completion in the same
    home; compare the target with the same short write run in a clean home that holds the same target content."""
    name, is_save, tpath, argv, prep = sc
    if is_save:
        long_argv = ["save", "--", "cmd number 0 | x", "a very long description " * 60]
        short_argv = ["save", "--", "cmd number 0 | x", "short"]
    else:
        long_argv = argv[:-1] + ["list files " + "with a very long query " * 30]
        short_argv = argv[:-1] + ["ls"]
    home = make_home(base, "h%d" % idx)
    home2 = make_home(base, "h%dc" % idx)
    try:
        prep(home)
        target = tpath(home)
        sysc, when = point.split(":")
        subprocess.run(["strace", "-f", "-o", "/dev/null", "-e", "trace=%s" % sysc, "-e", "inject=%s:signal=SIGKILL:when=%s" % (sysc, when), wtf] + long_argv,
                       env=env_for(home), cwd=os.path.join(home, "cwd"), capture_output=True)
        mid = read(target)
        p = subprocess.run([wtf] + short_argv, env=env_for(home), cwd=os.path.join(home, "cwd"), capture_output=True)
        got = read(target)
        target2 = tpath(home2)
        os.makedirs(os.path.dirname(target2), exist_ok=True)
        if mid is not None:
            with open(target2, "wb") as f:
                f.write(mid)
        subprocess.run([wtf] + short_argv, env=env_for(home2), cwd=os.path.join(home2, "cwd"), capture_output=True)
        want = read(target2)
        return {"kind": "after", "name": name, "is_save": is_save, "point": point, "k": -1, "got": project(is_save, got), "want": project(is_save, want),
                "ok": p.returncode == 0 and (not is_save or b"saved successfully!" in p.stdout)}
    finally:
        shutil.rmtree(home, ignore_errors=True)
        shutil.rmtree(home2, ignore_errors=True)


def coq_case(c):
    if c["kind"] == "after":
        return 'KAfter "%s" "%s" %s %s %s' % (c["name"], c["point"], ec_cbl(c["got"]), ec_cbl(c["want"]), core.cbool(c["ok"]))
    if c["kind"] == "trace":
        return 'KTrace "%s" %s' % (c["name"], core.clist(c["steps"]))
    if c["kind"] == "fail":
        return 'KFail "%s" %s %s %s %s %s %s %s %s' % (c["name"], core.cbool(c["is_save"]), core.cz(c["k"]), ob(c["old"]), ob(c.get("new")), ob(c["observed"]),
                                                        core.cbool(c["success"]), core.cbool(c.get("complete_new", False)), core.cbool(c["tmp_left"]))
    return 'KCrash "%s" "%s" %s %s %s %s' % (c["name"], c["point"], ob(c["old"]), ob(c.get("new")), ob(c["observed"]), core.cbool(c.get("complete_new", False)))


def identity(c):
    return [c["kind"], c["name"], c.get("k"), c.get("point")]


def sample(c):
    d = {"kind": c["kind"], "path": c["name"]}
    if c["kind"] == "trace":
        d["program"] = c["steps"]
    elif c["kind"] == "after":
        d.update({"kill_point_of_the_long_write": c["point"], "then": "a shorter write completes", "target_as_expected": c["got"] == c["want"], "reported_ok": c["ok"]})
    else:
        d.update({"stop_after_bytes": c.get("k"), "kill_point": c.get("point"), "old_len": len(c["old"] or []), "observed_len": len(c["observed"] or []) if c["observed"] is not None else None,
                  "reported_success": c.get("success"), "exit": c.get("exit")})
    return d


def finding_key(c, r):
    return None

LEVEL_TEXT = 'Theorems (Props/C09.v) on a file-system step model: for the temp-file-then-rename program, for EVERY crash point and EVERY failing call at every byte prefix of the write, the target holds the complete previous or the complete new content; completion means new content, failure means previous content, no temp file and a reported failure; everything decodable before stays decodable; the truncate-in-place program is refuted. Tied to the code on every run: strace records the system calls of `wtf save`, `save-pipeline` and the history update and they must be that program; the same commands are re-run with the kernel stopping the write after k bytes (RLIMIT_FSIZE) and with SIGKILL on entering the n-th write / fsync / rename / openat, and the file, the exit report and left-over files are compared with the model.'
LEVEL_NOTE = 'Partial: kernel semantics are assumptions of the model (validated only by the injections); power-loss reordering is out of reach. Trusted: Coq kernel; strace; harness.'
TECHNIQUE = "Coq proof over a file-system step model (every crash point, every failing byte) + strace-derived program check + write-fault and kill injection on the built binary"
