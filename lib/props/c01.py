"""C01 (engine family): shared engine cases, property predicate C01 evaluated in Coq on the implementation's outputs,
model Model/Engine.v compared on every run."""
import core, engine_common as ec
ID = "C01"
HARNESS = "eng"
N = {"quick": 400, "thorough": 5000}
SHARD = 25
HEADER = ec.ENG_HEADER
CASE_TYPE = "ecase"
CHECK_FN = 'check_cases "C01"'
MISMATCH_IS_VIOLATION = False
RULE = ec.ENG_RULE + "non-trivial = the main answer is non-empty; distinct = distinct (database, query, options)"
TRUSTED = ["oracles fed to the model from the real code for each case: bm25IDF values (math.Log), the cleaned lower-cased words of the query (the analysis itself is computed by Model/Nlp.v from them and compared) and per-document NLP "
           "multipliers, the TF-IDF tokenizer output and math.Log table (the ranking itself is computed by Model/Tfidf.v and compared), raw sahilm/fuzzy scores", "correspondence harness", "PrimFloat = Go float64 on amd64 (no FMA fusion)"]
ASSUMPTIONS = ["platform tags are ASCII (EqualFold modelled by ASCII folding)"]
coq_case = ec.cecase
preamble = ec.eng_preamble
sample = ec.eng_sample
identity = ec.eng_identity
shrink_candidates = ec.eng_shrink


def rec_case(c):
    ents = core.clist(["{| re_cmd_lc := %s; re_desc_lc := %s |}" % (core.cbytes(bytes(e["cmd_lc"] or [])), core.cbytes(bytes(e["desc_lc"] or []))) for e in (c.get("entries") or [])])
    return "{| y_db := %s; y_qlc := %s; y_err := %s; y_panic := %s; y_res := %s; y_res_recased := %s |}" % (
        ents, core.cbytes(bytes(c.get("q_lc") or [])), core.cbool(c.get("err", False)), core.cbool(bool(c.get("panic"))), ec.cres(c.get("res")), ec.cres(c.get("res_recased")))


FAMILIES = {"rec": dict(
    HARNESS="c01rec", N={"quick": 300, "thorough": 4000}, SHARD=50, CASE_TYPE="reccase", CHECK_FN="check_cases",
    HEADER="From Coq Require Import List String ZArith NArith Bool Floats.\nFrom WTF Require Import Model.Validate Model.Text Model.Engine Model.Recovery Check.Render Check.EngineTypes Check.C01Rec.\nImport ListNotations.\n",
    coq_case=rec_case,
    identity=lambda c: [c["db"], c["q"]],
    sample=lambda c: {"family": "recovery", "query": bytes(c["q"] or []).decode("utf-8", "replace"), "database_size": len(c.get("db") or []),
                      "results": [(r["doc"], r["score"]) for r in (c.get("res") or [])[:5]], "error": c.get("err")},
    shrink_candidates=lambda c: [dict(c, db=c["db"][:i] + c["db"][i + 1:]) for i in range(len(c["db"]))][:40] if len(c.get("db") or []) > 1 else [],
)}


def keep(c):
    return not c.get("note")


def finding_key(c, r):
    return None

LEVEL_TEXT = "Theorems (Props/C01.v): the pipeline search behind wtf pipeline (Model/Legacy.v: filter, boost, score gate, stable sort, default limit, cut - for ANY per-command scorer) returns at most the limit in force, no entry twice, only entries with a positive score, pipelines only when asked, in non-increasing order; the recovery search (Model/Recovery.v, three substring strategies) returns no entry twice, only entries of the database, one finite non-negative score; and for every database, query, option record, idf function, fuzzy-matcher outcome and NLP analysis on Model/Engine.v: the answer of SearchUniversal has no entry twice, at most the limit in force (default 10), only entries of the database that pass the filters; the index/NLP path is ordered by non-increasing score (binary64 comparison), the typo fallback by raw match quality. The model is compared bit for bit with the real engine on every generated case (7 runs per case), and the property's predicate (limit, membership, duplicates, finite non-negative scores, order) is evaluated in Coq on the real answers of SearchUniversal, the cached layer, the legacy pipeline search and Search."
LEVEL_NOTE = "Trusted: Coq kernel + vm_compute; FloatAxioms (ltb_spec etc., standard library) for the ordering theorem; oracles from the real code per case (math.Log tables, NLP analysis and multipliers, TF-IDF tokenizer output, raw fuzzy scores). 'finite, non-negative' is checked per case on model and code, not proved (no float range laws); the pipeline search is compared with Model/Legacy.v on every case, its per-command scorer (calculateScore, a table of word heuristics) entering as an oracle through a hook; Unicode lower-casing of the query is an oracle of the recovery model."
TECHNIQUE = "Coq proof over the engine model + differential correspondence (vm_compute, bit-exact scores)"
