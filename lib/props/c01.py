"""C01 (engine family): shared engine cases, property predicate C01 evaluated in Coq on the implementation's outputs,
model Model/Engine.v compared on every run."""
import core, engine_common as ec
ID = "C01"
HARNESS = "eng"
N = {"quick": 400, "thorough": 5000}
SHARD = 25
HEADER = ec.ENG_HEADER
CASE_TYPE = "ecase"
CHECK_FN = 'check_cases "C01"'
MISMATCH_IS_VIOLATION = False
RULE = ec.ENG_RULE + "non-trivial = the main answer is non-empty; distinct = distinct (database, query, options)"
TRUSTED = ["oracles fed to the model from the real code for each case: bm25IDF values (math.Log), the NLP analysis of the query and per-document NLP "
           "multipliers, the TF-IDF ranking, raw sahilm/fuzzy scores", "correspondence harness", "PrimFloat = Go float64 on amd64 (no FMA fusion)"]
ASSUMPTIONS = ["platform tags are ASCII (EqualFold modelled by ASCII folding)"]
coq_case = ec.cecase
preamble = ec.eng_preamble
sample = ec.eng_sample
identity = ec.eng_identity
shrink_candidates = ec.eng_shrink


def keep(c):
    return not c.get("note")


def finding_key(c, r):
    return None

LEVEL_TEXT = "Theorems (Props/C01.v) for every database, query, option record, idf function, fuzzy-matcher outcome and NLP analysis on Model/Engine.v: the answer of SearchUniversal has no entry twice, at most the limit in force (default 10), only entries of the database that pass the filters; the index/NLP path is ordered by non-increasing score (binary64 comparison), the typo fallback by raw match quality. The model is compared bit for bit with the real engine on every generated case (7 runs per case), and the property's predicate (limit, membership, duplicates, finite non-negative scores, order) is evaluated in Coq on the real answers of SearchUniversal, the cached layer, the legacy pipeline search and Search."
LEVEL_NOTE = "Trusted: Coq kernel + vm_compute; FloatAxioms (ltb_spec etc., standard library) for the ordering theorem; oracles from the real code per case (math.Log idf, NLP multipliers, TF-IDF ranking, raw fuzzy scores). 'finite, non-negative' is checked per case on model and code, not proved (no float range laws); the legacy pipeline search and the CLI recovery search are covered by the predicate only (the latter in C17)."
TECHNIQUE = "Coq proof over the engine model + differential correspondence (vm_compute, bit-exact scores)"
