"""C18: metrics identity and accounting."""
import core
ID = "C18"
HARNESS = "c18"
N = {"quick": 300, "thorough": 4000}
SHARD = 40
HEADER = "From WTF Require Import Model.Validate Model.Metrics Check.C18."
CASE_TYPE = "case18"
CHECK_FN = "check_cases"
MISMATCH_IS_VIOLATION = False
RULE = ("four kinds of case: (id) 2-9 identities (names/tags from an alphabet containing ':' '=' quotes and empty strings, 0-4 tags, planted collision "
        "candidates) each looked up 40x with freshly built tag maps, pointer identity classes compared with identity equality; (count) 20-220 Inc/Add "
        "calls over such identities, sequentially or from 8 goroutines, final values compared with the exact counts; (hist) default or generated buckets, "
        "0-60 observations incl. bucket bounds, count / bit-exact sum / per-bucket counts / 12 percentiles compared; (mon) 5-125 RecordSearchOperation / "
        "RecordDatabaseOperation calls, sequentially or from 8 goroutines, per-name totals and series counts. non-trivial = at least one event and, for "
        "identity cases, an identity with >= 2 tags; distinct = distinct case content")
TRUSTED = ["strconv.Quote is prefix-free and injective (hypothesis of key_string_injective; exercised by the identity cases)",
           "PrimFloat primitives = IEEE binary64 as Go's float64 on amd64 (sum compared bit for bit)", "correspondence harness"]
ASSUMPTIONS = ["concurrent cases rest on C11's lock discipline; here only their totals are compared"]


def tags(ts):
    return core.clist(["(%s, %s)" % (core.cbytes(bytes(t["k"] or [])), core.cbytes(bytes(t["v"] or []))) for t in (ts or [])])


def coq_case(c):
    k = c["kind"]
    if k == "id":
        return "KId %s" % core.clist(["(%s, %s, %s)" % (core.cbytes(bytes(l["name"] or [])), tags(l["tags"]), core.cn(l["class"])) for l in c["lookups"]])
    if k == "count":
        ops = []
        for l in c["lookups"]:
            n, t = core.cbytes(bytes(l["name"] or [])), tags(l["tags"])
            ops.append("CInc %s %s" % (n, t) if l["amt"] == 0 else "CAdd %s %s %s" % (n, t, core.cz(l["amt"])))
        obs = ["(%s, %s, %s)" % (core.cbytes(bytes(l["name"] or [])), tags(l["tags"]), core.cz(l["val"])) for l in c["finals"]]
        return "KCount %s %s" % (core.clist(ops), core.clist(obs))
    if k == "hist":
        ecs = c.get("exp_cs") or ["", ""]
        return "KHist %s %s %s %s %s %s %s %s %s" % (
            core.clist([core.cfloat(b) for b in c["buckets"]]), core.clist([core.cfloat(v) for v in (c.get("vals") or [])]),
            core.cz(c["count"]), core.cfloat(c["sum"]), core.clist([core.cz(x) for x in c["counts"]]),
            core.clist(["(%s, %s)" % (core.cfloat(p), core.cfloat(v)) for p, v in c["pcts"]]),
            core.clist(["(%s, %s)" % (core.cfloat(p), core.cfloat(v)) for p, v in (c.get("exp") or [])]),
            "(Some %s)" % core.cfloat(ecs[0]) if ecs[0] else "None", "(Some %s)" % core.cfloat(ecs[1]) if ecs[1] else "None")
    ops = []
    for o in c["mops"]:
        if o["search"]:
            ops.append("MSearch %s" % core.cbool(o["hit"]))
        else:
            ops.append("MDb %s %s %s" % (core.cbytes(bytes(o["op"] or [])), core.cbool(o["ok"]), core.cbool(len(ops) % 2 == 0)))
    tot = ["(%s, %s)" % (core.cbytes(bytes(t["name"] or [])), core.cz(t["total"])) for t in (c.get("totals") or [])]
    ser = ["(%s, %s)" % (core.cbytes(bytes(t["name"] or [])), core.cz(t["series"])) for t in (c.get("totals") or [])]
    return "KMon %s %s %s" % (core.clist(ops), core.clist(tot), core.clist(ser))


def identity(c):
    d = dict(c); d.pop("id", None); return d


def sample(c):
    k = c["kind"]
    if k == "id":
        return {"kind": k, "lookups": [{"name": bytes(l["name"] or []).decode(), "tags": {bytes(t["k"] or []).decode(): bytes(t["v"] or []).decode() for t in l["tags"]},
                                        "pointer_class": l["class"]} for l in c["lookups"][:8]]}
    if k == "count":
        return {"kind": k, "concurrent": c["conc"], "n_ops": len(c["lookups"]), "finals": [l["val"] for l in c["finals"]]}
    if k == "hist":
        return {"kind": k, "n_obs": len(c.get("vals") or []), "count": c["count"], "sum": c["sum"], "counts": c["counts"], "pcts": c["pcts"][:4]}
    return {"kind": k, "concurrent": c["conc"], "n_ops": len(c["mops"]), "totals": [(bytes(t["name"]).decode(), t["total"], t["series"]) for t in c["totals"]]}


def finding_key(c, r):
    return None

LEVEL_TEXT = ("Theorems (Props/C18.v) on Model/Metrics.v: the series identity does not depend on the order the tag map is iterated in, and the key string "
              "built from it is injective for any prefix-free quoting; a counter's value is exactly the sum of the increments applied to its identity, for "
              "every sequence and every permutation (interleaving) of operations; a histogram's count, bucket totals and percentile index are exact and "
              "monotone; the monitor's totals equal the number of recorded operations. Tied to internal/metrics on every run (pointer identity, totals, "
              "bit-exact sums and percentiles against the real Collector / Histogram / PerformanceMonitor, sequentially and from 8 goroutines).")
LEVEL_NOTE = ("Trusted: Coq kernel + vm_compute; PrimFloat primitives (histogram sum, percentile target); strconv.Quote prefix-free (hypothesis); "
              "goroutine interleavings are sampled - the theorem covers every permutation of atomic increments, mutual exclusion itself is C11.")
TECHNIQUE = "Coq proof (induction over operation sequences, permutation invariance) + differential correspondence (vm_compute)"
