"""C12: bounded LRU with staleness limit — histories against internal/cache.LRUCache."""
import core
ID = "C12"
HARNESS = "c12"
N = {"quick": 400, "thorough": 6000}
HEADER = "From WTF Require Import Model.Lru Check.C12."
CASE_TYPE = "case12"
CHECK_FN = "check_cases"
MISMATCH_IS_VIOLATION = True   # P is equality with the refined spec: a mismatch is a counter-example
RULE = ("histories of 5-60 LRUCache calls (put/get/delete/clear/size/capacity/stats/keys/cleanup) over 3-7 keys, "
        "capacities {-3,0,1,2,3,5,100}, lifetimes {0, 1h, 1ns, 20ms with 30ms sleeps}; every return value is compared with "
        "Model/Lru.v step by step; non-trivial = contains at least one Put and one hit Get; distinct = distinct (cap, ttl, op list). conc family: 2-12 goroutines x "
        "100-300 thousand lookups of stored and never-stored keys on one cache (nothing inserted or removed meanwhile): hit / miss / eviction / size totals must equal the number of lookups issued")
TRUSTED = ["correspondence harness (Go generator, JSON->Coq emitter, verdict parser)",
           "time.Now monotone; a history is discarded when any age-vs-lifetime comparison lies within the measured call-duration uncertainty"]
ASSUMPTIONS = ["monotone clock", "histories are sequential (interleavings are C11); the statistics clause is additionally sampled under concurrent lookups"]


def keep(c):
    return c.get("note") != "undecidable-timing"


def coq_op(o):
    k = core.cn(o["k"])
    op = o["op"]
    if op == "get":
        t, obs = "Get %s" % k, "OGet %s" % ("(Some %s)" % core.cn(o["ret"]) if o["found"] else "None")
    elif op == "put":
        t, obs = "Put %s %s" % (k, core.cn(o["v"])), "OUnit"
    elif op == "delete":
        t, obs = "Delete %s" % k, "OBool %s" % core.cbool(o["b"])
    elif op == "clear":
        t, obs = "Clear", "OUnit"
    elif op == "size":
        t, obs = "Size", "OInt %s" % core.cz(o["ret"])
    elif op == "capacity":
        t, obs = "Capacity", "OInt %s" % core.cz(o["ret"])
    elif op == "stats":
        s = o["stats"]
        t, obs = "Stats", "OStats %s %s %s %s %s" % (core.cn(s[0]), core.cn(s[1]), core.cn(s[2]), core.cz(s[3]), core.cz(s[4]))
    elif op == "keys":
        t, obs = "Keys", "OKeys %s" % core.clist([core.cn(x) for x in (o["keys"] or [])])
    elif op == "cleanup":
        t, obs = "Cleanup", "OInt %s" % core.cz(o["ret"])
    else:
        raise core.InternalError("bad op " + op)
    return "(%s, %s, %s)" % (core.cz(o["now"]), t, obs)


def coq_case(c):
    return "{| c_cap := %s; c_ttl := %s; c_ops := %s |}" % (
        core.cz(c["cap"]), core.cz(c["ttl"]), core.clist([coq_op(o) for o in c["ops"]]))


FAMILIES = {"conc": dict(
    HARNESS="c12conc", N={"quick": 6, "thorough": 60}, SHARD=60, CASE_TYPE="conccase", CHECK_FN="check_cases",
    HEADER="From Coq Require Import List String ZArith Bool.\nFrom WTF Require Import Check.Render Check.C12Conc.\nImport ListNotations.\n",
    coq_case=lambda c: "{| q_want_hits := %s; q_want_misses := %s; q_hits := %s; q_misses := %s; q_evictions := %s; q_size := %s; q_wrong := %s |}" % tuple(
        core.cz(c[k]) for k in ("want_hits", "want_misses", "hits", "misses", "evictions", "size", "wrong_value")),
    identity=lambda c: [c["goroutines"], c["per"], c["id"]],
    sample=lambda c: {"family": "conc", "goroutines": c["goroutines"], "lookups_each": c["per"], "hits": c["hits"], "misses": c["misses"]},
)}


def identity(c):
    return [c["cap"], c["ttl"], [(o["op"], o["k"]) for o in c["ops"]]]


def sample(c):
    return {"cap": c["cap"], "ttl_ns": c["ttl"],
            "ops": [{"op": o["op"], "k": o["k"], "at_ns": o["now"],
                     "observed": (o["ret"] if o["found"] else None) if o["op"] == "get" else
                     o["b"] if o["op"] == "delete" else o["stats"] if o["op"] == "stats" else
                     o["keys"] if o["op"] == "keys" else o["ret"]} for o in c["ops"][:12]]}


def shrink_candidates(c):
    ops = c["ops"]
    n = len(ops)
    # drop halves, then single ops
    if n > 1:
        for lo, hi in ((0, n // 2), (n // 2, n)):
            d = dict(c); d["ops"] = ops[:lo] + ops[hi:]; yield d
    for i in range(n):
        d = dict(c); d["ops"] = ops[:i] + ops[i + 1:]; yield d

LEVEL_TEXT = ("Nine theorems (Props/C12.v; the two added ones: a sweep never takes an entry stored inside its lifetime, a lookup that misses leaves the key absent) over EVERY history of put/get/delete/clear/size/stats/keys/cleanup calls with non-decreasing time stamps, "
              "every capacity and lifetime, on the executable model Model/Lru.v: capacity bound and one entry per key; eviction of exactly the least "
              "recently touched entry; ghost fields follow the history; a hit returns the last stored value; never a value older than the lifetime; "
              "sweeps remove only expired entries; statistics are exact. The model is tied to internal/cache/lru_cache.go on every run: generated "
              "histories run on the real LRUCache and Coq re-evaluates the model on them (vm_compute), every return value compared.")
LEVEL_NOTE = ("Trusted: Coq kernel + vm_compute; no axioms (Print Assumptions: closed). The model is hand-written; the tie is differential "
              "(sampled histories), not a proof about the Go binary. time.Now assumed monotone; sequential use only (concurrency is C11).")
TECHNIQUE = "Coq proof by invariant induction over operation histories + differential correspondence (vm_compute)"
