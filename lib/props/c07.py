"""C07 (engine family): shared engine cases, property predicate C07 evaluated in Coq on the implementation's outputs,
model Model/Engine.v compared on every run."""
import core, engine_common as ec
ID = "C07"
HARNESS = "eng"
N = {"quick": 400, "thorough": 5000}
SHARD = 25
HEADER = ec.ENG_HEADER
CASE_TYPE = "ecase"
CHECK_FN = 'check_cases "C07"'
MISMATCH_IS_VIOLATION = False
RULE = ec.ENG_RULE + "non-trivial = the main answer is non-empty; distinct = distinct (database, query, options)"
TRUSTED = ["oracles fed to the model from the real code for each case: bm25IDF values (math.Log), the cleaned lower-cased words of the query (the analysis itself is computed by Model/Nlp.v from them and compared) and per-document NLP "
           "multipliers, the TF-IDF tokenizer output and math.Log table (the ranking itself is computed by Model/Tfidf.v and compared), raw sahilm/fuzzy scores", "correspondence harness", "PrimFloat = Go float64 on amd64 (no FMA fusion)"]
ASSUMPTIONS = ["platform tags are ASCII (EqualFold modelled by ASCII folding)"]
coq_case = ec.cecase
preamble = ec.eng_preamble
sample = ec.eng_sample
identity = ec.eng_identity
shrink_candidates = ec.eng_shrink


def keep(c):
    return not c.get("note")


def finding_key(c, r):
    return None

LEVEL_TEXT = "Theorems (Props/C07.v): enabling typo tolerance never changes a non-empty answer; every fallback result is an eligible entry the matcher accepted with quality >= the requested threshold, best first, at most the limit, no duplicates; with no threshold an eligible accepted entry is never left without a result. Tied by the engine correspondence (fuzzy on/off pairs); 'the query's characters occur in order' is evaluated in Coq on every real fallback answer."
LEVEL_NOTE = 'Partial: sahilm/fuzzy is transcribed for ASCII text only (Model/Fuzzy.v: proved never to panic and to report only genuine in-order matches on NUL-free text; compared with the raw scores of the library on every case); for non-ASCII text the scores of the library stay an oracle and the subsequence property is checked per case. Completeness of the matcher (never empty) is checked per case, not proved. Trusted: Coq kernel; harness.'
TECHNIQUE = "Coq proof over the engine model + differential correspondence (vm_compute, bit-exact scores)"
