"""C20 (engine family): shared engine cases, property predicate C20 evaluated in Coq on the implementation's outputs,
model Model/Engine.v compared on every run."""
import core, engine_common as ec
ID = "C20"
HARNESS = "eng"
N = {"quick": 400, "thorough": 5000}
SHARD = 25
HEADER = ec.ENG_HEADER
CASE_TYPE = "ecase"
CHECK_FN = 'check_cases "C20"'
MISMATCH_IS_VIOLATION = False
RULE = ec.ENG_RULE + "non-trivial = the main answer is non-empty; distinct = distinct (database, query, options)"
TRUSTED = ["oracles fed to the model from the real code for each case: bm25IDF values (math.Log), the cleaned lower-cased words of the query (the analysis itself is computed by Model/Nlp.v from them and compared) and per-document NLP "
           "multipliers, the TF-IDF tokenizer output and math.Log table (the ranking itself is computed by Model/Tfidf.v and compared), raw sahilm/fuzzy scores", "correspondence harness", "PrimFloat = Go float64 on amd64 (no FMA fusion)"]
ASSUMPTIONS = ["platform tags are ASCII (EqualFold modelled by ASCII folding)"]
coq_case = ec.cecase
preamble = ec.eng_preamble
sample = ec.eng_sample
identity = ec.eng_identity
shrink_candidates = ec.eng_shrink


def keep(c):
    return not c.get("note")


def finding_key(c, r):
    return None

def _c14():
    import importlib
    return importlib.import_module("props.c14")


def ws_case(c):
    r = _c14().res
    return "{| w_q := %s; w_v := %s; w_res_q := %s; w_res_v := %s |}" % (core.cbytes(bytes(c["q"] or [])), core.cbytes(bytes(c["v"] or [])), r(c["res_q"]), r(c["res_v"]))


def _c01():
    import importlib
    return importlib.import_module("props.c01")


FAMILIES = {"rec": dict(
    HARNESS="c01rec", N={"quick": 200, "thorough": 3000}, SHARD=50, CASE_TYPE="reccase", CHECK_FN="check_recased_cases",
    HEADER="From Coq Require Import List String ZArith NArith Bool Floats.\nFrom WTF Require Import Model.Validate Model.Text Model.Engine Model.Recovery Check.Render Check.EngineTypes Check.C01Rec.\nImport ListNotations.\n",
    coq_case=lambda c: _c01().rec_case(c), identity=lambda c: [c["db"], c["q"], c.get("recased")],
    sample=lambda c: {"family": "recovery", "query": bytes(c["q"] or []).decode("utf-8", "replace"), "respelled": bytes(c.get("recased") or []).decode("utf-8", "replace"),
                      "results": len(c.get("res") or []), "results_respelled": len(c.get("res_recased") or [])},
), "ws": dict(
    HARNESS="c20ws", N={"quick": 400, "thorough": 6000}, SHARD=100, CASE_TYPE="wscase", CHECK_FN="check_cases",
    HEADER="From WTF Require Import Model.Validate Model.Text Check.Render Check.C14 Check.C20Ws.",
    coq_case=ws_case, identity=lambda c: [c["q"], c["v"]],
    sample=lambda c: {"family": "whitespace", "query": bytes(c["q"] or []).decode("utf-8", "replace"), "respelled": bytes(c["v"] or []).decode("utf-8", "replace"),
                      "validated": bytes(c["res_q"].get("out") or []).decode("utf-8", "replace"), "validated_respelled": bytes(c["res_v"].get("out") or []).decode("utf-8", "replace")},
)}


LEVEL_TEXT = 'Theorems (Props/C20.v): the tokenizer ignores ASCII letter case; the pipeline search sees a query only as the word list Fields(ToLower(query)) (Model/Legacy.v), which ignores letter case, padding and the length and kind of every run of blanks; two queries with the same lower-casing get the same answer from the index/NLP pipeline; the whitespace normal form of the CLI (the norm function of the validator) ignores leading, trailing and repeated whitespace. Tied by the engine correspondence, where every case is also run with a randomly re-cased query and must give the bit-identical answer (all paths incl. typo fallback and NLP; queries built from the phrases the current NLP source tests for), and by 400 query / re-spelling pairs (other case, other Unicode whitespace runs) through ValidateQuery, which must hand the engine the same text up to letter case.'
LEVEL_NOTE = 'Partial: Unicode lower-casing and regexp cleaning of the query (the inputs of the NLP model), the TF-IDF tokenizer (Unicode classes) and, for non-ASCII or very long patterns, the fuzzy matcher are oracles computed from the query by un-modelled code; their case-invariance is compared per case, not proved. CLI whitespace normal form: C14. Trusted: Coq kernel; harness.'
TECHNIQUE = "Coq proof over the engine model + differential correspondence (vm_compute, bit-exact scores)"
