"""C03: the inverted index answers exactly like an exhaustive scan; it never lags behind the commands."""
import core, engine_common as ec
ID = "C03"
HARNESS = "c03"
N = {"quick": 300, "thorough": 4000}
SHARD = 25
HEADER = ec.ENG_HEADER.replace("Check.Eng.", "Check.Eng Model.Index Check.C03.")
CASE_TYPE = "case03"
CHECK_FN = "check_cases"
MISMATCH_IS_VIOLATION = False
RULE = ("three kinds of case. bigindex (2 per 300 cases): a database of 1025-1039 tiny entries, the query naming one of the last entries - index dump and one scan-equals-index search only. index: an engine case (generated database / query / options, NLP off); the real inverted index is dumped (postings with per-field "
        "term frequencies, document frequencies, field lengths, average lengths bit for bit) and compared with Model/Index.v's, and the real answer at a limit "
        "above the database size must equal the exhaustive-scan answer (Model/Engine.v) bit for bit. history: 2-6 steps of LoadDatabaseWithPersonal / "
        "CachedDatabase.UpdateDatabase / direct growth of Commands, each followed by a search (NLP on in 2/3 of the steps) whose answer must equal the answer of a "
        "database freshly built from the same commands; the commands held are compared with main ++ notebook / the replacement / the grown list. "
        "non-trivial = a non-empty answer; distinct = distinct case content")
TRUSTED = ["math.Log (idf) oracle table per case", "VerifFresh (hook) builds the reference database for the history cases", "correspondence harness"]
ASSUMPTIONS = ["direct replacement of Commands by a list of the same length without UpdateDatabase is not in the property's quantifier (undetectable by the size check)"]
preamble = ec.eng_preamble


def cix(d):
    post = core.clist([core.clist(["(%s, %s, %s, %s, %s)" % tuple(core.cz(x) for x in p) for p in (ps or [])]) for ps in (d.get("postings") or [])])
    lens = core.clist(["(%s, %s, %s, %s)" % tuple(core.cz(x) for x in l) for l in (d.get("doc_lens") or [])])
    return "{| d_n := %s; d_terms := %s; d_df := %s; d_post := %s; d_lens := %s; d_avg := (%s, %s, %s, %s) |}" % (
        (core.cz(d["n"]), ec.cbl(d.get("terms")), core.clist([core.cz(x) for x in (d.get("df") or [])]), post, lens) +
        tuple(core.cfloat(x) for x in d["avg_len"]))


def coq_case(c):
    if c["kind"] in ("index", "bigindex"):
        return "%s %s %s" % ("KIndex" if c["kind"] == "index" else "KBig", ec.cecase(c), cix(c["index"]))
    steps = ["(%s, %s, %s, %s)" % (ec.cres(s.get("got")), ec.cres(s.get("fresh")), ec.cbl(s.get("after")), ec.cbl(s.get("expect"))) for s in c.get("steps") or []]
    return "KHistory %s" % core.clist(steps)


def keep(c):
    if c.get("note"):
        return False
    return c["kind"] == "history" or c.get("index") is not None


def identity(c):
    return [c["kind"], c.get("db"), c.get("q"), [(s["op"], s["q"], s["opts"]) for s in c.get("steps") or []]]


def sample(c):
    if c["kind"] in ("index", "bigindex"):
        d = ec.eng_sample(c); d["kind"] = c["kind"]; d["index_terms"] = len(c["index"].get("terms") or []); return d
    return {"kind": "history", "steps": [{"op": s["op"], "query": ec.b2s(s["q"]), "nlp": s["opts"]["nlp"], "commands_after": len(s.get("after") or []),
                                           "answer": (s.get("got") or [])[:3], "fresh_answer": (s.get("fresh") or [])[:3]} for s in c.get("steps") or []]}


def finding_key(c, r):
    return None

LEVEL_TEXT = ("Theorems (Props/C03.v): the accumulator computed through the inverted index (postings, document frequencies, length tables of Model/Index.v) equals, "
              "document for document and bit for bit, the one computed by scanning the command texts, for every command list, term list, boost map and options; the "
              "postings of a term are exactly the documents containing it; tokenising a joined keyword list = concatenating the tokenisations; after any history of "
              "load / merge / replace / grow a search runs on structures built from exactly the commands being searched; merged database = main ++ notebook. Tied to the "
              "code on every run: the real index is dumped and compared with the model's, the real NLP-off answer is compared with the scan answer, and histories of "
              "merge / UpdateDatabase / growth are searched and compared with a freshly built database.")
LEVEL_NOTE = ("Trusted: Coq kernel + vm_compute; math.Log oracle; Unicode lower-casing done by the loader enters as the cached *Lower fields of each entry (data of the case). "
              "No axioms beyond float primitives.")
TECHNIQUE = "Coq proof (refinement: inverted index = exhaustive scan; state-machine invariant for staleness) + differential correspondence"
