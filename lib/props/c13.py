"""C13 (engine family): shared engine cases, property predicate C13 evaluated in Coq on the implementation's outputs,
model Model/Engine.v compared on every run."""
import core, engine_common as ec
ID = "C13"
HARNESS = "eng"
N = {"quick": 400, "thorough": 5000}
SHARD = 25
HEADER = ec.ENG_HEADER
CASE_TYPE = "ecase"
CHECK_FN = 'check_cases "C13"'
MISMATCH_IS_VIOLATION = False
RULE = ec.ENG_RULE + "non-trivial = the main answer is non-empty; distinct = distinct (database, query, options)"
TRUSTED = ["oracles fed to the model from the real code for each case: bm25IDF values (math.Log), the NLP analysis of the query and per-document NLP "
           "multipliers, the TF-IDF ranking, raw sahilm/fuzzy scores", "correspondence harness", "PrimFloat = Go float64 on amd64 (no FMA fusion)"]
ASSUMPTIONS = ["platform tags are ASCII (EqualFold modelled by ASCII folding)"]
coq_case = ec.cecase
preamble = ec.eng_preamble
sample = ec.eng_sample
identity = ec.eng_identity
shrink_candidates = ec.eng_shrink


def keep(c):
    return not c.get("note")


def finding_key(c, r):
    return None

LEVEL_TEXT = "Theorems (Props/C13.v): boosts never add or remove a candidate (answers with and without boosts contain the same commands at a limit that cuts nothing, NLP on or off), the accumulator's documents are the candidates whatever the boosts, a command without the boosted word keeps exactly its score. Tied by the engine correspondence (boost / no-boost pairs)."
LEVEL_NOTE = "Partial: 'never lowers the score of a command that contains the word' needs float monotonicity and is checked per case only; the directory analyzer (AnalyzeDirectory) is not modelled yet. Trusted: Coq kernel; oracles; harness."
TECHNIQUE = "Coq proof over the engine model + differential correspondence (vm_compute, bit-exact scores)"
