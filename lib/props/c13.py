"""C13 (engine family): shared engine cases, property predicate C13 evaluated in Coq on the implementation's outputs,
model Model/Engine.v compared on every run."""
import core, engine_common as ec
ID = "C13"
HARNESS = "eng"
N = {"quick": 400, "thorough": 5000}
SHARD = 25
HEADER = ec.ENG_HEADER
CASE_TYPE = "ecase"
CHECK_FN = 'check_cases "C13"'
MISMATCH_IS_VIOLATION = False
RULE = ec.ENG_RULE + "non-trivial = the main answer is non-empty; distinct = distinct (database, query, options)"
TRUSTED = ["oracles fed to the model from the real code for each case: bm25IDF values (math.Log), the cleaned lower-cased words of the query (the analysis itself is computed by Model/Nlp.v from them and compared) and per-document NLP "
           "multipliers, the TF-IDF tokenizer output and math.Log table (the ranking itself is computed by Model/Tfidf.v and compared), raw sahilm/fuzzy scores", "correspondence harness", "PrimFloat = Go float64 on amd64 (no FMA fusion)"]
ASSUMPTIONS = ["platform tags are ASCII (EqualFold modelled by ASCII folding)"]
coq_case = ec.cecase
preamble = ec.eng_preamble
sample = ec.eng_sample
identity = ec.eng_identity
shrink_candidates = ec.eng_shrink


def b2s(x):
    return bytes(x or []).decode("utf-8", "replace")


def ctx_case(c):
    bl = lambda l: ec.cbl(l or [])
    kv = lambda l: core.clist(["(%s, %s)" % (ec.cbytes(b["k"]) if hasattr(ec, "cbytes") else core.cbytes(b["k"]), core.cfloat(b["v"])) for b in (l or [])])
    return ("{| x_listing := %s; x_makefiles := %s; x_scripts := %s; x_types := %s; x_types2 := %s; x_boosts := %s; x_boosts2 := %s; "
            "x_targets := %s; x_obs_scripts := %s; x_err := %s; x_probe := %s; x_replica := %s |}") % (
        bl(c["listing"]), bl(c["makefiles"]), bl(c["scripts"]), bl(c.get("types")), bl(c.get("types2")), kv(c.get("boosts")), kv(c.get("boosts2")),
        bl(c.get("targets")), bl(c.get("obs_scripts")), core.cbool(c.get("err", False)), kv(c.get("probe")),
        "(Some (%s, %s))" % (bl(c.get("types3")), kv(c.get("boosts3"))) if c.get("has_replica") else "None")


FAMILIES = {"ctx": dict(
    HARNESS="c13ctx", N={"quick": 400, "thorough": 6000}, SHARD=100, CASE_TYPE="ctxcase", CHECK_FN="check_cases",
    HEADER="From Coq Require Import List String ZArith NArith Bool Floats.\nFrom WTF Require Import Model.Validate Model.Text Model.Context Check.Render Check.C13Ctx.\nImport ListNotations.\n",
    coq_case=ctx_case,
    identity=lambda c: c["entries"],
    sample=lambda c: {"family": "ctx", "directory": [b2s(n) for n in c["listing"]], "project_types": [b2s(t) for t in c.get("types") or []],
                      "boosts": {b2s(b["k"]): b["v"] for b in (c.get("boosts") or [])[:6]}, "make_targets": [b2s(t) for t in c.get("targets") or []]},
    shrink_candidates=lambda c: [dict(c, entries=c["entries"][:i] + c["entries"][i + 1:]) for i in range(len(c["entries"]))] if len(c["entries"]) > 1 else [],
)}


def keep(c):
    return not c.get("note")


def finding_key(c, r):
    return None

LEVEL_TEXT = ("Theorems (Props/C13.v): boosts never add or remove a candidate (answers with and without boosts contain the same commands at a limit that cuts nothing, "
              "NLP on or off), the accumulator's documents are the candidates whatever the boosts, a command without the boosted word keeps exactly its score; for the "
              "directory analyzer (Model/Context.v): the analysis is a function of the SET of names (entries are read in file-name order, so any creation / storage / enumeration order gives the same types in the same order); every project type is reported at most once for every listing, 'generic' is reported exactly when no entry is recognised "
              "and is then the whole answer, every other reported type comes from an entry that carries it and every such type is reported, and every value of the boost map "
              "(project tables, package scripts, make targets, any combination) is finite and at least 1. Tied by the engine correspondence (boost / no-boost pairs) and by "
              "running AnalyzeDirectory / GetContextBoosts on generated directories (each marker name alone on every run, then combinations, arbitrary Makefile and package.json text).")
LEVEL_NOTE = "Partial: 'never lowers the score of a command that contains the word' needs float monotonicity and is checked per case only; encoding/json (package.json) and os.ReadDir order are oracles of the analyzer model. Trusted: Coq kernel; oracles; harness."
TECHNIQUE = "Coq proof over the engine model + differential correspondence (vm_compute, bit-exact scores)"
