"""Standard flow of a check: corpus + generated cases -> real code (Go harness) -> Coq
(correspondence + predicate) -> proofs rebuilt -> evidence, VIOLATION / KNOWN-FINDING lines."""
import glob, json, os, sys, time, traceback
import core


def load_corpus(mod):
    out = []
    d = os.path.join(core.VERIF, "harness", "corpus", mod.ID)
    for fn in sorted(glob.glob(os.path.join(d, "*.case"))):
        out.append(fn)
    return out


def finding_key(mod, case, res):
    f = getattr(mod, "finding_key", None)
    if f is None:
        return None
    return f(case, res)


class _Fam(object):
    """a secondary case family of a check (own harness sub-command, Coq case type and checker)"""
    def __init__(self, name, d):
        self.name = name
        self.__dict__.update(d)


def families(mod):
    return {k: _Fam(k, v) for k, v in getattr(mod, "FAMILIES", {}).items()}


def tagged(fm, cases):
    if isinstance(fm, _Fam):
        for c in cases:
            c["family"] = fm.name
    return cases


def fam_of(mod, case):
    f = case.get("family")
    return families(mod)[f] if f and f in getattr(mod, "FAMILIES", {}) else mod


def evaluate(mod, cases):
    """cases (dicts from the harness) -> list of result dicts (same order); cases of a secondary family go to its checker."""
    groups = {}
    for i, c in enumerate(cases):
        f = c.get("family")
        groups.setdefault(f if f in getattr(mod, "FAMILIES", {}) else None, []).append(i)
    results = [None] * len(cases)
    for f, idx in groups.items():
        m = families(mod)[f] if f else mod
        cs = [cases[i] for i in idx]
        pre = getattr(m, "preamble", lambda cs: "")(cs)
        terms = [m.coq_case(c) for c in cs]
        rs = core.coq_eval(m.HEADER, terms, m.CASE_TYPE, m.CHECK_FN, shard=getattr(m, "SHARD", 250), preamble=pre)
        for i, r in zip(idx, rs):
            results[i] = r
    return results


def shrink(mod, case, res, budget_s=60):
    """Greedy shrinking: try candidate reductions of the *input*, re-run the implementation
    (harness replay mode) and Coq, keep a candidate while the same kind of failure persists."""
    fm = fam_of(mod, case)
    cands = getattr(fm, "shrink_candidates", None)
    if cands is None:
        return case, res, False
    t0 = time.time()
    cur, cur_res = case, res
    shrunk = False
    progress = True
    while progress and time.time() - t0 < budget_s:
        progress = False
        batch = list(cands(cur))[:48]
        if not batch:
            break
        fn = os.path.join(core.scratch(), "shrink-%d.jsonl" % os.getpid())
        with open(fn, "w") as f:
            for c in batch:
                f.write(json.dumps(c) + "\n")
        try:
            if getattr(mod, "generate", None) and fm is mod:
                reran = mod.rerun(batch)
            else:
                reran = tagged(fm, core.run_harness(fm.HARNESS, replay=fn, extra=getattr(fm, "HARNESS_EXTRA", [])))
            rr = evaluate(mod, reran)
        except Exception:
            break
        for c, r in zip(reran, rr):
            if r["verdict"] == cur_res["verdict"] and same_clause(r, cur_res):
                cur, cur_res = c, r
                shrunk = True
                progress = True
                break
    return cur, cur_res, shrunk


def generic_search(mod, tier, seed, known, budget_s=240):
    """The correspondence broke but no generated case violates the property's predicate: look further for a concrete
    failing input - fresh batches of generated cases under other seeds, evaluated the same way - within a time budget."""
    if getattr(mod, "generate", None):
        return None
    t0 = time.time()
    k = 0
    while time.time() - t0 < budget_s and k < 6:
        k += 1
        s2 = seed + 7919 * k
        try:
            cs = core.run_harness(mod.HARNESS, seed=s2, n=mod.N[tier], extra=getattr(mod, "HARNESS_EXTRA", []),
                                  timeout=getattr(mod, "HARNESS_TIMEOUT", 1800))
            for fm in families(mod).values():
                cs += tagged(fm, core.run_harness(fm.HARNESS, seed=s2, n=fm.N[tier], extra=getattr(fm, "HARNESS_EXTRA", [])))
            keep = getattr(mod, "keep", lambda c: True)
            cs = [c for c in cs if keep(c)]
            rs = evaluate(mod, cs)
        except Exception:
            return None
        for c, r in zip(cs, rs):
            if r["verdict"] in ("PREDFAIL", "MODELPREDFAIL"):
                key = finding_key(mod, c, r)
                if key is not None and key in known:
                    continue
                return c, r
    return None


def same_clause(a, b):
    if a["verdict"] == "MISMATCH":
        return True
    return a["detail"] == b["detail"]


def standard_check(mod, tier, seed, replay=None):
    t0 = time.time()
    pid = mod.ID
    violations = []      # (kind, replay_path, suffix)
    known_hits = {}
    notes = {}
    cases, results = [], []
    # full .vo build first (incremental; -k so that Model/ and Check/ are usable even if a proof is broken)
    ok_make, make_log = core.make_proofs()
    try:
        core.build_harness()
        pre = getattr(mod, "prepare", None)
        if pre:
            pre(tier, seed)
        gen = getattr(mod, "generate", None)
        if replay:
            with open(replay) as f:
                rp = json.load(f)
            fm = fam_of(mod, rp["input"])
            if gen and fm is mod:
                cases = mod.rerun([rp["input"]])
            else:
                fn = os.path.join(core.scratch(), "replay-in.jsonl")
                with open(fn, "w") as f:
                    f.write(json.dumps(rp["input"]) + "\n")
                cases = tagged(fm, core.run_harness(fm.HARNESS, replay=fn, extra=getattr(fm, "HARNESS_EXTRA", [])))
        elif gen:
            cases = gen(tier, seed)
            for fm in families(mod).values():
                cases += tagged(fm, core.run_harness(fm.HARNESS, seed=seed, n=fm.N[tier], extra=getattr(fm, "HARNESS_EXTRA", [])))
        else:
            corpus = load_corpus(mod)
            for fn in corpus:
                try:
                    with open(fn) as f:
                        first = json.loads(f.readline())
                except Exception:
                    continue
                fm = fam_of(mod, first)
                cs = tagged(fm, core.run_harness(fm.HARNESS, replay=fn, extra=getattr(fm, "HARNESS_EXTRA", [])))
                for c in cs:
                    c["_corpus"] = os.path.basename(fn)
                cases += cs
            n = mod.N[tier]
            cases += core.run_harness(mod.HARNESS, seed=seed, n=n, extra=getattr(mod, "HARNESS_EXTRA", []),
                                      timeout=getattr(mod, "HARNESS_TIMEOUT", 1800))
            for fm in families(mod).values():
                cases += tagged(fm, core.run_harness(fm.HARNESS, seed=seed, n=fm.N[tier], extra=getattr(fm, "HARNESS_EXTRA", [])))
        keep = getattr(mod, "keep", lambda c: True)
        dropped = [c for c in cases if not keep(c)]
        cases = [c for c in cases if keep(c)]
        notes["discarded_cases"] = len(dropped)
        results = evaluate(mod, cases)
    except core.BuildFailure as e:
        # the current tree no longer builds with the harness: the correspondence cannot be checked.
        path = core.write_replay(pid, {"property": pid, "kind": "correspondence", "no_failing_input_found": True,
                                       "correspondence": "harness build against /repo", "detail": str(e)})
        print("VIOLATION property=%s replay=%s no-failing-input-found" % (pid, path))
        write_ev(mod, tier, seed, [], [], {"ok": False, "obligations": 0, "discharged": 0, "assumptions": [], "theorems": []}, 1, notes)
        return 1
    except core.CoqCaseFailure as e:
        path = core.write_replay(pid, {"property": pid, "kind": "correspondence", "no_failing_input_found": True,
                                       "correspondence": mod.HEADER, "detail": str(e)[-3000:]})
        print("VIOLATION property=%s replay=%s no-failing-input-found" % (pid, path))
        write_ev(mod, tier, seed, [], [], {"ok": False, "obligations": 0, "discharged": 0, "assumptions": [], "theorems": []}, 1, notes)
        return 1

    known = {k["key"]: k for k in core.known_findings(pid)}
    new_fail = []
    for c, r in zip(cases, results):
        if r["verdict"] == "ok":
            continue
        key = finding_key(mod, c, r)
        if key is not None and key in known:
            known_hits.setdefault(key, []).append(c)
            continue
        new_fail.append((c, r))

    # extra classification hook: cases the module itself judges (python-side observations)
    extra_fail = getattr(mod, "extra_violations", lambda cases, results: [])(cases, results)
    for (c, clause) in extra_fail:
        key = finding_key(mod, c, {"verdict": "PREDFAIL", "detail": clause, "tags": []})
        if key is not None and key in known:
            known_hits.setdefault(key, []).append(c)
        else:
            new_fail.append((c, {"verdict": "PREDFAIL", "detail": clause, "trivial": False, "tags": []}))

    mismatch_is_violation = getattr(mod, "MISMATCH_IS_VIOLATION", True)
    pred = [(c, r) for c, r in new_fail if r["verdict"] in ("PREDFAIL", "MODELPREDFAIL")]
    mism = [(c, r) for c, r in new_fail if r["verdict"] == "MISMATCH"]
    reported = 0
    seen_clause = set()
    for c, r in pred + (mism if mismatch_is_violation else []):
        ck = (r["verdict"], r["detail"] if r["verdict"] != "MISMATCH" else "")
        if ck in seen_clause or reported >= 3:
            continue
        seen_clause.add(ck)
        c2, r2, shr = shrink(mod, c, r)
        path = core.write_replay(pid, {
            "property": pid, "kind": "predicate" if r["verdict"] != "MISMATCH" else "correspondence",
            "clause": r2["detail"], "theorem": "Props/%s.v" % pid, "seed": seed, "tier": tier,
            "shrunk": shr, "input": strip(c2), "verdict": r2, "no_failing_input_found": False})
        print("VIOLATION property=%s replay=%s" % (pid, path))
        reported += 1
    if mism and not mismatch_is_violation and not pred:
        # model no longer describes the code on these inputs; search for a predicate failure nearby
        found = None
        search = getattr(mod, "search_failing", None)
        if search:
            found = search(mism, seed)
        else:
            found = generic_search(mod, tier, seed, known)
        if found:
            c, r = found
            path = core.write_replay(pid, {"property": pid, "kind": "predicate", "clause": r["detail"],
                                           "seed": seed, "tier": tier, "input": strip(c), "verdict": r,
                                           "no_failing_input_found": False})
            print("VIOLATION property=%s replay=%s" % (pid, path))
        else:
            c, r = mism[0]
            c2, r2, shr = shrink(mod, c, r)
            path = core.write_replay(pid, {"property": pid, "kind": "correspondence",
                                           "correspondence": "%s vs harness %s" % (mod.HEADER, mod.HARNESS),
                                           "clause": r2["detail"], "seed": seed, "tier": tier, "shrunk": shr,
                                           "input": strip(c2), "verdict": r2, "no_failing_input_found": True})
            print("VIOLATION property=%s replay=%s no-failing-input-found" % (pid, path))
        reported += 1

    # proofs
    pr = core.check_props(pid) if ok_make else {"ok": False, "obligations": 0, "discharged": 0,
                                                "assumptions": [], "theorems": [], "log": make_log}
    if tier == "thorough" and pr["ok"]:
        ck = core.coqchk_props(pid)
        notes["coqchk"] = {"ok": ck["ok"], "axioms": ck["axioms"] or ["<none>"]}
        if not ck["ok"]:
            pr["ok"] = False
            pr["log"] = "coqchk: " + ck["log"]
    bad = core.forbidden_constructs()
    if bad:
        pr["ok"] = False
        pr["log"] = "forbidden constructs: " + ", ".join(bad[:10])
    table_ob = getattr(mod, "table_obligations", None)
    if not pr["ok"]:
        if reported == 0:
            path = core.write_replay(pid, {"property": pid, "kind": "proof-obligation",
                                           "theorem": "Props/%s.v (or a lemma/table obligation it depends on)" % pid,
                                           "detail": pr.get("log", "")[-3000:], "no_failing_input_found": True})
            print("VIOLATION property=%s replay=%s no-failing-input-found" % (pid, path))
            reported += 1

    for key, cs in sorted(known_hits.items()):
        print("KNOWN-FINDING: property=%s key=%s %s (%d case(s) this run)" % (pid, key, known[key]["text"], len(cs)))
    stale = [k for k in known if k not in known_hits]
    notes["stale_findings"] = stale
    notes["known_finding_hits"] = {k: len(v) for k, v in known_hits.items()}
    write_ev(mod, tier, seed, cases, results, pr, reported, notes)
    return 1 if reported else 0


def strip(c):
    return {k: v for k, v in c.items() if not k.startswith("_")}


def write_ev(mod, tier, seed, cases, results, pr, violations, notes):
    distinct = set()
    hist = {}
    for c, r in zip(cases, results):
        for t in r["tags"]:
            hist[t] = hist.get(t, 0) + 1
        if not r["trivial"]:
            fm = fam_of(mod, c)
            distinct.add(json.dumps(fm.identity(c) if hasattr(fm, "identity") else core_strip_obs(c), sort_keys=True))

    def smp(c):
        fm = fam_of(mod, c)
        return fm.sample(c) if hasattr(fm, "sample") else strip(c)
    samples = [smp(c) for c in cases[:2]]
    if len(cases) > 4:
        samples.append(smp(cases[len(cases) // 2]))
    for fname in getattr(mod, "FAMILIES", {}):
        fc = [c for c in cases if c.get("family") == fname]
        if fc:
            samples.append(smp(fc[len(fc) // 2]))
    cov = {
        "obligations": pr["obligations"], "discharged": pr["discharged"],
        "checker_cmd": "make -C coq -j16 (full .vo build, coq_makefile) && coqc -Q coq WTF coq/Props/%s.v  [Print Assumptions captured]" % mod.ID,
        "trusted_base": ["Coq 8.16.1 kernel + vm_compute (no native_compute)"] +
                        (["axioms (Print Assumptions): " + ", ".join(pr["assumptions"])] if pr["assumptions"]
                         else ["Print Assumptions: Closed under the global context for every theorem in Props/%s.v" % mod.ID]) +
                        list(getattr(mod, "TRUSTED", [])),
        "theorems": pr.get("theorems", []),
        "evaluations": len(cases), "distinct_nontrivial": len(distinct),
        "rule": getattr(mod, "RULE", ""),
        "samples": samples if samples else [{"note": "no case evaluated"}],
        "traces_validated_against_impl": sum(1 for r in results if r["verdict"] == "ok"),
        "tag_histogram": hist,
        "verdicts": {k: sum(1 for r in results if r["verdict"] == k) for k in ("ok", "MISMATCH", "PREDFAIL", "MODELPREDFAIL")},
    }
    cov.update(notes)
    extra_cov = getattr(mod, "extra_coverage", None)
    if extra_cov:
        cov.update(extra_cov(cases, results))
    core.write_evidence(mod.ID, tier, seed, cov, list(getattr(mod, "ASSUMPTIONS", [])), violations)


def core_strip_obs(c):
    return strip(c)


def main(mod):
    import argparse
    ap = argparse.ArgumentParser()
    ap.add_argument("tier", nargs="?", default=os.environ.get("VERIF_TIER", "quick"))
    ap.add_argument("--replay")
    a = ap.parse_args(sys.argv[2:])
    seed = int(os.environ.get("VERIF_SEED", "1"))
    try:
        rc = (getattr(mod, "check", None) or (lambda t, s, r: standard_check(mod, t, s, r)))(a.tier, seed, a.replay)
    except core.CrashUnderTest as e:
        # the code under test crashed the driver process: that is a violation of every property here (each promises an answer)
        path = core.write_replay(mod.ID, {"property": mod.ID, "kind": "crash-under-test", "clause": "crash", "detail": e.what,
                                          "reproduce": " ".join(e.cmd) + "   (harness built from /verif/harness against /repo; same seed => same inputs)",
                                          "trace": e.trace})
        print("VIOLATION property=%s replay=%s" % (mod.ID, path))
        rc = 1
    except core.InternalError as e:
        print("INTERNAL-ERROR property=%s %s" % (mod.ID, str(e)[:2000]), file=sys.stderr)
        rc = 2
    except Exception:
        traceback.print_exc()
        rc = 2
    sys.exit(rc)
