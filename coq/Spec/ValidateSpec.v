(* C14: the property as decidable predicates on (input, output) — independent of the model. *)
From Coq Require Import List NArith ZArith Bool.
From WTF Require Import Model.Validate.
Import ListNotations.
Open Scope N_scope.

(* accepted exactly when: at most 1000 bytes, no metacharacter byte, not blank once the
   removable control characters are taken out *)
Definition accept_spec (q : list N) : bool :=
  (N.of_nat (length q) <=? max_query_length) &&
  negb (existsb is_meta_byte q) &&
  negb (forallb is_space (filter (fun t => negb (removable t)) (decode q))).

(* normal form of an accepted query, on runes: no space first or last, no two spaces in a row,
   every space is U+0020 *)
Fixpoint nf_from (prev_space : bool) (ts : list tok) : bool :=
  match ts with
  | [] => negb prev_space
  | t :: r => if is_space t then negb prev_space && tok_eqb t SP && nf_from true r
              else nf_from false r
  end.
Definition nf (ts : list tok) : bool := match ts with [] => false | _ => nf_from true ts end.

Definition is_bad (t : tok) : bool := match t with Bad _ => true | _ => false end.

Definition clean_spec (q c : list N) : bool :=
  let ts := decode c in
  negb (existsb is_bad ts) && negb (existsb is_control ts) && negb (existsb is_meta ts) &&
  negb (existsb is_meta_byte c) && nf ts &&
  (length ts <=? length (decode q))%nat.

Definition limit_spec (n : Z) (r : vres Z) : bool :=
  match r with
  | ROk m => ((1 <=? m) && (m <=? 100) && (0 <=? n) && (n <=? 100) && ((n =? 0) || (m =? n)))%Z
  | RErr _ => ((n <? 0) || (100 <? n))%Z
  end.
