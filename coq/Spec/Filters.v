(* C04: the platform filter as the property words it (a proposition), next to the model's boolean. *)
From Coq Require Import List ZArith NArith Bool Floats.
From WTF Require Import Model.Validate Model.Text Model.Platform Model.Engine.
Import ListNotations.

(* the platforms in force: those asked for (in the database's vocabulary), otherwise the host *)
Definition in_force (E : env) (o : options) : list bytes :=
  match o_platforms o with [] => [e_host E] | l => map canonical_platform l end.

(* all platforms requested, or the command declares none, or one of its platforms is a platform in force,
   or - unless cross-platform entries are excluded - it is tagged cross-platform or is a recognised tool *)
Definition allowed (E : env) (o : options) (c : command) : Prop :=
  o_all_platforms o = true \/ c_platform c = [] \/
  (exists p cur, In p (c_platform c) /\ In cur (in_force E o) /\ platform_matches p cur = true) \/
  (o_no_cross o = false /\ ((exists p, In p (c_platform c) /\ eq_fold p s_cross = true) \/ is_cross_tool (e_tools E) (c_cmd_lc c) = true)).
