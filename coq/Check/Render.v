(* Rendering of per-case verdicts as short strings (one token per case) that the
   driver can recover from Coq's output with a regular expression. *)
From Coq Require Import List String Ascii ZArith NArith Decimal DecimalString Bool.
Import ListNotations.
Open Scope string_scope.

Definition str_of_nat (n : nat) : string := NilEmpty.string_of_uint (Nat.to_uint n).
Definition str_of_N (n : N) : string := NilEmpty.string_of_uint (N.to_uint n).
Definition str_of_Z (z : Z) : string :=
  match z with
  | Z0 => "0"
  | Zpos p => NilEmpty.string_of_uint (Pos.to_uint p)
  | Zneg p => "-" ++ NilEmpty.string_of_uint (Pos.to_uint p)
  end.

(* verdict of one case *)
Inductive verdict :=
| VOk                                   (* model = implementation and predicate holds on both *)
| VMismatch (field : string)            (* model and implementation disagree (correspondence) *)
| VPredFail (clause : string)           (* predicate false on the implementation's output *)
| VModelPredFail (clause : string).     (* predicate false on the model's output: theorem would be false *)

Record report := { r_verdict : verdict; r_trivial : bool; r_tags : list string }.

Fixpoint join (sep : string) (l : list string) : string :=
  match l with
  | [] => ""
  | [x] => x
  | x :: r => x ++ sep ++ join sep r
  end.

Definition render_one (i : nat) (r : report) : string :=
  str_of_nat i ++ ":" ++
  (match r_verdict r with
   | VOk => "ok"
   | VMismatch f => "MISMATCH:" ++ f
   | VPredFail c => "PREDFAIL:" ++ c
   | VModelPredFail c => "MODELPREDFAIL:" ++ c
   end) ++ (if r_trivial r then ":t" else ":n") ++ ":" ++ join "," (r_tags r).

Fixpoint render_from (i : nat) (l : list report) : list string :=
  match l with
  | [] => []
  | r :: rest => render_one i r :: render_from (S i) rest
  end.

Definition render (l : list report) : list string := render_from 0 l.

(* helpers *)
Fixpoint list_eqb {A} (eqb : A -> A -> bool) (a b : list A) : bool :=
  match a, b with
  | [], [] => true
  | x :: a', y :: b' => eqb x y && list_eqb eqb a' b'
  | _, _ => false
  end.

Fixpoint list_eqb2 {A B} (eqb : A -> B -> bool) (a : list A) (b : list B) : bool :=
  match a, b with
  | [], [] => true
  | x :: a', y :: b' => eqb x y && list_eqb2 eqb a' b'
  | _, _ => false
  end.

Definition option_eqb {A} (eqb : A -> A -> bool) (a b : option A) : bool :=
  match a, b with
  | None, None => true
  | Some x, Some y => eqb x y
  | _, _ => false
  end.

Definition subset_b {A} (eqb : A -> A -> bool) (a b : list A) : bool :=
  forallb (fun x => existsb (eqb x) b) a.
Definition same_set_b {A} (eqb : A -> A -> bool) (a b : list A) : bool :=
  Nat.eqb (List.length a) (List.length b) && subset_b eqb a b && subset_b eqb b a.
