From Coq Require Import List String ZArith NArith Bool Floats.
From WTF Require Import Model.Validate Model.History Check.Render.
Import ListNotations.
Open Scope string_scope.

Definition hentry_eqb (a b : hentry) : bool :=
  bytes_eqb (h_query a) (h_query b) && Z.eqb (h_time a) (h_time b) && Z.eqb (h_results a) (h_results b) &&
  bytes_eqb (h_context a) (h_context b) && Z.eqb (h_duration a) (h_duration b).

Definition trip_eqb (a b : bytes * Z * Z) : bool :=
  let '(qa, ca, la) := a in let '(qb, cb, lb) := b in bytes_eqb qa qb && Z.eqb ca cb && Z.eqb la lb.

Definition key_eqb (a b : bytes * Z * Z) : bool :=
  let '(_, ca, la) := a in let '(_, cb, lb) := b in Z.eqb ca cb && Z.eqb la lb.

Fixpoint sorted_top (l : list (bytes * Z * Z)) : bool :=
  match l with
  | [] | [_] => true
  | a :: ((b :: _) as r) => negb (top_before b a) && sorted_top r
  end.

(* the implementation's top list agrees with the model's up to the order among equal (count,last) *)
Definition top_ok (s : hstate) (limit : Z) (obs : list (bytes * Z * Z)) : bool :=
  let all := top_all s in
  let m := top s limit in
  Nat.eqb (List.length obs) (List.length m) && sorted_top obs &&
  forallb (fun x => existsb (trip_eqb x) all) obs &&
  list_eqb key_eqb obs m.

Definition out_eqb16 (s : hstate) (o : hop) (m obs : hout) : bool :=
  match m, obs with
  | AUnit, AUnit => true
  | APanic, APanic => true
  | AErr a, AErr b => Bool.eqb a b
  | ARecent a, ARecent b => list_eqb bytes_eqb a b
  | ATop _, ATop b => match o with HTop k => top_ok s k b | _ => false end
  | AStats t u o1 n1 r d, AStats t' u' o1' n1' r' d' =>
      Z.eqb t t' && Z.eqb u u' && Z.eqb o1 o1' && Z.eqb n1 n1' && PrimFloat.eqb r r' && PrimFloat.eqb d d'
  | _, _ => false
  end.

(* observation after each call: the call's return value, and the entries / MaxSize fields (None after a panic) *)
Record obs16 := { ob_out : hout; ob_state : option (list hentry * Z) }.
Record case16 := { c_max : Z; c_ops : list (hop * obs16) }.

Definition state_eqb (s : hstate) (o : list hentry * Z) : bool :=
  list_eqb hentry_eqb (entries s) (fst o) && Z.eqb (max_size s) (snd o).

Fixpoint first_diff (i : nat) (s : hstate) (l : list (hop * obs16)) : option (nat * string) :=
  match l with
  | [] => None
  | (o, ob) :: r =>
      let '(s', x) := hstep s o in
      if negb (out_eqb16 s o x (ob_out ob)) then Some (i, "out")
      else match s', ob_state ob with
           | Some s1, Some st => if state_eqb s1 st then first_diff (S i) s1 r else Some (i, "state")
           | None, None => None
           | _, _ => Some (i, "panic")
           end
  end.

(* the property's predicates evaluated on the implementation's own observations *)
Definition is_add (x : hop * obs16) := match fst x with HAdd _ => true | _ => false end.
Definition is_file (x : hop * obs16) := match fst x with HLoadFile _ => true | _ => false end.

Fixpoint pred_impl (own : bool) (l : list (hop * obs16)) : option string :=
  match l with
  | [] => None
  | (o, ob) :: r =>
      match ob_out ob, ob_state ob with
      | APanic, _ | _, None => Some "add_total"
      | _, Some (es, mx) =>
          let own' := match o with HLoadFile _ => false | _ => own end in
          if own' && negb (Z.of_nat (List.length es) <=? mx)%Z then Some "bounded"
          else match o with
               | HAdd e => match last_opt es with
                           | Some l => if hentry_eqb l e then pred_impl own' r else Some "records"
                           | None => Some "records"
                           end
               | _ => pred_impl own' r
               end
      end
  end.

Definition check_case (c : case16) : report :=
  let s0 := hnew (c_max c) in
  let v := match pred_impl true (c_ops c) with
           | Some cl => VPredFail cl
           | None => match first_diff 0 s0 (c_ops c) with
                     | None => VOk
                     | Some (i, what) => VMismatch (what ++ "@" ++ str_of_nat i)
                     end
           end in
  {| r_verdict := v;
     r_trivial := negb (existsb is_add (c_ops c));
     r_tags := (if existsb is_file (c_ops c) then ["file"] else ["own"]) |}.

Definition check_cases (l : list case16) : list string := render (map check_case l).
