From Coq Require Import List String ZArith NArith Bool Floats.
From WTF Require Import Model.Validate Model.Text Model.Platform Model.Engine Model.Lru Model.CacheLayer Check.Render Check.EngineTypes.
Import ListNotations.
Open Scope string_scope.

Definition fpair_eqb (a b : bytes * float) : bool := bytes_eqb (fst a) (fst b) && score_eqb (snd a) (snd b).

Definition options_eqb (a b : options) : bool :=
  Z.eqb (o_limit a) (o_limit b) && list_eqb fpair_eqb (o_boosts a) (o_boosts b) &&
  Bool.eqb (o_pipeline_only a) (o_pipeline_only b) && score_eqb (o_pipeline_boost a) (o_pipeline_boost b) &&
  Bool.eqb (o_fuzzy a) (o_fuzzy b) && Z.eqb (o_threshold a) (o_threshold b) && Bool.eqb (o_nlp a) (o_nlp b) &&
  Z.eqb (o_terms_cap a) (o_terms_cap b) && Bool.eqb (o_all_platforms a) (o_all_platforms b) &&
  list_eqb bytes_eqb (o_platforms a) (o_platforms b) && Bool.eqb (o_no_cross a) (o_no_cross b).

Definition ckey := (bytes * options)%type.
Definition ckey_eqb (a b : ckey) : bool := bytes_eqb (fst a) (fst b) && options_eqb (snd a) (snd b).
(* the key of the repaired code: ASCII-lower-cased query (not trimmed) and every option field *)
Definition ckey_of (q : bytes) (o : options) : ckey := (lower_ascii q, o).

Inductive step05 :=
| SSearch (mon : bool) (q : bytes) (o : options) (got fresh : list eres)
| SOther (op : string) (db : nat).

Record case05 := { c_steps : list (step05 * (Z * Z * Z)) }.     (* each with hits, misses, size observed after it *)

(* the engine as a table: what an uncached search returned for (database, query, options) in this history *)
Definition engine_of (steps : list (step05 * (Z * Z * Z * nat))) (d : nat) (q : bytes) (o : options) : list eres :=
  match find (fun x => match fst x with
                       | SSearch _ q' o' _ _ => Nat.eqb (snd (snd x)) d && bytes_eqb q q' && options_eqb o o'
                       | _ => false end) steps with
  | Some (SSearch _ _ _ _ fresh, _) => fresh
  | _ => []
  end.

(* annotate every step with the database in force when it runs *)
Fixpoint annotate (d : nat) (l : list (step05 * (Z * Z * Z))) : list (step05 * (Z * Z * Z * nat)) :=
  match l with
  | [] => []
  | (SOther op db, st) :: r => if String.eqb op "update" then (SOther op db, (st, db)) :: annotate db r
                               else (SOther op db, (st, d)) :: annotate d r
  | (s, st) :: r => (s, (st, d)) :: annotate d r
  end.

Definition to_cop (s : step05) : cop nat bytes options :=
  match s with
  | SSearch false q o _ _ => CSearch nat bytes options q o
  | SSearch true q o _ _ => CMonSearch nat bytes options q o
  | SOther op db =>
      if String.eqb op "invalidate" then CInvalidate nat bytes options
      else if String.eqb op "enable" then CEnable nat bytes options true
      else if String.eqb op "disable" then CEnable nat bytes options false
      else if String.eqb op "cleanup" then CCleanup nat bytes options
      else if String.eqb op "update" then CUpdate nat bytes options db
      else CStats nat bytes options
  end.

Fixpoint walk (eng : nat -> bytes -> options -> list eres) (i : nat)
         (s : cstate nat ckey eres) (l : list (step05 * (Z * Z * Z))) : option string :=
  match l with
  | [] => None
  | (st, (h, m, sz)) :: r =>
      let '(s', out) := cstep nat bytes options ckey eres ckey_eqb ckey_of eng s 0%Z (to_cop st) in
      let c := cs_cache s' in
      let stats_ok := Z.eqb (Z.of_N (hits c)) h && Z.eqb (Z.of_N (misses c)) m && Z.eqb (Z.of_nat (List.length (items c))) sz in
      match st, out with
      | SSearch _ _ _ got _, RResults _ mr =>
          if negb (results_eqb mr got) then Some ("answer@" ++ str_of_nat i)
          else if negb stats_ok then Some ("stats@" ++ str_of_nat i) else walk eng (S i) s' r
      | _, _ => if negb stats_ok then Some ("stats@" ++ str_of_nat i) else walk eng (S i) s' r
      end
  end.

Definition check_case (c : case05) : report :=
  let transparent := forallb (fun x => match fst x with SSearch _ _ _ got fresh => results_eqb got fresh | _ => true end) (c_steps c) in
  let eng := engine_of (annotate 0 (c_steps c)) in
  let v := if negb transparent then VPredFail "transparent"
           else match walk eng 0 (cinit nat ckey eres 0%nat) (c_steps c) with Some w => VMismatch w | None => VOk end in
  let nsearch := List.length (filter (fun x => match fst x with SSearch _ _ _ _ _ => true | _ => false end) (c_steps c)) in
  let nhit := match last (c_steps c) (SOther "" 0, (0, 0, 0)%Z) with (_, (h, _, _)) => h end in
  {| r_verdict := v; r_trivial := Nat.leb nsearch 1;
     r_tags := (if (0 <? nhit)%Z then ["cache-hit"] else []) |}.

Definition check_cases (l : list case05) : list string := render (map check_case l).
