From Coq Require Import List String ZArith NArith Bool.
From WTF Require Import Model.Validate Model.Text Model.History Model.Cli Model.SearchCommand Check.Render.
Import ListNotations.
Open Scope string_scope.

Definition item := (bytes * bytes)%type.     (* command, description *)

Definition expected_items_of (limit : Z) (engine recovery : list item) : list item := cli_results item limit engine recovery.

Record search17 := {
  s_format : string; s_no_color : bool; s_accepted : bool; s_limit_ok : bool; s_limit : Z;
  s_engine : list item; s_recovery : list item;
  s_printed : list item; s_exact : bool;       (* exact: texts comparable byte for byte (json, or list without line breaks) *)
  s_json_ok : bool; s_stdout : bytes; s_exit : Z; s_panic : bool;
  s_hist_before : Z; s_hist_after : Z; s_hist_last : bytes; s_hist_last_n : Z; s_clean : bytes;
  s_query : bytes; s_limit_arg : Z; s_default : Z }.   (* the query and the limit as given on the command line; ValidateLimit(0) *)

(* the whole command on the model (Model/SearchCommand.v), the engine's and the recovery search's answers as observed *)
Definition command_mismatch (s : search17) : option string :=
  let o := search_command item (fun _ _ => s_engine s) (fun _ _ => s_recovery s) (s_default s) (s_query s) (s_limit_arg s)
                          0%Z 0%Z [] (hnew 100) in
  if negb (Bool.eqb (ro_rejected o) (negb (s_accepted s && s_limit_ok s))) then Some "command/validation"
  else if ro_rejected o then None
  else if negb (bytes_eqb (ro_query o) (s_clean s)) then Some "command/validated_query"
  else if negb (Nat.eqb (List.length (ro_printed o)) (List.length (expected_items_of (s_limit s) (s_engine s) (s_recovery s)))) then Some "command/answer"
  else match ro_hist o with
       | Some h => match last_opt (entries h) with
                   | Some e => if bytes_eqb (h_query e) (s_hist_last s) && Z.eqb (h_results e) (s_hist_last_n s) then None
                               else Some "command/history_entry"
                   | None => Some "command/history_entry" end
       | None => Some "command/history_entry" end.

Inductive case17 :=
| KTree (t : list clicmd)
| KSub (args : list bytes) (exit : Z) (panicked : bool)
| KSearch (s : search17).

(* json prints the text as is; list prints printable(text); table prints printable(command) cut to its column *)
Definition item_eqb (fmt : string) (a b : item) : bool :=
  if String.eqb fmt "json" then bytes_eqb (fst a) (json_text (fst b)) && bytes_eqb (snd a) (json_text (snd b))
  else if String.eqb fmt "table" then is_prefix (firstn 40 (printable (fst b))) (fst a)
  else bytes_eqb (fst a) (printable (fst b)) && bytes_eqb (snd a) (printable (snd b)).

Definition expected_items (s : search17) : list item := cli_results item (s_limit s) (s_engine s) (s_recovery s).

Definition check_search (s : search17) : option string :=
  if s_panic s || negb (Z.eqb (s_exit s) 0) then Some "crash"
  else if negb (s_accepted s && s_limit_ok s) then
    (if negb (match s_printed s with [] => true | _ => false end) then Some "rejected_prints_nothing"
     else if negb (Z.eqb (s_hist_after s) (s_hist_before s)) then Some "rejected_not_recorded" else None)
  else if negb (Z.of_nat (List.length (s_printed s)) <=? s_limit s)%Z then Some "limit"
  else if negb (list_eqb (item_eqb (s_format s)) (s_printed s) (expected_items s)) then Some "prints_engine_results"
  else if String.eqb (s_format s) "json" && negb (s_json_ok s) && negb (match expected_items s with [] => true | _ => false end) then Some "json_shape"
  else if s_no_color s && existsb (N.eqb 27) (s_stdout s) then Some "no_escape"
  else if negb (bytes_eqb (s_hist_last s) (s_clean s)) then Some "history_newest_entry"
  else if negb (Z.eqb (s_hist_last_n s) (Z.of_nat (List.length (s_printed s)))) then Some "history_result_count"
  else if negb (Z.eqb (s_hist_after s) (s_hist_before s + 1)) then Some "history_one_entry"
  else None.

Definition check_case (c : case17) : report :=
  match c with
  | KTree t =>
      {| r_verdict := if flags_ok t then VOk else VPredFail "cli_starts"; r_trivial := false; r_tags := ["tree"] |}
  | KSub args ex p =>
      {| r_verdict := if p || Z.eqb ex 2 || (ex <? 0)%Z then VPredFail "subcommand_crash" else VOk; r_trivial := false; r_tags := ["sub"] |}
  | KSearch s =>
      {| r_verdict := match check_search s with Some cl => VPredFail cl | None =>
                        match command_mismatch s with Some w => VMismatch w | None => VOk end end;
         r_trivial := match s_printed s with [] => true | _ => false end;
         r_tags := ["search"; s_format s] ++ (match s_engine s with [] => (match s_recovery s with [] => ["none"] | _ => ["recovery"] end) | _ => ["engine"] end) |}
  end.

Definition check_cases (l : list case17) : list string := render (map check_case l).

(* C14's view of the same runs: validation is the first step of every search - a rejected query or limit means nothing is
   searched, printed or recorded; an accepted limit (1..100) bounds what is printed *)
Definition check_validation (c : case17) : report :=
  match c with
  | KSearch s =>
      let v :=
        if s_panic s then Some "crash"
        else if negb (s_accepted s && s_limit_ok s) then
          (if negb (match s_printed s with [] => true | _ => false end) then Some "rejected_searches_nothing"
           else if negb (Z.eqb (s_hist_after s) (s_hist_before s)) then Some "rejected_not_recorded" else None)
        else if negb ((1 <=? s_limit s)%Z && (s_limit s <=? 100)%Z) then Some "accepted_limit_range"
        else if negb (Z.of_nat (List.length (s_printed s)) <=? s_limit s)%Z then Some "accepted_limit_enforced"
        (* what is searched and recorded is the validated query itself, not a further edit of it *)
        else if negb (bytes_eqb (s_hist_last s) (s_clean s)) then Some "validated_query_is_the_query_used"
        else None in
      {| r_verdict := match v with Some cl => VPredFail cl | None => VOk end;
         r_trivial := false; r_tags := ["cli"] ++ (if s_accepted s && s_limit_ok s then ["accepted"] else ["rejected"]) |}
  | _ => {| r_verdict := VOk; r_trivial := true; r_tags := ["cli-other"] |}
  end.

Definition check_validation_cases (l : list case17) : list string := render (map check_validation l).

(* C04's view of the same runs: whatever the platform flags, what is printed is the engine's answer for exactly those flags
   (the in-process reference is computed with the options the flags spell out) *)
Definition check_platform_flags (c : case17) : report :=
  match c with
  | KSearch s =>
      let v := if s_panic s || negb (Z.eqb (s_exit s) 0) || negb (s_accepted s && s_limit_ok s) then None
               else if negb (list_eqb (item_eqb (s_format s)) (s_printed s) (expected_items s)) then Some "cli_filters_as_flagged" else None in
      {| r_verdict := match v with Some cl => VPredFail cl | None => VOk end;
         r_trivial := match s_printed s with [] => true | _ => false end; r_tags := ["cli"] |}
  | _ => {| r_verdict := VOk; r_trivial := true; r_tags := ["cli-other"] |}
  end.
Definition check_platform_flags_cases (l : list case17) : list string := render (map check_platform_flags l).
