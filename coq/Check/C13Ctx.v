(* C13, context family: AnalyzeDirectory / GetContextBoosts on generated directories vs Model/Context.v,
   and the property's third sentence evaluated on the implementation's own output. *)
From Coq Require Import List String ZArith NArith Bool Floats.
From WTF Require Import Model.Validate Model.Text Model.Context Check.Render.
Import ListNotations.
Open Scope string_scope.

Record ctxcase := {
  x_listing : list bytes; x_makefiles : list bytes; x_scripts : list bytes;     (* inputs (scripts: encoding/json oracle) *)
  x_types : list bytes; x_types2 : list bytes; x_boosts : list (bytes * float); x_boosts2 : list (bytes * float);
  x_targets : list bytes; x_obs_scripts : list bytes; x_err : bool; x_probe : list (bytes * float);
  x_replica : option (list bytes * list (bytes * float)) }.   (* types and boosts of a replica created in another order *)

Definition fbits_eqb (a b : float) : bool := PrimFloat.eqb a b || (negb (PrimFloat.eqb a a) && negb (PrimFloat.eqb b b)).
Definition kv_eqb (a b : bytes * float) : bool := bytes_eqb (fst a) (fst b) && fbits_eqb (snd a) (snd b).

Fixpoint nodup_b (l : list bytes) : bool :=
  match l with [] => true | x :: r => negb (mem_bytes x r) && nodup_b r end.

Definition good (v : float) : bool := PrimFloat.leb 1 v && PrimFloat.ltb v infinity.

Definition check_case (c : ctxcase) : report :=
  let generic := bs "generic" in
  let pred :=
    if x_err c then Some "analysis_total"
    else if negb (nodup_b (x_types c)) then Some "type_reported_once"
    else if match x_types c with [] => true | _ => false end then Some "generic_when_nothing"
    else if mem_bytes generic (x_types c) && negb (Nat.eqb (List.length (x_types c)) 1) then Some "generic_only_when_nothing"
    else if negb (forallb (fun kv => good (snd kv)) (x_boosts c)) then Some "boost_finite_ge_1"
    else if negb (list_eqb bytes_eqb (x_types c) (x_types2 c)) || negb (list_eqb kv_eqb (x_boosts c) (x_boosts2 c)) then Some "deterministic"
    else if negb (let pt := detect [bs ".git"; bs "Dockerfile"] in
                  Nat.eqb (List.length (x_probe c)) (List.length (boost_keys pt [] [])) &&
                  forallb (fun kv => match boost_lookup pt [] [] (fst kv) with Some v => fbits_eqb v (snd kv) | None => false end) (x_probe c))
         then Some "function_of_the_listing"
    else if match x_replica c with
            | Some (t3, b3) => negb (list_eqb bytes_eqb (x_types c) t3) || negb (list_eqb kv_eqb (x_boosts c) b3)
            | None => false end then Some "function_of_the_listing/replica"
    else None in
  let mtypes := detect (x_listing c) in
  let mtargets := flat_map make_targets (x_makefiles c) in
  let mkeys := boost_keys mtypes (x_scripts c) mtargets in
  let mism :=
    if negb (list_eqb bytes_eqb (sort_names (x_listing c)) (x_listing c)) then Some "listing_in_name_order"
    else if negb (list_eqb bytes_eqb (x_types c) mtypes) then Some "project_types"
    else if negb (list_eqb bytes_eqb (x_targets c) mtargets) then Some "make_targets"
    else if negb (same_set_b bytes_eqb (x_obs_scripts c) (x_scripts c)) then Some "package_scripts"
    else if negb (Nat.eqb (List.length (x_boosts c)) (List.length mkeys)) then Some "boost_keys"
    else if negb (forallb (fun kv => match boost_lookup mtypes (x_scripts c) mtargets (fst kv) with
                                     | Some v => fbits_eqb v (snd kv) | None => false end) (x_boosts c)) then Some "boost_values"
    else None in
  let recognised := negb (mem_bytes generic (x_types c)) in
  {| r_verdict := match pred with Some cl => VPredFail cl | None =>
                    match mism with Some f => VMismatch f | None => VOk end end;
     r_trivial := false;
     r_tags := ["ctx"] ++ (if recognised then ["recognised"] else ["generic"]) ++
               (match mtargets with [] => [] | _ => ["make_targets"] end) ++ (match x_scripts c with [] => [] | _ => ["scripts"] end) ++
               (if Nat.ltb 1 (List.length (x_types c)) then ["several_types"] else []) ++
               (match x_replica c with Some _ => ["replica"] | None => [] end) |}.

Definition check_cases (l : list ctxcase) : list string := render (map check_case l).
