From Coq Require Import List String ZArith NArith Bool.
From WTF Require Import Model.Validate Model.Text Model.Retry Check.Render.
Import ListNotations.
Open Scope string_scope.

Record call10 := { l_entry : string; l_panic : bool; l_hang : bool }.
Record case10 := { t_file_kind : string; t_load : string; t_well_formed : bool; t_calls : list call10 }.

(* the loader's classification, from the model: what the read / decode step gave *)
Definition expected_load (kind : string) (load : string) : bool :=
  if String.eqb kind "missing" then String.eqb load "notfound"
  else String.eqb load "ok" || String.eqb load "parse".

Definition check_case (c : case10) : report :=
  let v :=
    if negb (expected_load (t_file_kind c) (t_load c)) then VPredFail ("load_classifies/" ++ t_file_kind c ++ "/" ++ t_load c)
    else if t_well_formed c && negb (String.eqb (t_load c) "ok") then VPredFail "well_formed_loads"
    (* the hand-written YAML shapes that are not a list of command entries (a wrong-typed value anywhere included) *)
    else if String.eqb (t_file_kind c) "shape" && negb (t_well_formed c) && negb (String.eqb (t_load c) "parse") then VPredFail "undecodable_is_parse_error"
    else match find (fun k => l_panic k || l_hang k) (t_calls c) with
         | Some k => VPredFail ((if l_hang k then "hang/" else "panic/") ++ l_entry k)
         | None =>
             (* model: Model/Retry.classify on the access outcome the file kind stands for *)
             let acc : access unit := if String.eqb (t_file_kind c) "missing" then ANotExist
                                      else if String.eqb (t_load c) "ok" then AOk [] else AParse in
             match classify unit acc, t_load c with
             | None, "ok" | Some ENotFound, "notfound" | Some EParse, "parse" => VOk
             | _, _ => VMismatch "classify"
             end
         end in
  {| r_verdict := v; r_trivial := match t_calls c with [] => true | _ => false end; r_tags := [t_file_kind c; t_load c] |}.

Definition check_cases (l : list case10) : list string := render (map check_case l).
