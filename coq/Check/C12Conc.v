(* C12, concurrent family: hit / miss / eviction / size statistics after lookups issued by several goroutines at once
   (no insertion, deletion or expiry meanwhile) equal what actually happened. *)
From Coq Require Import List String ZArith Bool.
From WTF Require Import Check.Render.
Import ListNotations.
Open Scope string_scope.

Record conccase := { q_want_hits : Z; q_want_misses : Z; q_hits : Z; q_misses : Z; q_evictions : Z; q_size : Z; q_wrong : Z }.

Definition check_case (c : conccase) : report :=
  {| r_verdict := if negb (Z.eqb (q_wrong c) 0) then VPredFail "lookup_returns_stored_value"
                  else if negb (Z.eqb (q_hits c) (q_want_hits c)) then VPredFail "hits_equal_what_happened"
                  else if negb (Z.eqb (q_misses c) (q_want_misses c)) then VPredFail "misses_equal_what_happened"
                  else if negb (Z.eqb (q_evictions c) 0) || negb (Z.eqb (q_size c) 16) then VPredFail "nothing_evicted"
                  else VOk;
     r_trivial := false; r_tags := ["concurrent_lookups"] |}.

Definition check_cases (l : list conccase) : list string := render (map check_case l).
