From Coq Require Import List String ZArith NArith Bool Floats.
From WTF Require Import Model.Validate Model.Text Model.Engine Model.Embedding Check.Render Check.EngineTypes Check.Eng.
Import ListNotations.
Open Scope string_scope.

Inductive case19 :=
| KWv (file : bytes) (crashed err : bool) (nvec : Z) (rss_kb base_kb : Z)
| KCe (file : bytes) (crashed err : bool) (nvec : Z) (vec0 : bytes) (rss_kb base_kb : Z)
| KPipe (what : string) (file : bytes) (crashed : bool) (rss_kb base_kb : Z)   (* the bytes of [file] delivered through a named pipe *)
| KCos (a b : list float) (ab ba : float)
| KStage (without with_index no_index_again : list eres) (sims : option (list float)).

Definition is_err {A} (p : pres A) : bool := match p with PErr _ => true | POk _ => false end.

(* resident memory the load added, against a budget proportional to the file: 64 bytes per file byte + 48 MiB of slack for the Go runtime *)
Definition memory_ok (file : bytes) (rss_kb base_kb : Z) : bool :=
  ((rss_kb - base_kb) * 1024 <=? 64 * Z.of_nat (List.length file) + 48 * 1024 * 1024)%Z.

Definition distinct_count (l : list bytes) : Z := Z.of_nat (List.length (dedup [] l)).

Definition to_res (l : list eres) : list (nat * float) := map (fun x => (Z.to_nat (fst x), snd x)) l.

Definition check_case (c : case19) : report :=
  match c with
  | KWv file crashed err nvec rss base =>
      let '(m, alloc) := load_word_vectors file in
      let v := if crashed then VPredFail "loader_crash/wv"
               else if negb (memory_ok file rss base) then VPredFail "memory/wv"
               else if negb (Bool.eqb err (is_err m)) then VMismatch "wv/error"
               else match m with POk ws => if Z.eqb nvec (distinct_count (map fst ws)) then VOk else VMismatch "wv/count" | _ => VOk end in
      {| r_verdict := v; r_trivial := false; r_tags := ["wv"; if err then "rejected" else "loaded"] |}
  | KCe file crashed err nvec vec0 rss base =>
      let '(m, alloc) := load_command_embeddings file in
      let v := if crashed then VPredFail "loader_crash/ce"
               else if negb (memory_ok file rss base) then VPredFail "memory/ce"
               else if negb (Bool.eqb err (is_err m)) then VMismatch "ce/error"
               else match m with
                    | POk es => if Z.eqb nvec (Z.of_nat (List.length es)) && match es with e0 :: _ => bytes_eqb e0 vec0 | [] => true end then VOk else VMismatch "ce/content"
                    | _ => VOk end in
      {| r_verdict := v; r_trivial := false; r_tags := ["ce"; if err then "rejected" else "loaded"] |}
  | KPipe what file crashed rss base =>
      {| r_verdict := if crashed then VPredFail ("loader_crash/pipe/" ++ what)
                      else if negb (memory_ok file rss base) then VPredFail ("memory/pipe/" ++ what) else VOk;
         r_trivial := false; r_tags := ["pipe"; what] |}
  | KCos a b ab ba =>
      let zero_case := negb (Nat.eqb (List.length a) (List.length b)) || Nat.eqb (List.length a) 0 ||
                       forallb (fun x => PrimFloat.eqb x 0) a || forallb (fun x => PrimFloat.eqb x 0) b in
      let v := if negb (score_eqb ab ba) then VPredFail "cosine_symmetric"
               else if negb (PrimFloat.leb (-1) ab && PrimFloat.leb ab 1) then VPredFail "cosine_range"
               else if zero_case && negb (PrimFloat.eqb ab 0) then VPredFail "cosine_zero_cases"
               else if score_eqb (cosine a b) ab then VOk else VMismatch "cosine" in
      {| r_verdict := v; r_trivial := zero_case; r_tags := ["cos"] |}
  | KStage without withi again sims =>
      let cap := (1 + semantic_alpha * 1)%float in
      let raised := forallb (fun x => match find (fun y => Z.eqb (fst y) (fst x)) without with
                                      | Some y => PrimFloat.leb (snd y) (snd x) && PrimFloat.leb (snd x) (snd y * cap)%float
                                      | None => false end) withi in
      let v := if negb (results_eqb without again) then VPredFail "no_index_no_effect"
               else if negb (Nat.eqb (List.length withi) (List.length without)) then VPredFail "stage_same_candidates"
               else if negb raised then VPredFail "stage_only_raises_bounded"
               else if negb (non_increasing (map snd withi)) then VPredFail "stage_keeps_order"
               else if results_eqb (to_eres (semantic_stage sims (to_res without))) withi then VOk else VMismatch "semantic_stage" in
      {| r_verdict := v; r_trivial := match sims with None => true | Some _ => match without with [] => true | _ => false end end;
         r_tags := ["stage"; match sims with Some _ => "embedded" | None => "no-embedding" end] |}
  end.

Definition check_cases (l : list case19) : list string := render (map check_case l).
