(* Shared types of the engine checkers: results as (document index, binary64 score). *)
From Coq Require Import List String ZArith NArith Bool Floats.
From WTF Require Import Model.Validate Check.Render.
Import ListNotations.

Definition bytes := list N.
Definition eres := (Z * float)%type.          (* document index (-1: not an entry of the database), score *)

(* bit-level equality of scores: both NaN, or equal and of the same sign of zero *)
Definition score_eqb (a b : float) : bool :=
  match PrimFloat.classify a, PrimFloat.classify b with
  | NaN, NaN => true
  | NaN, _ | _, NaN => false
  | _, _ => PrimFloat.eqb a b && Bool.eqb (PrimFloat.ltb (PrimFloat.div 1 a) 0) (PrimFloat.ltb (PrimFloat.div 1 b) 0)
  end.

Definition eres_eqb (a b : eres) : bool := Z.eqb (fst a) (fst b) && score_eqb (snd a) (snd b).
Definition results_eqb (a b : list eres) : bool := list_eqb eres_eqb a b.

Definition all_equal {A} (eqb : A -> A -> bool) (l : list A) : bool :=
  match l with [] => true | x :: r => forallb (eqb x) r end.

Definition is_finite (f : float) : bool :=
  match PrimFloat.classify f with NaN | PInf | NInf => false | _ => true end.
