From Coq Require Import List String ZArith NArith Bool Floats.
From WTF Require Import Model.Validate Check.Render Check.EngineTypes.
Import ListNotations.
Open Scope string_scope.

(* observations only: the property is relational on the implementation's outputs *)
Record case02 := { c_runs : list (list eres); c_sugg : list (list bytes); c_kind : string }.

Definition tie_cut (r : list eres) : bool :=
  (* the answer contains two equal scores: a tie was ordered *)
  (fix go l := match l with
               | a :: ((b :: _) as t) => score_eqb (snd a) (snd b) || go t
               | _ => false end) r.

Definition check_case (c : case02) : report :=
  let v := if negb (all_equal results_eqb (c_runs c)) then VPredFail "same_answer"
           else if negb (all_equal (list_eqb bytes_eqb) (c_sugg c)) then VPredFail "same_suggestions"
           else VOk in
  {| r_verdict := v;
     r_trivial := match c_runs c with [] :: _ => true | [] => true | _ => false end;
     r_tags := [c_kind c] ++ (match c_runs c with r :: _ => if tie_cut r then ["tie"] else [] | _ => [] end) |}.

Definition check_cases (l : list case02) : list string := render (map check_case l).
