From Coq Require Import List String ZArith NArith Bool QArith Qround.
From WTF Require Import Model.Validate Model.Text Model.Retry Check.Render.
Import ListNotations.
Open Scope string_scope.

Record case15 := {
  k_main : access bytes; k_personal : access bytes; k_cfg : rcfg; k_embedded : list bytes; k_minimal : list bytes;
  k_main_kind : string;
  k_nil : bool; k_err : bool; k_db : list bytes; k_attempts : Z; k_gaps : list Z; k_delays : list Z; k_searched : bool }.

Definition qfloor (q : Q) : Z := Qfloor q.

Fixpoint nondecr (l : list Z) : bool :=
  match l with a :: ((b :: _) as r) => (a <=? b)%Z && nondecr r | _ => true end.

(* the attempts whose computed wait is compared (consecutive at first: they are aligned with the observed gaps) *)
Definition delay_ks : list nat := [1; 2; 3; 4; 5; 8; 13; 20; 39; 40; 64; 65; 100; 600; 1100]%nat.

Definition check_case (c : case15) : report :=
  let faults := fun _ : nat => (k_main c, k_personal c) in
  let '(mdb, mn, mws) := load_with_fallback bytes (k_embedded c) (k_cfg c) faults in
  let real_possible := match k_main c, k_personal c with AOk _, AOk _ | AOk _, ANotExist => true | _, _ => false end in
  let real := match k_main c, k_personal c with AOk m, AOk p => (m ++ p)%list | AOk m, _ => m | _, _ => [] end in
  let once := match k_main c, k_personal c with
              | ANotExist, _ | APermission, _ => true
              | AOk _, APermission => true
              | _, _ => false end in
  let maxatt := Z.max 1 (r_attempts (k_cfg c)) in
  let factor_ge_1 := Qle_bool 1 (r_factor (k_cfg c)) in
  let cap := qfloor (r_max (k_cfg c)) in
  let pred :=
    if k_nil c || k_err c then Some "load_total"
    else if negb (k_searched c) then Some "searchable"
    else if real_possible && negb (list_eqb bytes_eqb (k_db c) real) then Some "real_when_possible"
    else if negb real_possible && (match k_db c with [] => true | _ => false end) then Some "nonempty_fallback"
    else if negb real_possible && negb (list_eqb bytes_eqb (k_db c) (k_embedded c) || list_eqb bytes_eqb (k_db c) (k_minimal c)) then Some "builtin_fallback"
    else if once && negb (Z.eqb (k_attempts c) 1) then Some "tried_once"
    else if negb (1 <=? k_attempts c)%Z || negb (k_attempts c <=? maxatt)%Z then Some "attempts_bound"
    else if negb (forallb (fun d => (0 <=? d)%Z && (d <=? Z.max cap 0)%Z) (k_delays c)) then Some "delay_capped"
    else if factor_ge_1 && negb (nondecr (k_delays c)) then Some "delay_monotone"
    else if negb (list_eqb2 (fun g d => (d <=? g)%Z) (k_gaps c) (firstn (List.length (k_gaps c)) (k_delays c))) then Some "waits_between_attempts"
    else None in
  let same := list_eqb bytes_eqb (k_db c) mdb && Z.eqb (k_attempts c) (Z.of_nat mn) &&
              list_eqb Z.eqb (k_delays c) (map (fun k => qfloor (delay (k_cfg c) k)) delay_ks) in
  {| r_verdict := match pred with Some cl => VPredFail cl | None => if same then VOk else VMismatch "load_with_fallback" end;
     r_trivial := false;
     r_tags := [k_main_kind c] ++ (if (1 <? k_attempts c)%Z then ["retried"] else []) |}.

Definition check_cases (l : list case15) : list string := render (map check_case l).
