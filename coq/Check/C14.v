From Coq Require Import List String ZArith NArith Bool.
From WTF Require Import Model.Validate Spec.ValidateSpec Check.Render.
Import ListNotations.
Open Scope string_scope.

Inductive case14 :=
| CQ (q : list N) (obs : vres (list N)) (obs2 : option (vres (list N)))  (* obs2: validation of the accepted output *)
| CL (deflt : Z) (n : Z) (obs : vres Z).

Definition verr_eqb (a b : verr) : bool :=
  match a, b with EEmpty, EEmpty | ETooLong, ETooLong | EInvalidChars, EInvalidChars | ELimit, ELimit => true | _, _ => false end.
Definition vres_eqb {A} (eqb : A -> A -> bool) (a b : vres A) : bool :=
  match a, b with ROk x, ROk y => eqb x y | RErr x, RErr y => verr_eqb x y | _, _ => false end.

Definition pred_q (q : list N) (r : vres (list N)) (r2 : option (vres (list N))) : option string :=
  let acc := match r with ROk _ => true | _ => false end in
  if negb (Bool.eqb acc (accept_spec q)) then Some "accept_iff"
  else match r with
       | RErr _ => None
       | ROk c => if negb (clean_spec q c) then Some "clean"
                  else match r2 with
                       | Some (ROk c2) => if bytes_eqb c c2 then None else Some "idempotent"
                       | Some (RErr _) => Some "idempotent"
                       | None => None
                       end
       end.

Definition check_case (c : case14) : report :=
  match c with
  | CQ q obs obs2 =>
      let m := validate_query q in
      let m2 := match m with ROk c => Some (validate_query c) | _ => None end in
      let v := match pred_q q obs obs2 with
               | Some cl => VPredFail cl
               | None => match pred_q q m m2 with
                         | Some cl => VModelPredFail cl
                         | None => if vres_eqb bytes_eqb m obs then VOk else VMismatch "validate_query"
                         end
               end in
      {| r_verdict := v;
         r_trivial := match obs with RErr EEmpty => true | _ => false end;
         r_tags := [match obs with ROk _ => "accepted" | RErr EEmpty => "empty" | RErr ETooLong => "toolong"
                               | RErr EInvalidChars => "invalidchars" | RErr ELimit => "limit" end] ++
                   (if existsb is_bad (decode q) then ["invalid-utf8"] else []) |}
  | CL d n obs =>
      let m := validate_limit d n in
      let v := if negb (limit_spec n obs) then VPredFail "limit_range"
               else if negb (limit_spec n m) then VModelPredFail "limit_range"
               else if vres_eqb Z.eqb m obs then VOk else VMismatch "validate_limit" in
      {| r_verdict := v; r_trivial := false; r_tags := ["limit"] |}
  end.

Definition check_cases (l : list case14) : list string := render (map check_case l).
