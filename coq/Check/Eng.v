(* Shared engine cases: the model evaluated on what the real code ran on, and the property
   predicates (C01 C04 C06 C07 C13 C20) evaluated on what the real code returned. *)
From Coq Require Import List String ZArith NArith Bool Floats.
From WTF Require Import Model.Tfidf Model.Fuzzy Model.Nlp Model.Validate Model.Text Model.Platform Model.Engine Model.Legacy Check.Render Check.EngineTypes.
Import ListNotations.
Open Scope string_scope.

Record ecase := {
  k_stop : list bytes; k_tools : list bytes; k_host : bytes; k_params : params;
  k_idf : list float;                 (* idf(n, df) for df = 0..n *)
  k_fuzzy : list (option Z);
  k_cmds : list command; k_q : bytes; k_opts : options; k_nlp : nlp_info;
  k_obs : list eres;
  k_extra : list (string * list eres);
  k_recased : bytes;
  k_nlp_keywords : list bytes;        (* ProcessQuery(...).Keywords: the keywords extracted from the user's own text *)
  k_nlp_sig : list bytes; k_nlp_sig2 : list bytes;  (* the whole analysis, flattened, from two analyses of the same text *)
  k_doc_toks : list (list bytes); k_q_toks : list bytes; k_logt : list float;  (* inputs of the TF-IDF model *)
  k_tabs : tables; k_words : list bytes; k_qlower : bytes;                      (* inputs of the NLP model (Model/Nlp.v) *)
  k_nlp_intent : intent; k_nlp_hints : list bytes;                              (* observed: intent and command hints *)
  k_legacy : list float;      (* calculateScore per entry for the query's word list and the context boosts: oracle of Model/Legacy.v *)
  k_legacy_words : list bytes (* strings.Fields(strings.ToLower(query)) as the code computed it *)
}.

Definition env_of (c : ecase) : env :=
  {| e_stop := k_stop c; e_tools := k_tools c; e_host := k_host c; e_params := k_params c;
     e_idf := fun _ d => nth (Z.to_nat d) (k_idf c) nan; e_fuzzy := k_fuzzy c |}.

Definition to_eres (r : list (nat * float)) : list eres := map (fun x => (Z.of_nat (fst x), snd x)) r.

Definition extra (c : ecase) (name : string) : option (list eres) :=
  match find (fun x => String.eqb (fst x) name) (k_extra c) with Some x => Some (snd x) | None => None end.

Definition with_opts (o : options) (limit : option Z) (fuzzy nlp : option bool) (drop_boosts : bool) : options :=
  {| o_limit := match limit with Some l => l | None => o_limit o end;
     o_boosts := if drop_boosts then [] else o_boosts o; o_pipeline_only := o_pipeline_only o;
     o_pipeline_boost := o_pipeline_boost o;
     o_fuzzy := match fuzzy with Some b => b | None => o_fuzzy o end; o_threshold := o_threshold o;
     o_nlp := match nlp with Some b => b | None => o_nlp o end;
     o_terms_cap := o_terms_cap o; o_all_platforms := o_all_platforms o; o_platforms := o_platforms o; o_no_cross := o_no_cross o |}.

(* the NLP information the engine model runs on: per-document multipliers and the analysis come from the code (oracles),
   the TF-IDF ranking is COMPUTED by Model/Tfidf.v from the tokenizer's output (it is compared with the code's in tfidf_agrees) *)
(* the analysis of the query computed by Model/Nlp.v from the cleaned words and the lower-cased text *)
Definition model_analysis (c : ecase) : analysis := process_query (k_tabs c) (k_words c) (k_qlower c).

(* ... against what ProcessQuery / getCommandHints / GetEnhancedKeywords returned *)
Definition nlp_agrees (c : ecase) : bool :=
  let a := model_analysis c in
  list_eqb bytes_eqb (a_actions a) (n_actions (k_nlp c)) && list_eqb bytes_eqb (a_targets a) (n_targets (k_nlp c)) &&
  list_eqb bytes_eqb (a_keywords a) (k_nlp_keywords c) && intent_eqb (a_intent a) (k_nlp_intent c) &&
  list_eqb bytes_eqb (command_hints a) (k_nlp_hints c) && list_eqb bytes_eqb (enhanced_keywords a) (n_enhanced (k_nlp c)).

Definition model_nlp (c : ecase) : nlp_info :=
  let n := k_nlp c in
  let a := model_analysis c in
  {| n_actions := a_actions a; n_targets := a_targets a; n_enhanced := enhanced_keywords a; n_intent_boost := n_intent_boost n;
     n_cooccur := n_cooccur n; n_cascade := n_cascade n;
     n_tfidf := match k_cmds c with
                | [] => None
                | _ => Some (to_eres (tfidf_search (k_doc_toks c) (k_logt c) (k_q_toks c) (Z.of_nat (List.length (k_cmds c)) + 1)))
                end |}.

Definition model (c : ecase) (o : options) : list eres :=
  to_eres (search_universal (env_of c) (k_cmds c) (k_q c) o (Some (model_nlp c))).

Definition big (c : ecase) : Z := (Z.of_nat (List.length (k_cmds c)) + 5)%Z.

(* the TF-IDF ranking the code computed for this query over the database it holds, against Model/Tfidf.v *)
Definition tfidf_agrees (c : ecase) : bool :=
  match n_tfidf (k_nlp c) with
  | None => match k_cmds c with [] => true | _ => false end
  | Some ranking =>
      results_eqb ranking
        (to_eres (tfidf_search (k_doc_toks c) (k_logt c) (k_q_toks c) (Z.of_nat (List.length (k_cmds c)) + 1)))
  end.

(* the raw matcher scores the code's library computed for this query, against the transcription Model/Fuzzy.v
   (ASCII query and texts; other cases keep the library's score as an oracle) *)
Definition fuzzy_agrees (c : ecase) : bool :=
  (* Model/Fuzzy.v computes in Z; the library's Go ints wrap once the adjacency bonus (which triples with every
     consecutive matched rune) passes 2^63, i.e. after 39 consecutive matches: longer patterns keep the oracle *)
  negb (Fuzzy.ascii (k_q c)) || negb (Nat.leb (List.length (k_q c)) 38) ||
  list_eqb2 (fun (d : command) (o : option Z) =>
      let t := (c_cmd d ++ [32%N] ++ c_desc d)%list in
      negb (Fuzzy.ascii t) ||
      match raw_score (k_q c) t with
      | Some r => option_eqb Z.eqb r o
      | None => false
      end) (k_cmds c) (k_fuzzy c).

(* the scan search behind `wtf pipeline` (the "legacy_pipeline" run) against Model/Legacy.v *)
Definition legacy_agrees (c : ecase) : bool :=
  match extra c "legacy_pipeline" with
  | Some obs =>
      Nat.eqb (List.length (k_legacy c)) (List.length (k_cmds c)) &&
      (negb (Fuzzy.ascii (k_q c)) || list_eqb bytes_eqb (legacy_words (k_q c)) (k_legacy_words c)) &&
      results_eqb (to_eres (pipeline_search (fun i => nth i (k_legacy c) nan) (k_cmds c)
                                            (o_pipeline_only (k_opts c)) (o_pipeline_boost (k_opts c)) (o_limit (k_opts c)))) obs
  | None => true
  end.

(* model vs. implementation on the main run and on every paired run *)
Definition mismatch (c : ecase) : option string :=
  if negb (nlp_agrees c) then Some "nlp_analysis" else
  if negb (tfidf_agrees c) then Some "tfidf" else
  if negb (fuzzy_agrees c) then Some "fuzzy_matcher" else
  if negb (legacy_agrees c) then Some "legacy_pipeline" else
  let o := k_opts c in
  let chk (name : string) (oo : options) (obs : option (list eres)) :=
      match obs with
      | Some r => if results_eqb (model c oo) r then None else Some name
      | None => None end in
  match chk "main" o (Some (k_obs c)) with Some s => Some s | None =>
  match chk "fuzzy_off" (with_opts o None (Some false) None false) (extra c "fuzzy_off") with Some s => Some s | None =>
  match chk "fuzzy_on" (with_opts o None (Some true) None false) (extra c "fuzzy_on") with Some s => Some s | None =>
  match chk "fuzzy_after_replace" (with_opts o None (Some true) None false) (extra c "fuzzy_after_replace") with Some s => Some s | None =>
  match chk "nlp_off_big" (with_opts o (Some (big c)) (Some false) (Some false) false) (extra c "nlp_off_big") with Some s => Some s | None =>
  match chk "nlp_on_big" (with_opts o (Some (big c)) (Some false) (Some true) false) (extra c "nlp_on_big") with Some s => Some s | None =>
  match chk "boost_big" (with_opts o (Some (big c)) None None false) (extra c "boost_big") with Some s => Some s | None =>
  match chk "noboost_big" (with_opts o (Some (big c)) None None true) (extra c "noboost_big") with Some s => Some s | None =>
  match chk "cached_after_variants" o (extra c "cached_after_variants") with Some s => Some s | None =>
  chk "cached_after_refresh" o (extra c "cached_after_refresh")
  end end end end end end end end end.

(* which path answered, according to the model *)
Definition path_of (c : ecase) : string :=
  let E := env_of c in let o := eff_limit (k_opts c) in
  let nl := if o_nlp o then Some (k_nlp c) else None in
  match query_terms E (k_q c) o nl with
  | [] => if o_fuzzy o then "fuzzy" else "none"
  | _ => match initial_scores E (k_cmds c) o nl (selected_terms E (k_cmds c) (k_q c) o nl) with
         | [] => if o_fuzzy o then "fuzzy" else "none"
         | _ => if o_nlp o then "nlp" else "lexical" end
  end.

(* ---------------------------------------------------------------- C01 *)

Definition limit_in_force (dflt : Z) (o : options) : Z := if (o_limit o <=? 0)%Z then dflt else o_limit o.

Fixpoint nodup_ids (l : list Z) : bool :=
  match l with [] => true | x :: r => negb (existsb (Z.eqb x) r) && nodup_ids r end.

Fixpoint non_increasing (l : list float) : bool :=
  match l with
  | [] | [_] => true
  | a :: ((b :: _) as r) => PrimFloat.leb b a && non_increasing r
  end.

Definition c01_pred (n : nat) (limit : Z) (r : list eres) : option string :=
  if negb (Z.of_nat (List.length r) <=? limit)%Z then Some "limit"
  else if negb (forallb (fun x => (0 <=? fst x)%Z && (fst x <? Z.of_nat n)%Z) r) then Some "member"
  else if negb (nodup_ids (map fst r)) then Some "duplicate"
  else if negb (forallb (fun x => is_finite (snd x) && PrimFloat.leb 0 (snd x)) r) then Some "score_range"
  else if negb (non_increasing (map snd r)) then Some "order"
  else None.

Definition first_some (l : list (option string)) : option string :=
  fold_right (fun x acc => match x with Some s => Some s | None => acc end) None l.

Definition tag (p : string) (x : option string) : option string :=
  match x with Some s => Some (p ++ "/" ++ s) | None => None end.

Definition c01_check (c : ecase) : option string :=
  let n := List.length (k_cmds c) in let o := k_opts c in
  let on (name : string) (dflt : Z) (lim : option Z) :=
      match extra c name with
      | Some r => tag name (c01_pred n (match lim with Some l => l | None => limit_in_force dflt o end) r)
      | None => None end in
  first_some [ tag (path_of c) (c01_pred n (limit_in_force 10%Z o) (k_obs c));
               on "fuzzy_on" 10%Z None; on "fuzzy_off" 10%Z None; on "cached1" 10%Z None; on "cached2" 10%Z None; on "cached_after_variants" 10%Z None; on "cached_after_refresh" 10%Z None;
               on "legacy_pipeline" 5%Z None; on "search" 10%Z None;
               on "nlp_on_big" 10%Z (Some (big c)); on "nlp_off_big" 10%Z (Some (big c)) ].

(* ---------------------------------------------------------------- C04 *)

(* the property's wording: a returned command either declares no platform, or one of its platforms is a
   platform in force, or (unless cross-platform entries are excluded) it is tagged cross-platform or is a
   recognised cross-platform tool; unless all platforms are requested *)
Definition c04_allowed (c : ecase) (o : options) (d : command) : bool :=
  o_all_platforms o ||
  match c_platform d with
  | [] => true
  | tags =>
    let inforce := match o_platforms o with [] => [k_host c] | l => map canonical_platform l end in
    existsb (fun cur => existsb (fun p => platform_matches p cur) tags) inforce ||
    (negb (o_no_cross o) && (has_cross_tag tags || is_cross_tool (k_tools c) (c_cmd_lc d)))
  end.

Definition c04_pred (c : ecase) (r : list eres) : option string :=
  let o := k_opts c in
  let bad_platform := existsb (fun x => match nth_error (k_cmds c) (Z.to_nat (fst x)) with
                                        | Some d => negb (c04_allowed c o d) | None => false end) r in
  let bad_pipeline := o_pipeline_only o &&
                      existsb (fun x => match nth_error (k_cmds c) (Z.to_nat (fst x)) with
                                        | Some d => negb (pipeline_cmd d) | None => false end) r in
  if bad_platform then Some "platform" else if bad_pipeline then Some "pipeline" else None.

Definition c04_check (c : ecase) : option string :=
  let on (name : string) := match extra c name with Some r => tag name (c04_pred c r) | None => None end in
  first_some [ tag (path_of c) (c04_pred c (k_obs c)); on "fuzzy_on"; on "fuzzy_off"; on "cached1"; on "cached2"; on "cached_after_variants"; on "cached_after_refresh";
               on "nlp_on_big"; on "nlp_off_big"; on "boost_big" ].

(* ---------------------------------------------------------------- C07 *)

Definition fold_byte_eq (a b : N) : bool := N.eqb (lower_byte a) (lower_byte b).

(* the pattern's bytes occur in order in the text, ignoring ASCII case *)
Fixpoint subseq_fold (p t : bytes) : bool :=
  match p with
  | [] => true
  | x :: p' => (fix scan (t : bytes) : bool :=
                  match t with
                  | [] => false
                  | y :: t' => if fold_byte_eq x y then subseq_fold p' t' else scan t'
                  end) t
  end.

Definition fuzzy_text (d : command) : bytes := (c_cmd d ++ [32%N] ++ c_desc d)%list.
Definition ascii_only (s : bytes) : bool := forallb (fun b => N.ltb b 128) s.

Definition c07_one (c : ecase) (run : string) : option string :=
  match extra c "fuzzy_off", extra c run with
  | Some off, Some on =>
      match off with
      | _ :: _ => if results_eqb off on then None else Some "only_when_empty"
      | [] =>
          let o := k_opts c in
          let docs := map (fun x => (nth_error (k_cmds c) (Z.to_nat (fst x)), nth (Z.to_nat (fst x)) (k_fuzzy c) None)) on in
          if negb (forallb (fun d => match fst d with
                                     | Some cmd => negb (ascii_only (k_q c)) || subseq_fold (k_q c) (fuzzy_text cmd)
                                     | None => false end) docs) then Some "genuine_match"
          else if negb (Z.eqb (o_threshold o) 0) &&
                  negb (forallb (fun d => match snd d with Some raw => (o_threshold o <=? raw)%Z | None => false end) docs)
               then Some "threshold"
          else if negb (non_increasing (map snd on)) then Some "best_first"
          else if negb ((fix dec (l : list (option Z)) : bool :=
                           match l with
                           | Some a :: ((Some b :: _) as r) => (b <=? a)%Z && dec r
                           | _ :: r => dec r
                           | [] => true end) (map snd docs))
               then Some "best_match_first"     (* by match quality itself, not only by the clamped score *)
          else if Z.eqb (o_threshold o) 0 && ascii_only (k_q c) && negb (match k_q c with [] => true | _ => false end) &&
                  existsb (fun d => eligible (env_of c) (eff_limit o) d && subseq_fold (k_q c) (fuzzy_text d) &&
                                    ascii_only (fuzzy_text d)) (k_cmds c) &&
                  match on with [] => true | _ => false end
               then Some "never_empty"
          else None
      end
  | _, _ => None
  end.

(* the fallback's answer, asked directly and asked again after the database was replaced by a list of the same size *)
Definition c07_check (c : ecase) : option string :=
  first_some [ c07_one c "fuzzy_on"; tag "fuzzy_after_replace" (c07_one c "fuzzy_after_replace") ].

(* ---------------------------------------------------------------- C06 C13 C20 (relational) *)

Definition ids (r : list eres) : list Z := map fst r.
Definition subset_ids (a b : list Z) : bool := forallb (fun x => existsb (Z.eqb x) b) a.

Definition content_words (c : ecase) : nat := List.length (dedup [] (tokenize (k_stop c) (k_q c))).

Fixpoint nodup_bytes (l : list bytes) : bool :=
  match l with [] => true | x :: r => negb (mem_bytes x r) && nodup_bytes r end.

Fixpoint prefix_bytes (p l : list bytes) : bool :=
  match p, l with
  | [], _ => true
  | x :: p', y :: l' => bytes_eqb x y && prefix_bytes p' l'
  | _ :: _, [] => false
  end.

(* the analysis itself (ProcessQuery / GetEnhancedKeywords output for this query) *)
Definition c06_analysis (c : ecase) : option string :=
  let enh := n_enhanced (k_nlp c) in
  if negb (prefix_bytes (dedup [] (k_nlp_keywords c)) enh) then Some "keywords_first"
  (* ... the keywords being the user's own words by the documented rule (every typed word that is neither a stop word nor an
     action word, target nouns included), whatever the implementation recorded as its keyword list *)
  else if negb (prefix_bytes (a_keywords (model_analysis c)) enh) then Some "keywords_first/own_words"
  else if negb (nodup_bytes enh) then Some "no_duplicates"
  else if negb (list_eqb bytes_eqb (k_nlp_sig c) (k_nlp_sig2 c)) then Some "same_analysis_twice"
  else None.

(* however long the query is, a command that contains one of its first four content words (with a usable idf) and passes
   the filters is among the answers with enhancement on, at a limit that cuts nothing *)
Definition c06_first_four (c : ecase) : option string :=
  match extra c "nlp_on_big" with
  | Some on =>
      let E := env_of c in
      let o := with_opts (k_opts c) (Some (big c)) (Some false) (Some true) false in
      let n := Z.of_nat (List.length (k_cmds c)) in
      let first4 := firstn 4 (tokenize (k_stop c) (k_q c)) in     (* the first four content words AS TYPED (a repeated word counts twice) *)
      let hits := fun (d : command) (t : bytes) =>
        tf_any (doc_tf E d t) && negb (PrimFloat.ltb (e_idf E n (df E (k_cmds c) t)) (p_min_idf (e_params E))) in
      if existsb (fun ic : nat * command => eligible E o (snd ic) && existsb (hits (snd ic)) first4 &&
                                            negb (existsb (Z.eqb (Z.of_nat (fst ic))) (ids on)))
                 (enumerate 0 (k_cmds c))
      then Some "first_four_retained" else None
  | None => None
  end.

Definition c06_check (c : ecase) : option string :=
  match c06_analysis c with Some s => Some s | None =>
  match c06_first_four c with Some s => Some s | None =>
  match extra c "nlp_off_big", extra c "nlp_on_big" with
  | Some off, Some on =>
      if Nat.leb (content_words c) 10 && (o_terms_cap (k_opts c) <=? 0)%Z && negb (subset_ids (ids off) (ids on))
      then Some "superset" else None
  | _, _ => None
  end end end.

Definition score_of (r : list eres) (i : Z) : option float :=
  match find (fun x => Z.eqb (fst x) i) r with Some x => Some (snd x) | None => None end.

Definition c13_check (c : ecase) : option string :=
  match extra c "noboost_big", extra c "boost_big" with
  | Some nb, Some b =>
      if negb (subset_ids (ids nb) (ids b) && subset_ids (ids b) (ids nb)) then Some "same_candidates"
      else
        (* at a limit that cuts nothing: a command that contains a boosted word never scores lower with the boosts,
           a command that contains none of them scores exactly the same *)
        let E := env_of c in
        let words := map fst (o_boosts (k_opts c)) in
        let contains := fun i : Z => match nth_error (k_cmds c) (Z.to_nat i) with
                                     | Some d => existsb (fun w => tf_any (doc_tf E d w)) words | None => false end in
        let pair := fun x : eres => find (fun y : eres => Z.eqb (fst y) (fst x)) nb in
        if existsb (fun x => match pair x with Some y => contains (fst x) && PrimFloat.ltb (snd x) (snd y) | None => false end) b
        then Some "boost_never_lowers"
        else if existsb (fun x => match pair x with Some y => negb (contains (fst x)) && negb (score_eqb (snd x) (snd y)) | None => false end) b
        then Some "boost_local"
        else None
  | _, _ => None
  end.

Definition same_pair (c : ecase) (a b clause : string) : option string :=
  match extra c a, extra c b with
  | Some x, Some y => if results_eqb x y then None else Some clause
  | _, _ => None
  end.

Definition c20_check (c : ecase) : option string :=
  first_some [ match extra c "recased" with
               | Some r => if results_eqb r (k_obs c) then None else Some "case_invariant"
               | None => None
               end;
               (* the pipeline search and the search with a semantic index attached, asked again in capitals and with other blanks *)
               same_pair c "pipe_phrase" "pipe_phrase_respelled" "pipeline_search_spelling_invariant";
               same_pair c "emb" "emb_respelled" "semantic_stage_case_invariant" ].

(* ---------------------------------------------------------------- reports *)

Definition report_for (prop : string) (c : ecase) : report :=
  let p := if String.eqb prop "C01" then c01_check c
           else if String.eqb prop "C04" then c04_check c
           else if String.eqb prop "C06" then c06_check c
           else if String.eqb prop "C07" then c07_check c
           else if String.eqb prop "C13" then c13_check c
           else if String.eqb prop "C20" then c20_check c
           else None in
  let v := match p with
           | Some cl => VPredFail cl
           | None => match mismatch c with Some w => VMismatch w | None => VOk end
           end in
  {| r_verdict := v;
     r_trivial := match k_obs c with [] => true | _ => false end;
     r_tags := [path_of c] |}.

Definition check_cases (prop : string) (l : list ecase) : list string := render (map (report_for prop) l).
