(* C01, recovery family: RecoverFromSearchFailure on generated databases vs Model/Recovery.v, and the property's
   clauses (member, no duplicate, finite non-negative scores, non-increasing order) on the implementation's answer. *)
From Coq Require Import List String ZArith NArith Bool Floats.
From WTF Require Import Model.Validate Model.Text Model.Engine Model.Recovery Check.Render Check.EngineTypes.
Import ListNotations.
Open Scope string_scope.

Record reccase := { y_db : list rentry; y_qlc : bytes; y_err : bool; y_panic : bool; y_res : list eres; y_res_recased : list eres }.

Fixpoint nodup_z (l : list Z) : bool := match l with [] => true | x :: r => negb (existsb (Z.eqb x) r) && nodup_z r end.
Fixpoint non_incr (l : list float) : bool :=
  match l with [] | [_] => true | a :: ((b :: _) as r) => PrimFloat.leb b a && non_incr r end.
Definition finite_nonneg (s : float) : bool := PrimFloat.leb 0 s && PrimFloat.ltb s infinity.

Definition check_case (c : reccase) : report :=
  let n := Z.of_nat (List.length (y_db c)) in
  let pred :=
    if y_panic c then Some "crash"
    else if negb (forallb (fun x => (0 <=? fst x)%Z && (fst x <? n)%Z) (y_res c)) then Some "recovery/member"
    else if negb (nodup_z (map fst (y_res c))) then Some "recovery/duplicate"
    else if negb (forallb (fun x => finite_nonneg (snd x)) (y_res c)) then Some "recovery/score_range"
    else if negb (non_incr (map snd (y_res c))) then Some "recovery/order"
    else None in
  let m := recover (y_qlc c) (y_db c) in
  let same := match m with
              | Some r => negb (y_err c) && results_eqb (map (fun x => (Z.of_nat (fst x), snd x)) r) (y_res c)
              | None => y_err c && match y_res c with [] => true | _ => false end
              end in
  {| r_verdict := match pred with Some cl => VPredFail cl | None => if same then VOk else VMismatch "recovery" end;
     r_trivial := match y_res c with [] => true | _ => false end;
     r_tags := ["recovery"] ++ (match m with
                                | Some ((_, s) :: _) => if PrimFloat.eqb s 1 then ["basic"] else if PrimFloat.ltb s 0.7 then ["partial"] else ["first_word"]
                                | _ => ["nothing"] end) |}.

Definition check_cases (l : list reccase) : list string := render (map check_case l).

(* C20's view of the same runs: the recovery search gives the same answer to a re-cased spelling of the query *)
Definition check_recased (c : reccase) : report :=
  {| r_verdict := if results_eqb (y_res c) (y_res_recased c) then VOk else VPredFail "recovery_case_invariant";
     r_trivial := match y_res c with [] => true | _ => false end; r_tags := ["recovery-recased"] |}.
Definition check_recased_cases (l : list reccase) : list string := render (map check_recased l).
