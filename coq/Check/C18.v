From Coq Require Import List String ZArith NArith Bool Floats.
From WTF Require Import Model.Validate Model.Metrics Check.Render.
Import ListNotations.
Open Scope string_scope.

Inductive case18 :=
| KId (lookups : list (bytes * tagmap * N))                         (* name, tags in iteration order, observed pointer class *)
| KCount (ops : list cop) (obs : list (bytes * tagmap * Z))          (* final value of the series of each identity *)
| KHist (bs : list float) (vals : list float) (cnt : Z) (sum : float) (cs : list Z)
        (pcts : list (float * float))                                (* (p, observed percentile), p ascending *)
        (exported : list (float * float))                            (* (p, value) the collector exports for a histogram fed the same observations *)
        (exp_count exp_sum : option float)
| KMon (ops : list mop) (totals : list (bytes * Z)) (series : list (bytes * Z)).  (* per name: sum of values; number of series *)

Definition id_of (x : bytes * tagmap * N) : ident := metric_id (fst (fst x)) (snd (fst x)).

(* same identity <-> same metric *)
Definition id_pairs_ok (l : list (bytes * tagmap * N)) : option string :=
  let bad_same := existsb (fun a => existsb (fun b => ident_eqb (id_of a) (id_of b) && negb (N.eqb (snd a) (snd b))) l) l in
  let bad_diff := existsb (fun a => existsb (fun b => negb (ident_eqb (id_of a) (id_of b)) && N.eqb (snd a) (snd b)) l) l in
  if bad_same then Some "same_identity_same_metric" else if bad_diff then Some "distinct_identities_distinct_metrics" else None.

Definition spec_count (i : ident) (ops : list cop) : Z :=
  fold_left (fun a o => if ident_eqb (cop_id o) i then (a + cop_amount o)%Z else a) ops 0%Z.

Definition float_list_eqb := list_eqb PrimFloat.eqb.

Fixpoint nondecreasing (l : list float) : bool :=
  match l with
  | [] | [_] => true
  | a :: ((b :: _) as r) => PrimFloat.leb a b && nondecreasing r
  end.

Definition sumZ (l : list Z) : Z := fold_left Z.add l 0%Z.

Definition count_m (f : mop -> bool) (l : list mop) : Z := Z.of_nat (List.length (filter f l)).
Definition is_search (o : mop) := match o with MSearch _ => true | _ => false end.
Definition is_hit (o : mop) := match o with MSearch true => true | _ => false end.
Definition is_db (o : mop) := match o with MDb _ _ _ => true | _ => false end.

Definition lookupZ (n : bytes) (l : list (bytes * Z)) : Z :=
  match find (fun x => bytes_eqb (fst x) n) l with Some x => snd x | None => 0%Z end.

Fixpoint distinct_ids (seen : list ident) (l : list ident) : Z :=
  match l with
  | [] => 0%Z
  | i :: r => if existsb (ident_eqb i) seen then distinct_ids seen r else (1 + distinct_ids (i :: seen) r)%Z
  end.

Definition check_case (c : case18) : report :=
  match c with
  | KId l =>
      {| r_verdict := match id_pairs_ok l with Some cl => VPredFail cl | None => VOk end;
         r_trivial := negb (existsb (fun x => Nat.ltb 1 (List.length (snd (fst x)))) l);
         r_tags := ["identity"] |}
  | KCount ops obs =>
      let reg := crun ops in
      let bad_pred := existsb (fun x => negb (Z.eqb (snd x) (spec_count (id_of (fst x, 0%N)) ops))) obs in
      let bad_model := existsb (fun x => negb (Z.eqb (snd x) (cvalue (id_of (fst x, 0%N)) reg))) obs in
      {| r_verdict := if bad_pred then VPredFail "counter_exact" else if bad_model then VMismatch "counter" else VOk;
         r_trivial := match ops with [] => true | _ => false end; r_tags := ["counter"] |}
  | KHist bs vals cnt sum cs pcts exported exp_count exp_sum =>
      let h := fold_left observe vals (hist_new bs) in
      let pred :=
        if negb (Z.eqb cnt (Z.of_nat (List.length vals))) then Some "hist_count"
        else if negb (Z.eqb (sumZ cs) cnt) then Some "hist_buckets"
        else if negb (nondecreasing (map snd pcts)) then Some "percentile_monotone"
        else
          (* the sum is the sum of the observations: whatever the order of the additions, it is within rounding of the
             in-order binary64 sum (1e-9 relative to the total magnitude) *)
          let mag := fold_left (fun a v => (a + PrimFloat.abs v)%float) vals 1%float in
          let err := PrimFloat.abs (sum - hsum h)%float in
          if PrimFloat.ltb (mag * 0x1.12e0be826d695p-30)%float err || negb (PrimFloat.eqb err err) && PrimFloat.eqb (hsum h) (hsum h)
          then Some "hist_sum_exact"
          (* what the collector exports for the series is what the histogram itself reports *)
          else if negb (forallb (fun e => match find (fun pv => PrimFloat.eqb (fst pv) (fst e)) pcts with
                                          | Some pv => PrimFloat.eqb (snd pv) (snd e) | None => true end) exported)
          then Some "exported_percentile_is_the_histograms"
          else if match exp_count with Some x => negb (PrimFloat.eqb x (PrimFloat.of_uint63 (Uint63.of_Z cnt))) | None => false end
          then Some "exported_count"
          else if match exp_sum with Some x => negb (PrimFloat.eqb x sum) && PrimFloat.eqb sum sum | None => false end
          then Some "exported_sum"
          else None in
      let same := Z.eqb (hcount h) cnt && PrimFloat.eqb (hsum h) sum &&
                  list_eqb Z.eqb (counts h ++ [overflow h]) cs &&
                  forallb (fun pv => PrimFloat.eqb (percentile h (fst pv)) (snd pv)) pcts in
      {| r_verdict := match pred with Some cl => VPredFail cl | None => if same then VOk else VMismatch "histogram" end;
         r_trivial := match vals with [] => true | _ => false end; r_tags := ["histogram"] |}
  | KMon ops totals series =>
      let reg := mrun ops in
      let ns := count_m is_search ops in let nh := count_m is_hit ops in let nd := count_m is_db ops in
      let pred :=
        if negb (Z.eqb (lookupZ n_searches_total totals) ns) then Some "searches_total"
        else if negb (Z.eqb (lookupZ n_cache_hits_total totals + lookupZ n_cache_misses_total totals) ns) then Some "hits_plus_misses"
        else if negb (Z.eqb (lookupZ n_cache_hits_total totals) nh) then Some "hits"
        else if negb (Z.eqb (lookupZ n_db_ops_total totals) nd) then Some "db_total"
        else if negb (Z.eqb (lookupZ n_db_ops_total series)
                            (distinct_ids [] (map cop_id (flat_map mop_cops (filter is_db ops))))) then Some "one_series_per_identity"
        else None in
      let same := forallb (fun x => Z.eqb (snd x) (total_named (fst x) reg)) totals in
      {| r_verdict := match pred with Some cl => VPredFail cl | None => if same then VOk else VMismatch "monitor" end;
         r_trivial := match ops with [] => true | _ => false end; r_tags := ["monitor"] |}
  end.

Definition check_cases (l : list case18) : list string := render (map check_case l).
