From Coq Require Import List String ZArith NArith Bool.
From WTF Require Import Model.Lru Model.Conc Check.Render.
Import ListNotations.
Open Scope string_scope.

Inductive case11 :=
| KTable (t : list access)
| KStress (race_reports : Z) (calls mismatches recorded counter_sum hit_miss_sum hit_miss_expected lost_live size_over : Z)
| KLru (cap : Z) (h : list lev) (overlap : bool).

Definition acc_name (a : access) : string := a_type a ++ "." ++ a_method a ++ "." ++ a_field a.

(* the hypothesis of the interleaving theorems: each call body of the cache is ONE critical section. The walker emits a
   pseudo-access "<acquire>" per lock acquisition (helpers inlined); a cache method with two of them checks and acts in
   separate sections *)
Definition acquisitions (t : list access) (ty m : string) : nat :=
  List.length (filter (fun a => String.eqb (a_field a) "<acquire>" && String.eqb (a_type a) ty && String.eqb (a_method a) m) t).
Definition split_body (t : list access) : option access :=
  find (fun a => String.eqb (a_field a) "<acquire>" && String.eqb (a_type a) "LRUCache" &&
                 negb (Nat.eqb (acquisitions t (a_type a) (a_method a)) 1)) t.

Definition check_case (c : case11) : report :=
  match c with
  | KTable t =>
      {| r_verdict := if well_locked t then
                        match split_body t with
                        | Some a => VMismatch ("one_critical_section/" ++ a_type a ++ "." ++ a_method a)
                        | None => VOk end
                      else match first_conflict t with
                           | Some (a, b) => VPredFail ("lock_discipline/" ++ acc_name a ++ "~" ++ acc_name b)
                           | None => VPredFail "lock_discipline" end;
         r_trivial := false; r_tags := ["table"] |}
  | KStress races calls mism mon csum hmsum hmexp lost over =>
      {| r_verdict := if negb (Z.eqb races 0) then VPredFail "data_race"
                      else if negb (Z.eqb mism 0) then VPredFail "answers_as_if_alone"
                      else if negb (Z.eqb csum mon) then VPredFail "no_lost_increment"
                      else if negb (Z.eqb hmsum hmexp) then VPredFail "hits_plus_misses"
                      else if negb (Z.eqb lost 0) then VPredFail "sweep_removes_only_expired"
                      else if negb (Z.eqb over 0) then VPredFail "size_within_capacity"
                      else VOk;
         r_trivial := false; r_tags := ["stress"] |}
  | KLru cap h overlap =>
      {| r_verdict := if linearizable cap h then VOk else VPredFail "lru_linearizable";
         r_trivial := negb overlap; r_tags := ["lru"] ++ (if overlap then ["overlap"] else []) |}
  end.

Definition check_cases (l : list case11) : list string := render (map check_case l).
