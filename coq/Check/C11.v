From Coq Require Import List String ZArith NArith Bool.
From WTF Require Import Model.Lru Model.Conc Check.Render.
Import ListNotations.
Open Scope string_scope.

Inductive case11 :=
| KTable (t : list access)
| KStress (race_reports : Z) (calls mismatches recorded counter_sum hit_miss_sum hit_miss_expected : Z)
| KLru (cap : Z) (h : list lev) (overlap : bool).

Definition acc_name (a : access) : string := a_type a ++ "." ++ a_method a ++ "." ++ a_field a.

Definition check_case (c : case11) : report :=
  match c with
  | KTable t =>
      {| r_verdict := if well_locked t then VOk
                      else match first_conflict t with
                           | Some (a, b) => VPredFail ("lock_discipline/" ++ acc_name a ++ "~" ++ acc_name b)
                           | None => VPredFail "lock_discipline" end;
         r_trivial := false; r_tags := ["table"] |}
  | KStress races calls mism mon csum hmsum hmexp =>
      {| r_verdict := if negb (Z.eqb races 0) then VPredFail "data_race"
                      else if negb (Z.eqb mism 0) then VPredFail "answers_as_if_alone"
                      else if negb (Z.eqb csum mon) then VPredFail "no_lost_increment"
                      else if negb (Z.eqb hmsum hmexp) then VPredFail "hits_plus_misses"
                      else VOk;
         r_trivial := false; r_tags := ["stress"] |}
  | KLru cap h overlap =>
      {| r_verdict := if linearizable cap h then VOk else VPredFail "lru_linearizable";
         r_trivial := negb overlap; r_tags := ["lru"] ++ (if overlap then ["overlap"] else []) |}
  end.

Definition check_cases (l : list case11) : list string := render (map check_case l).
