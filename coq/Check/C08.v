From Coq Require Import List String ZArith NArith Bool.
From WTF Require Import Model.Validate Model.Text Model.Save Check.Render.
Import ListNotations.
Open Scope string_scope.

Definition nentry_eqb (a b : nentry) : bool :=
  bytes_eqb (n_cmd a) (n_cmd b) && bytes_eqb (n_desc a) (n_desc b) && list_eqb bytes_eqb (n_keys a) (n_keys b) && list_eqb bytes_eqb (n_tags a) (n_tags b) &&
  bytes_eqb (n_niche a) (n_niche b) && list_eqb bytes_eqb (n_platforms a) (n_platforms b) && Bool.eqb (n_pipeline a) (n_pipeline b).

Record step08 := {
  t_entry : nentry;                    (* the entry the command line asks to save *)
  t_ran : bool; t_panic : bool; t_success : bool; t_load_err : bool;
  t_book : list nentry;                (* notebook re-loaded afterwards *)
  t_has_token : bool; t_found : bool; t_merged_ok : bool }.

Record case08 := { c_init : list nentry; c_steps : list step08 }.

Fixpoint walk (i : nat) (prev : list nentry) (l : list step08) : option string :=
  match l with
  | [] => None
  | s :: r =>
      if negb (t_ran s) then walk (S i) prev r
      else if t_panic s then Some ("crash@" ++ str_of_nat i)
      else if negb (t_success s) then walk (S i) prev r
      else if t_load_err s then Some ("reload@" ++ str_of_nat i)
      else if negb (list_eqb nentry_eqb (t_book s) (save_entry prev (t_entry s))) then Some ("stored_faithfully@" ++ str_of_nat i)
      else if t_has_token s && negb (t_found s && t_merged_ok s) then Some ("searchable@" ++ str_of_nat i)
      else walk (S i) (t_book s) r
  end.

Definition check_case (c : case08) : report :=
  {| r_verdict := match walk 0 (c_init c) (c_steps c) with Some cl => VPredFail cl | None => VOk end;
     r_trivial := negb (existsb (fun s => t_success s) (c_steps c));
     r_tags := (if existsb (fun s => existsb (fun x => bytes_eqb (n_cmd x) (n_cmd (t_entry s))) (c_init c)) (c_steps c) then ["replace"] else []) |}.

Definition check_cases (l : list case08) : list string := render (map check_case l).
