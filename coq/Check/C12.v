(* Correspondence / predicate checker for C12 (LRU).  Keys and values are numbers:
   the harness numbers the key universe; values are opaque tokens. *)
From Coq Require Import List String ZArith NArith Bool.
From WTF Require Import Model.Lru Check.Render.
Import ListNotations.
Open Scope string_scope.

Definition op12 := @op N N.
Definition out12 := @out N N.

Definition out_eqb (a b : out12) : bool :=
  match a, b with
  | OGet x, OGet y => option_eqb N.eqb x y
  | OUnit, OUnit => true
  | OBool x, OBool y => Bool.eqb x y
  | OInt x, OInt y => Z.eqb x y
  | OStats h m e s c, OStats h' m' e' s' c' =>
      N.eqb h h' && N.eqb m m' && N.eqb e e' && Z.eqb s s' && Z.eqb c c'
  | OKeys x, OKeys y => same_set_b N.eqb x y
  | _, _ => false
  end.

Record case12 := { c_cap : Z; c_ttl : Z; c_ops : list (Z * op12 * out12) }.

(* first step at which model and implementation outputs differ *)
Fixpoint first_diff (i : nat) (s : lru N N) (l : list (Z * op12 * out12)) : option nat :=
  match l with
  | [] => None
  | (now, o, obs) :: r =>
      let '(s', x) := step N N N.eqb s now o in
      if out_eqb x obs then first_diff (S i) s' r else Some i
  end.

Definition is_put (x : Z * op12 * out12) := match x with (_, Put _ _, _) => true | _ => false end.
Definition is_hit (x : Z * op12 * out12) := match x with (_, _, OGet (Some _)) => true | _ => false end.

Definition check_case (c : case12) : report :=
  let s0 := new N N (c_cap c) (c_ttl c) in
  let fin := fst (run N N N.eqb s0 (map (fun x => (fst (fst x), snd (fst x))) (c_ops c))) in
  let v := match first_diff 0 s0 (c_ops c) with
           | None => VOk
           | Some i => VMismatch ("step" ++ str_of_nat i)
           end in
  {| r_verdict := v;
     r_trivial := negb (existsb is_put (c_ops c) && existsb is_hit (c_ops c));
     r_tags := (if N.eqb (evictions fin) 0 then [] else ["evict"]) ++
               (if Z.gtb (c_ttl c) 0 then ["ttl"] else []) |}.

Definition check_cases (l : list case12) : list string := render (map check_case l).
