From Coq Require Import List String ZArith NArith Bool.
From WTF Require Import Model.Validate Model.Text Model.FsAtomic Check.Render.
Import ListNotations.
Open Scope string_scope.

Inductive case09 :=
| KTrace (name : string) (steps : list tstep)
(* a write that fails after k bytes (file-size limit): target content before, the complete new content, content
   found afterwards, whether the command reported success; for the history (time-stamped, so [new] is not known
   byte for byte) [complete_new] says whether the content found is a complete well-formed new history *)
| KFail (name : string) (is_save : bool) (k : Z) (old new observed : option bytes) (success : bool) (complete_new : bool) (tmp_left : bool)
(* the process is killed at a system call (possibly after a short write) *)
| KCrash (name : string) (point : string) (old new observed : option bytes) (complete_new : bool)
(* a writer was killed with its temporary file fully written; a later, shorter save then completes in the same directory.
   [got]: what the target holds afterwards (notebook: its bytes; history: the queries of its entries, or nothing if it does
   not parse); [want]: the same save run on a clean directory holding the same target content *)
| KAfter (name : string) (point : string) (got want : list bytes) (reported_ok : bool).

Definition obytes_eqb (a b : option bytes) : bool := option_eqb bytes_eqb a b.

Definition check_case (c : case09) : report :=
  match c with
  | KTrace name steps =>
      {| r_verdict := if is_atomic_trace steps then VOk else VPredFail ("write_program/" ++ name); r_trivial := false; r_tags := ["trace"; name] |}
  | KFail name is_save k old new observed success complete_new tmp_left =>
      let is_old := obytes_eqb observed old in
      let is_new := match new with Some _ => obytes_eqb observed new | None => complete_new end in
      let v := if negb (is_old || is_new) then VPredFail ("old_or_new/" ++ name)
               else if is_save && success && negb is_new then VPredFail ("success_means_saved/" ++ name)
               else if is_save && negb success && negb is_old then VPredFail ("failure_reported/" ++ name)
               else if tmp_left then VPredFail ("temp_file_left/" ++ name)
               else
                 (* the model's prediction for this fault: the write to the temp file fails after k bytes, or nothing fails *)
                 match new, old with
                 | Some n, _ =>
                     let flt := if (k <? Z.of_nat (List.length n))%Z then FailAt 1 (Z.to_nat k) else NoFault in
                     let '(f, st) := run (atomic_replace n) atomic_cleanup 0 flt (start old) in
                     if obytes_eqb (target f) observed && Bool.eqb (match st with Done => true | _ => false end) (success || negb is_save) then VOk
                     else VMismatch ("fault/" ++ name)
                 | None, _ => VOk
                 end in
      {| r_verdict := v; r_trivial := false; r_tags := ["fail"; name] |}
  | KAfter name point got want ok =>
      {| r_verdict := if ok && list_eqb bytes_eqb got want then VOk else VPredFail ("left_over_temp_harmless/" ++ name);
         r_trivial := false; r_tags := ["after-crash"; name] |}
  | KCrash name point old new observed complete_new =>
      let is_old := obytes_eqb observed old in
      let is_new := match new with Some _ => obytes_eqb observed new | None => complete_new end in
      {| r_verdict := if is_old || is_new then VOk else VPredFail ("old_or_new_after_kill/" ++ name); r_trivial := false; r_tags := ["crash"; name] |}
  end.

Definition check_cases (l : list case09) : list string := render (map check_case l).
