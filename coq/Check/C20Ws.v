(* C20, whitespace family: a query and a re-spelling of it (letter case, leading / trailing / repeated whitespace) through
   the validator; both accepted or both rejected, and the accepted texts equal up to ASCII letter case. *)
From Coq Require Import List String ZArith NArith Bool.
From WTF Require Import Model.Validate Model.Text Check.Render Check.C14.
Import ListNotations.
Open Scope string_scope.

Record wscase := { w_q : list N; w_v : list N; w_res_q : vres (list N); w_res_v : vres (list N) }.

Definition check_case (c : wscase) : report :=
  let pred :=
    match w_res_q c, w_res_v c with
    | ROk a, ROk b => if bytes_eqb (lower_ascii a) (lower_ascii b) then None else Some "same_query_reaches_the_engine"
    | RErr _, RErr _ => None
    | ROk _, RErr ETooLong | RErr ETooLong, ROk _ => None      (* the re-spelling is longer or shorter than 1000 bytes *)
    | _, _ => Some "both_accepted_or_both_rejected"
    end in
  let same := vres_eqb bytes_eqb (validate_query (w_q c)) (w_res_q c) && vres_eqb bytes_eqb (validate_query (w_v c)) (w_res_v c) in
  {| r_verdict := match pred with Some cl => VPredFail cl | None => if same then VOk else VMismatch "validate_query" end;
     r_trivial := match w_res_q c with ROk _ => false | _ => true end;
     r_tags := ["ws"] |}.

Definition check_cases (l : list wscase) : list string := render (map check_case l).
