From Coq Require Import List String ZArith NArith Bool Floats.
From WTF Require Import Model.Validate Model.Text Model.Platform Model.Engine Model.Index Check.Render Check.EngineTypes Check.Eng.
Import ListNotations.
Open Scope string_scope.

Record ixdump := {
  d_n : Z; d_terms : list bytes; d_df : list Z; d_post : list (list (Z * Z * Z * Z * Z));
  d_lens : list (Z * Z * Z * Z); d_avg : float * float * float * float }.

Inductive case03 :=
| KIndex (c : ecase) (d : ixdump)
| KBig (c : ecase) (d : ixdump)     (* a database of real size: the index dump and one search only (the paired runs are left to the small cases) *)
| KHistory (steps : list (list eres * list eres * list bytes * list bytes)).   (* got, fresh, commands held, commands expected *)

Definition tf_eqb (a : tf4) (b : Z * Z * Z * Z) : bool :=
  let '(x, y, z, w) := b in Z.eqb (tf_cmd a) x && Z.eqb (tf_desc a) y && Z.eqb (tf_keys a) z && Z.eqb (tf_tags a) w.

Definition posting_eqb (p : posting) (q : Z * Z * Z * Z * Z) : bool :=
  let '(d, x, y, z, w) := q in Z.eqb (Z.of_nat (p_doc p)) d && tf_eqb (p_tf p) (x, y, z, w).

Fixpoint zip3 {A B C} (a : list A) (b : list B) (c : list C) : list (A * B * C) :=
  match a, b, c with x :: a', y :: b', z :: c' => (x, y, z) :: zip3 a' b' c' | _, _, _ => [] end.

Definition index_matches (c : ecase) (d : ixdump) : option string :=
  let ix := build_index (env_of c) (k_cmds c) in
  let av := ix_avg ix in let '(a1, a2, a3, a4) := d_avg d in
  if negb (Z.eqb (Z.of_nat (ix_n ix)) (d_n d)) then Some "n"
  else if negb (Nat.eqb (List.length (ix_post ix)) (List.length (d_terms d))) then Some "vocabulary"
  else if negb (forallb (fun x => let '(t, dfv, ps) := x in
                   list_eqb2 posting_eqb (lookup_post t (ix_post ix)) ps && Z.eqb (ix_df ix t) dfv)
                 (zip3 (d_terms d) (d_df d) (d_post d))) then Some "postings"
  else if negb (list_eqb2 tf_eqb (ix_lens ix) (d_lens d)) then Some "doc_lens"
  else if negb (match k_cmds c with [] => true | _ =>
                  score_eqb (av_cmd av) a1 && score_eqb (av_desc av) a2 && score_eqb (av_keys av) a3 && score_eqb (av_tags av) a4 end)
       then Some "avg_len"
  else None.

Definition check_case (c : case03) : report :=
  match c with
  | KIndex e d =>
      let o := with_opts (k_opts e) (Some (big e)) (Some false) (Some false) false in
      let spec := model e o in                  (* exhaustive scan, NLP off, limit above the database size *)
      let v := match extra e "nlp_off_big" with
               | Some obs => if negb (results_eqb spec obs) then VPredFail "index_eq_scan"
                             else match index_matches e d with Some w => VMismatch ("index/" ++ w) | None =>
                                  match mismatch e with Some w => VMismatch w | None => VOk end end
               | None => VMismatch "missing-run" end in
      {| r_verdict := v; r_trivial := match extra e "nlp_off_big" with Some (_ :: _) => false | _ => true end;
         r_tags := ["index"] |}
  | KBig e d =>
      let o := with_opts (k_opts e) (Some (big e)) (Some false) (Some false) false in
      let v := match extra e "nlp_off_big" with
               | Some obs => if negb (results_eqb (model e o) obs) then VPredFail "index_eq_scan"
                             else match index_matches e d with Some w => VMismatch ("index/" ++ w) | None => VOk end
               | None => VMismatch "missing-run" end in
      {| r_verdict := v; r_trivial := match extra e "nlp_off_big" with Some (_ :: _) => false | _ => true end;
         r_tags := ["index"; "big_database"] |}
  | KHistory steps =>
      let bad_stale := existsb (fun s => let '(got, fresh, held, expect) := s in negb (results_eqb got fresh)) steps in
      let bad_cmds := existsb (fun s => let '(got, fresh, held, expect) := s in negb (list_eqb bytes_eqb held expect)) steps in
      {| r_verdict := if bad_stale then VPredFail "never_stale" else if bad_cmds then VPredFail "commands_held" else VOk;
         r_trivial := negb (existsb (fun s => match fst (fst (fst s)) with [] => false | _ => true end) steps);
         r_tags := ["history"] |}
  end.

Definition check_cases (l : list case03) : list string := render (map check_case l).
