(* C13 — Project context only re-ranks, in favour of commands that mention it.  Statements only. *)
From Coq Require Import List String ZArith NArith Bool Floats Sorting.Permutation.
From WTF Require Import Model.Validate Model.Text Model.Platform Model.Engine Model.Context Proofs.EngineProofs Proofs.CandidateProofs Proofs.ContextProofs.
Import ListNotations.
Close Scope string_scope.

(* boosts never add or remove a candidate (NLP on or off, any boost map), compared at a limit that cuts nothing *)
Theorem boost_same_candidates : forall E cmds q o nl,
  big_limit cmds o ->
  Permutation (map fst (search_universal E cmds q o nl)) (map fst (search_universal E cmds q (drop_boosts o) nl)).
Proof. exact boost_same_candidates. Qed.

(* the accumulator holds exactly the candidates in document order, whatever the boosts *)
Theorem candidates_ignore_boosts : forall E cmds o nl terms,
  map fst (initial_scores E cmds o nl terms) =
  map fst (filter (fun ic => candidate E cmds o terms (snd ic)) (enumerate 0 cmds)).
Proof. exact initial_ids. Qed.

(* boosting a word never changes the score of a command that does not contain it *)
Theorem boost_local : forall E cmds av tb tb' terms c,
  (forall t, In t terms -> tf_any (doc_tf E c t) = true -> boost_of tb t = boost_of tb' t) ->
  doc_score E cmds av tb terms c = doc_score E cmds av tb' terms c.
Proof. exact boost_local. Qed.

(* ---- detecting the context of a directory (Model/Context.v; the listing is any list of entry names) ---- *)

(* each project type is reported at most once *)
Theorem detect_reports_each_type_once : forall listing, NoDup (detect listing).
Proof. exact detect_nodup. Qed.

(* 'generic' exactly when nothing is recognised, and then alone *)
Theorem detect_generic_exactly_when_nothing : forall listing,
  (In (P "generic"%string) (detect listing) <-> raw_types listing = []) /\ (raw_types listing = [] -> detect listing = [P "generic"%string]).
Proof. exact (fun l => conj (detect_generic_iff l) (detect_generic_alone l)). Qed.

(* the reported types are exactly those carried by some entry of the listing *)
Theorem detect_exact : forall listing t, t <> P "generic"%string ->
  (In t (detect listing) <-> exists f, In f listing /\ In t (types_of_file f)).
Proof. exact detect_exact. Qed.

(* only finite boosts of at least 1, whatever the types, script names and make targets *)
Theorem boosts_finite_at_least_1 : forall types scripts targets k v,
  boost_lookup types scripts targets k = Some v -> (PrimFloat.leb 1 v && PrimFloat.ltb v infinity)%bool = true.
Proof. exact boosts_good. Qed.

Example detect_interleaved_markers :
  detect (map bs ["Dockerfile"; "Makefile"; "docker-compose.yml"]%string) = map bs ["docker"; "make"]%string.
Proof. vm_compute. reflexivity. Qed.

(* "a deterministic function of its listing": the analysis reads the entries in file-name order (os.ReadDir sorts), so two
   directories holding the same names give the same project types in the same order, in whatever order the entries were
   created, are stored on disk or are enumerated *)
Theorem analysis_is_a_function_of_the_names : forall names names',
  Permutation names names' -> analyze_names names = analyze_names names'.
Proof. exact analyze_names_order_free. Qed.

Theorem listing_in_name_order_is_analysed_as_is : forall listing,
  Sorted.StronglySorted name_le listing -> analyze_names listing = detect listing.
Proof. exact sorted_listing_as_is. Qed.

Print Assumptions boost_same_candidates.
Print Assumptions analysis_is_a_function_of_the_names.
Print Assumptions listing_in_name_order_is_analysed_as_is.
Print Assumptions candidates_ignore_boosts.
Print Assumptions boost_local.
Print Assumptions detect_reports_each_type_once.
Print Assumptions detect_generic_exactly_when_nothing.
Print Assumptions detect_exact.
Print Assumptions boosts_finite_at_least_1.
