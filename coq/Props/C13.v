(* C13 — Project context only re-ranks, in favour of commands that mention it.  Statements only. *)
From Coq Require Import List ZArith NArith Bool Floats Sorting.Permutation.
From WTF Require Import Model.Validate Model.Text Model.Platform Model.Engine Proofs.EngineProofs Proofs.CandidateProofs.
Import ListNotations.

(* boosts never add or remove a candidate (NLP on or off, any boost map), compared at a limit that cuts nothing *)
Theorem boost_same_candidates : forall E cmds q o nl,
  big_limit cmds o ->
  Permutation (map fst (search_universal E cmds q o nl)) (map fst (search_universal E cmds q (drop_boosts o) nl)).
Proof. exact boost_same_candidates. Qed.

(* the accumulator holds exactly the candidates in document order, whatever the boosts *)
Theorem candidates_ignore_boosts : forall E cmds o nl terms,
  map fst (initial_scores E cmds o nl terms) =
  map fst (filter (fun ic => candidate E cmds o terms (snd ic)) (enumerate 0 cmds)).
Proof. exact initial_ids. Qed.

(* boosting a word never changes the score of a command that does not contain it *)
Theorem boost_local : forall E cmds av tb tb' terms c,
  (forall t, In t terms -> tf_any (doc_tf E c t) = true -> boost_of tb t = boost_of tb' t) ->
  doc_score E cmds av tb terms c = doc_score E cmds av tb' terms c.
Proof. exact boost_local. Qed.

Print Assumptions boost_same_candidates.
Print Assumptions candidates_ignore_boosts.
Print Assumptions boost_local.
