(* C20 — Letter case and spare whitespace in the query never change the answer.  Statements only.
   [partial]: the query reaches the model engine through its tokens and through three oracles computed
   from the query by un-modelled code (NLP analysis, TF-IDF ranking, fuzzy matcher); the theorems cover
   the tokenizer and everything downstream of it; the oracles' own case-invariance is compared on every
   generated case (paired run with a re-cased query, bit-identical answers). The CLI's whitespace
   normal form is C14's validate_idempotent / validate_clean. *)
From Coq Require Import List ZArith NArith Bool Floats.
From WTF Require Import Model.Validate Model.Text Model.Platform Model.Engine Proofs.EngineProofs.
From WTF Require Proofs.Corollaries.
Import ListNotations.

(* the tokenizer ignores (ASCII) letter case *)
Theorem tokenize_case_invariant : forall stop q q', lower_ascii q = lower_ascii q' -> tokenize stop q = tokenize stop q'.
Proof. exact tokenize_case. Qed.

(* two queries with the same tokens get the same answer from the index / NLP pipeline (same oracles) *)
Theorem search_case_invariant_partial : forall E cmds q q' o nl,
  lower_ascii q = lower_ascii q' -> search_universal E cmds q o nl = search_universal E cmds q' o nl.
Proof. exact Corollaries.search_same_lower. Qed.

Print Assumptions tokenize_case_invariant.
Print Assumptions search_case_invariant_partial.
