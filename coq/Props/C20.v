(* C20 — Letter case and spare whitespace in the query never change the answer.  Statements only.
   [partial]: the query reaches the model engine through its tokens and through three oracles computed
   from the query by un-modelled code (NLP analysis, TF-IDF ranking, fuzzy matcher); the theorems cover
   the tokenizer and everything downstream of it; the oracles' own case-invariance is compared on every
   generated case (paired run with a re-cased query, bit-identical answers). The CLI's whitespace
   normal form is C14's validate_idempotent / validate_clean. *)
From Coq Require Import List ZArith NArith Bool Floats.
From WTF Require Import Model.Validate Model.Text Model.Platform Model.Engine Model.Legacy Proofs.EngineProofs Proofs.WhitespaceProofs Proofs.LegacyProofs.
From WTF Require Proofs.Corollaries.
Import ListNotations.

(* the tokenizer ignores (ASCII) letter case *)
Theorem tokenize_case_invariant : forall stop q q', lower_ascii q = lower_ascii q' -> tokenize stop q = tokenize stop q'.
Proof. exact tokenize_case. Qed.

(* two queries with the same tokens get the same answer from the index / NLP pipeline (same oracles) *)
Theorem search_case_invariant_partial : forall E cmds q q' o nl,
  lower_ascii q = lower_ascii q' -> search_universal E cmds q o nl = search_universal E cmds q' o nl.
Proof. exact Corollaries.search_same_lower. Qed.

(* the CLI's whitespace normal form (what ValidateQuery hands to the engine: Model/Validate.norm over the cleaned runes)
   does not see leading, trailing or repeated whitespace *)
Theorem normal_form_ignores_leading_space : forall sp ts, forallb is_space sp = true -> norm false false (sp ++ ts) = norm false false ts.
Proof. exact norm_leading. Qed.

Theorem normal_form_ignores_trailing_space : forall sp ts, forallb is_space sp = true -> norm false false (ts ++ sp) = norm false false ts.
Proof. exact norm_trailing. Qed.

Theorem normal_form_ignores_repeated_space : forall a s1 s2 b,
  forallb is_space s1 = true -> forallb is_space s2 = true -> s1 <> [] -> s2 <> [] ->
  norm false false (a ++ s1 ++ b) = norm false false (a ++ s2 ++ b).
Proof. exact norm_repeated. Qed.

(* the `wtf pipeline` command line does not go through the validator: its search sees the query only as the word list
   strings.Fields(strings.ToLower(query)) (Model/Legacy.v, ASCII), and that list ignores letter case, padding, and the
   length and kind of every run of blanks; so do the answers, whatever the scorer does with the words *)
Theorem pipeline_words_ignore_case : forall q q', lower_ascii q = lower_ascii q' -> legacy_words q = legacy_words q'.
Proof. exact legacy_words_ignore_case. Qed.

Theorem pipeline_words_ignore_padding : forall l q t,
  forallb is_sp l = true -> forallb is_sp t = true -> legacy_words (l ++ q ++ t) = legacy_words q.
Proof. exact legacy_words_ignore_padding. Qed.

Theorem pipeline_words_ignore_repeated_blanks : forall a s1 s2 b,
  forallb is_sp s1 = true -> forallb is_sp s2 = true -> s1 <> [] -> s2 <> [] ->
  legacy_words (a ++ s1 ++ b) = legacy_words (a ++ s2 ++ b).
Proof. exact legacy_words_ignore_spacing. Qed.

Theorem pipeline_search_sees_words_only : forall wscore words words' cmds po boost limit,
  words = words' ->
  pipeline_search_words wscore words cmds po boost limit = pipeline_search_words wscore words' cmds po boost limit.
Proof. exact pipeline_search_word_list_only. Qed.

Print Assumptions tokenize_case_invariant.
Print Assumptions pipeline_words_ignore_case.
Print Assumptions pipeline_words_ignore_padding.
Print Assumptions pipeline_words_ignore_repeated_blanks.
Print Assumptions pipeline_search_sees_words_only.
Print Assumptions search_case_invariant_partial.
Print Assumptions normal_form_ignores_leading_space.
Print Assumptions normal_form_ignores_trailing_space.
Print Assumptions normal_form_ignores_repeated_space.
