(* C11 — Concurrent searches on one database are race-free and answer as if alone.  Statements only.
   No Gallina model executes against goroutines. What is logic is the locking discipline and what follows from it,
   and that is proved; [partial]: (i) the Go memory model and the race detector's coverage are runtime matters,
   (ii) the go/ast walker that regenerates the lock table is a syntactic over-approximation and is trusted,
   (iii) interleavings of the real code are sampled (a -race stress and recorded LRU histories on every run). *)
From Coq Require Import List String ZArith NArith Bool.
From WTF Require Import Model.Lru Model.Metrics Proofs.MetricsProofs Model.Conc Proofs.ConcProofs.
Import ListNotations.
Close Scope string_scope.

(* a lock table accepted by well_locked admits no two overlapping conflicting accesses among the calls the property
   lists: for the same field with at least one write, one side holds the lock exclusively while the other holds it,
   or both are atomic, or the write is the dead lazy-rebuild branch *)
Theorem well_locked_no_race : forall t, well_locked t = true ->
  forall a b, In a t -> In b t -> in_callset a = true -> in_callset b = true -> race_free a b.
Proof. exact well_locked_no_race. Qed.

(* an object whose call bodies are single steps (run under the exclusive lock): EVERY interleaving of invocations,
   bodies and responses of any number of threads is a run of the sequential object in the order of the body steps,
   with exactly the results the calls returned *)
Theorem mutex_linearizable : forall (S Op Res : Type) (step : S -> Op -> S * Res) (res_eqb : Res -> Res -> bool) s0 es m,
  mrun S Op Res step res_eqb (minit S Op Res s0) es = Some m -> Coherent S Op Res step s0 m.
Proof. exact mutex_linearizable. Qed.

(* ... and that order is consistent with real time: a response is given only after the body ran, a body only after
   the invocation *)
Theorem response_after_linearization_point : forall (S Op Res : Type) (step : S -> Op -> S * Res) (res_eqb : Res -> Res -> bool) m t r m',
  mstep S Op Res step res_eqb m (ERet Op Res t r) = Some m' ->
  exists o r', m_phase S Op Res m t = Finished Op Res o r' /\ res_eqb r r' = true.
Proof. exact ret_after_body. Qed.

Theorem linearization_point_after_invocation : forall (S Op Res : Type) (step : S -> Op -> S * Res) (res_eqb : Res -> Res -> bool) m t m',
  mstep S Op Res step res_eqb m (EBody Op Res t) = Some m' -> exists o, m_phase S Op Res m t = Invoked Op Res o.
Proof. exact body_after_inv. Qed.

(* a search answers as if alone: threads that only read an unchanging state each get the function of that state *)
Theorem readers_see_alone_result : forall (S Op Res : Type) (step : S -> Op -> S * Res) (res_eqb : Res -> Res -> bool)
  (f : S -> Op -> Res) s0 es m,
  (forall s o, step s o = (s, f s o)) -> mrun S Op Res step res_eqb (minit S Op Res s0) es = Some m ->
  m_shared S Op Res m = s0 /\ Forall (fun x => snd x = f s0 (snd (fst x))) (m_lin S Op Res m).
Proof. exact readers_see_alone_result. Qed.

(* no metric increment is lost: any interleaving of atomic increments gives the same totals (shared with C18) *)
Theorem atomic_counters_exact : forall i ops ops', Permutation.Permutation ops ops' -> cvalue i (crun ops) = cvalue i (crun ops').
Proof. exact counter_interleaving. Qed.

Print Assumptions well_locked_no_race.
Print Assumptions mutex_linearizable.
Print Assumptions response_after_linearization_point.
Print Assumptions linearization_point_after_invocation.
Print Assumptions readers_see_alone_result.
Print Assumptions atomic_counters_exact.

(* the discipline is not vacuous: downgrading Get to the shared lock is rejected *)
Open Scope string_scope.
Example get_under_rlock_rejected :
  well_locked [ {| a_type := "LRUCache"; a_method := "Get"; a_field := "hits"; a_write := true; a_mode := MShared; a_guard := "" |} ] = false.
Proof. vm_compute. reflexivity. Qed.
Example get_under_lock_accepted :
  well_locked [ {| a_type := "LRUCache"; a_method := "Get"; a_field := "hits"; a_write := true; a_mode := MExcl; a_guard := "" |};
                {| a_type := "LRUCache"; a_method := "Stats"; a_field := "hits"; a_write := false; a_mode := MShared; a_guard := "" |} ] = true.
Proof. vm_compute. reflexivity. Qed.
