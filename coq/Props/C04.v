(* C04 — Platform and pipeline filters hold for every result on every path.
   Statements only. [allowed] is the property's wording as a proposition; [eligible] is the
   model's boolean filter (Model/Engine.v). *)
From Coq Require Import List ZArith NArith Bool Floats.
From WTF Require Import Model.Validate Model.Text Model.Platform Model.Engine Spec.Filters Proofs.EngineProofs Proofs.FilterProofs.
Import ListNotations.

(* every result, on the lexical, NLP and typo-fallback paths alike, satisfies both filters *)
Theorem c04_filters : forall E cmds q o nl i s,
  In (i, s) (search_universal E cmds q o nl) ->
  exists c, nth_error cmds i = Some c /\ allowed E (eff_limit o) c /\
            (o_pipeline_only o = true -> pipeline_cmd c = true).
Proof. exact results_filtered. Qed.

Print Assumptions c04_filters.

(* non-vacuity: a linux-only entry is not allowed for --platform windows on a linux host, a tool entry is,
   unless cross-platform entries are excluded *)
Definition ex_env : env := {| e_stop := []; e_tools := [[103;105;116]%N]; e_host := s_linux;
  e_params := {| p_k1 := 1; p_b := (0,0,0,0)%float; p_w := (1,1,1,1)%float; p_min_idf := 0 |}; e_idf := fun _ _ => 1%float; e_fuzzy := [] |}.
Definition ex_cmd (cmd : bytes) (pl : list bytes) : command :=
  {| c_cmd := cmd; c_desc := []; c_keys := []; c_tags := []; c_niche := []; c_platform := pl; c_pipeline := false;
     c_cmd_l := cmd; c_desc_l := []; c_keys_l := []; c_tags_l := []; c_cmd_lc := cmd |}.
Definition ex_opts (pl : list bytes) (nc : bool) : options :=
  {| o_limit := 5; o_boosts := []; o_pipeline_only := false; o_pipeline_boost := 0; o_fuzzy := false; o_threshold := 0;
     o_nlp := false; o_terms_cap := 0; o_all_platforms := false; o_platforms := pl; o_no_cross := nc |}.
Example ex_filter :
  (eligible ex_env (ex_opts [s_windows] false) (ex_cmd [108;115]%N [s_linux]),
   eligible ex_env (ex_opts [s_windows] false) (ex_cmd [103;105;116;32;120]%N [s_linux]),
   eligible ex_env (ex_opts [s_windows] true) (ex_cmd [103;105;116;32;120]%N [s_linux]),
   eligible ex_env (ex_opts [] false) (ex_cmd [108;115]%N [s_bash])) = (false, true, false, true).
Proof. vm_compute. reflexivity. Qed.
