(* C06 — NLP enhancement never drops what the user typed.  Statements only.
   The NLP analysis itself (actions / targets / enhanced keywords / per-document multipliers) is an
   arbitrary input nl of the theorems: they hold whatever the analysis returns. *)
From Coq Require Import List ZArith NArith Bool Floats.
From WTF Require Import Model.Validate Model.Text Model.Platform Model.Engine Proofs.EngineProofs Proofs.CandidateProofs.
From WTF Require Import Model.Nlp Proofs.NlpProofs.
Import ListNotations.

(* every command returned with enhancement off is returned with it on (<= 10 distinct content words,
   default term cap, limit that cuts nothing, typo fallback off) *)
Theorem nlp_superset : forall E cmds q o nl i,
  big_limit cmds o -> o_fuzzy o = false -> (o_terms_cap o <= 0)%Z ->
  (length (dedup [] (tokenize (e_stop E) q)) <= 10)%nat ->
  In i (map fst (search_universal E cmds q (set_nlp o false) nl)) ->
  In i (map fst (search_universal E cmds q (set_nlp o true) nl)).
Proof. exact nlp_superset. Qed.

(* each of the first four content words is retained however long the query is, whatever the cap *)
Theorem nlp_first_four : forall E cmds terms cap j t,
  nth_error terms j = Some t -> (j < 4)%nat -> In t (select_top_terms E cmds terms cap).
Proof. exact select_keeps_first_four. Qed.

(* the expanded term list begins with the user's own terms, in the user's order *)
Theorem enhance_appends : forall terms enh, exists extra, enhance_terms terms enh = terms ++ extra.
Proof. exact enhance_prefix. Qed.

(* selection never invents a term *)
Theorem selected_are_query_terms : forall E cmds terms cap t, In t (select_top_terms E cmds terms cap) -> In t terms.
Proof. exact select_subset. Qed.

(* the analysis itself (Model/Nlp.v: ProcessQuery, the hint rule base and GetEnhancedKeywords, compared with the code on every
   engine case; word tables read from the built code): for every query, the expanded term list has no duplicates and begins
   with the keywords extracted from the user's own text, in the user's order, ahead of every hint, action and target term *)
Theorem expanded_terms_keywords_first_no_duplicates : forall T words qlower,
  let A := process_query T words qlower in
  NoDup (enhanced_keywords A) /\ exists extra, enhanced_keywords A = a_keywords A ++ extra.
Proof. exact enhanced_spec. Qed.

(* ... and each keyword is a word the user typed or the first listed synonym of one *)
Theorem keywords_come_from_the_query : forall T words acts tgts kws a t k, classify T words acts tgts kws = (a, t, k) ->
  forall x, In x k -> In x kws \/ In x words \/ exists w s rest, In w words /\ lookup (t_synonyms T) w = Some (s :: rest) /\ x = s.
Proof. exact classify_keywords. Qed.

Print Assumptions nlp_superset.
Print Assumptions nlp_first_four.
Print Assumptions enhance_appends.
Print Assumptions selected_are_query_terms.
Print Assumptions expanded_terms_keywords_first_no_duplicates.
Print Assumptions keywords_come_from_the_query.
