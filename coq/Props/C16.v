(* C16 — Search history is a bounded, ordered, faithfully persisted log.
   Statements only; proofs are `exact <lemma of Proofs/HistoryProofs.v>`.
   Quantification: every initial maximum m, every list of operations `ops` (add / save / load /
   load of an ARBITRARY decoded file / clear / views); `own_op` histories are those whose files
   were all written by Save. *)
From Coq Require Import List ZArith NArith Bool Sorting.Sorted.
From WTF Require Import Model.Validate Model.History Proofs.HistoryProofs.
Import ListNotations.
Open Scope Z_scope.

(* no history file content - empty, damaged, nonsensical maximum - can make recording a search
   crash: every history runs to the end (no Panic) and the maximum stays positive *)
Theorem history_add_total : forall m ops, exists s, hrun (hnew m) ops = Some s /\ 0 < max_size s.
Proof. exact run_total. Qed.

(* ... and a recorded search is always the newest entry afterwards *)
Theorem history_records : forall m ops e,
  exists s s', hrun (hnew m) ops = Some s /\ add s e = Some s' /\ last_opt (entries s') = Some e.
Proof. exact add_records. Qed.

(* an immediately repeated query updates the last entry instead of adding one *)
Theorem history_collapses_repeat : forall s l e,
  last_opt (entries s) = Some l -> bytes_eqb (h_query l) (h_query e) = true ->
  add s e = Some {| entries := removelast (entries s) ++ [e]; max_size := max_size s; disk := disk s |}.
Proof. exact add_collapses. Qed.

(* never more than the maximum, oldest first (time stamps non-decreasing) *)
Theorem history_bounded_chronological : forall m t ops s,
  forallb own_op ops = true -> mono_adds t ops -> hrun (hnew m) ops = Some s ->
  0 < max_size s /\ Z.of_nat (length (entries s)) <= max_size s /\ time_sorted (entries s).
Proof. exact bounded_chronological. Qed.

(* saving and loading gives back the same entries *)
Theorem history_roundtrip : forall s, 0 < max_size s ->
  let s' := fst (load_from (save s) (disk (save s))) in
  entries s' = entries s /\ max_size s' = max_size s /\ snd (load_from (save s) (disk (save s))) = false.
Proof. exact roundtrip. Qed.

(* views: recent queries are distinct entries' queries, at most the limit; top is ranked and its
   frequencies sum to the entry count; statistics count the entries *)
Theorem history_recent_ok : forall s k,
  NoDup (recent s k) /\ (length (recent s k) <= eff_limit k)%nat /\
  forall q, In q (recent s k) -> exists e, In e (entries s) /\ h_query e = q.
Proof. exact recent_ok. Qed.

Theorem history_top_ok : forall s,
  StronglySorted rank_le (top_all s) /\ sum_counts (top_all s) = Z.of_nat (length (entries s)).
Proof. exact top_ok. Qed.

Theorem history_stats_total : forall s,
  match stats s with AStats t _ _ _ _ _ => t = Z.of_nat (length (entries s)) | _ => False end.
Proof. exact stats_total. Qed.

Print Assumptions history_add_total.
Print Assumptions history_records.
Print Assumptions history_collapses_repeat.
Print Assumptions history_bounded_chronological.
Print Assumptions history_roundtrip.
Print Assumptions history_recent_ok.
Print Assumptions history_top_ok.
Print Assumptions history_stats_total.

(* non-vacuity: a history with a hostile file, a repeat and a trim *)
Definition mk (q : N) (t : Z) : hentry := {| h_query := [q]; h_time := t; h_results := 1; h_context := []; h_duration := 0 |}.
Example ex_hist :
  option_map (fun s => (map h_time (entries s), max_size s))
    (hrun (hnew 2) [HLoadFile (FileDoc (FVal [mk 1 1; mk 2 2; mk 3 3]) (FVal (-3))); HAdd (mk 3 4); HAdd (mk 5 5); HSave; HClear; HLoad])
  = Some ([], 2).
Proof. vm_compute. reflexivity. Qed.
Example ex_own : forallb own_op [HAdd (mk 1 1); HSave; HAdd (mk 1 2); HLoad] = true /\ mono_adds 0 [HAdd (mk 1 1); HSave; HAdd (mk 1 2); HLoad].
Proof. simpl. repeat split; discriminate. Qed.
