(* C19 — Semantic embeddings are strictly optional and their files cannot hurt.  Statements only.
   [partial]: actual memory consumption is a runtime quantity - the model bounds the sizes REQUESTED from the
   allocator as a function of the file; the harness loads every generated file in a memory-capped child
   process and observes peak resident memory.  The float32 query embedding is not modelled: the semantic stage
   takes the similarity vector as an input. *)
From Coq Require Import List NArith ZArith Bool Floats Sorting.Sorted Sorting.Permutation.
From WTF Require Import Model.Validate Model.Text Model.Engine Model.Embedding Proofs.EngineProofs Proofs.EmbeddingProofs.
Import ListNotations.

(* loading a file of ANY content returns vectors or an error: the loops terminate within the fuel given *)
Theorem parse_total_word_vectors : forall file, is_fuel (fst (load_word_vectors file)) = false.
Proof. exact wv_total. Qed.
Theorem parse_total_command_embeddings : forall file, is_fuel (fst (load_command_embeddings file)) = false.
Proof. exact ce_total. Qed.

(* memory requested is in proportion to the file's size, whatever the header counts say *)
Theorem alloc_proportional_word_vectors : forall file, byte_ok file ->
  (snd (load_word_vectors file) <= 2 * nlen file + 65535 + 4 * dim)%N.
Proof. exact wv_alloc. Qed.
Theorem alloc_proportional_command_embeddings : forall file,
  (snd (load_command_embeddings file) <= 2 * nlen file + 4 * dim)%N.
Proof. exact ce_alloc. Qed.

(* cosine similarity is symmetric (bit for bit), lies between -1 and 1, and is 0 for empty or mismatched vectors *)
Theorem cosine_symmetric : forall a b, cosine a b = cosine b a.
Proof. exact cosine_symmetric. Qed.
Theorem cosine_range : forall a b, PrimFloat.leb (-1) (cosine a b) = true /\ PrimFloat.leb (cosine a b) 1 = true.
Proof. exact cosine_range. Qed.
Theorem cosine_zero_cases : forall a b, length a <> length b \/ a = [] -> cosine a b = 0%float.
Proof. exact cosine_zero_cases. Qed.

(* without an index (or without an embedding for the query) the stage is the identity; with one it keeps the
   same commands and leaves the list ordered *)
Theorem no_index_no_effect : forall rs, semantic_stage None rs = rs.
Proof. exact stage_none. Qed.
Theorem stage_same_commands : forall sims rs, Permutation (map fst (semantic_stage sims rs)) (map fst rs).
Proof. exact stage_ids. Qed.
Theorem stage_keeps_order : forall sv rs, Sorted (desc_adj by_score) (semantic_stage (Some sv) rs).
Proof. exact stage_sorted. Qed.

Print Assumptions parse_total_word_vectors.
Print Assumptions parse_total_command_embeddings.
Print Assumptions alloc_proportional_word_vectors.
Print Assumptions alloc_proportional_command_embeddings.
Print Assumptions cosine_symmetric.
Print Assumptions cosine_range.
Print Assumptions cosine_zero_cases.
Print Assumptions no_index_no_effect.
Print Assumptions stage_same_commands.
Print Assumptions stage_keeps_order.

(* the 7-byte file of the finding: a count of 2^32-1 is rejected before anything is sized from it *)
Example ex_header_only : load_word_vectors [255; 255; 255; 255; 0; 0; 0]%N = (PErr PTooMany, 0%N).
Proof. vm_compute. reflexivity. Qed.
