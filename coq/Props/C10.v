(* C10 — No input crashes the engine: any database file, any query, any options.  Statements only.
   The engine model (Model/Engine.v) is a total Coq function of arbitrary byte strings and arbitrary option
   values: every search terminates by construction, and the theorems below say that every position it looks up
   is in range. [partial]: yaml.v3, regexp, sort and sahilm/fuzzy are third-party code, exercised by the crash
   search through every entry point (recover + 10 s watchdog), not proved total; the fuzzy matcher is an oracle of
   the model, so its own panic on NUL bytes (found and repaired) was found by that search, not by a theorem. *)
From Coq Require Import List ZArith NArith Bool Floats.
From WTF Require Import Model.Validate Model.Text Model.Platform Model.Engine Model.Index Model.Retry
                        Proofs.EngineProofs Proofs.CandidateProofs Proofs.IndexProofs.
From WTF Require Proofs.Corollaries.
From WTF Require Import Model.Fuzzy Proofs.FuzzyProofs.
Import ListNotations.

(* every document the engine returns, on every path, exists in the database it searched (no index out of range) *)
Theorem engine_indexes_in_range : forall E cmds q o nl i s,
  In (i, s) (search_universal E cmds q o nl) -> (i < length cmds)%nat.
Proof. exact Corollaries.engine_indexes_in_range. Qed.

(* the answer never exceeds the limit in force, whatever the limit value (negative, zero, 2^62) *)
Theorem engine_bounded_for_any_limit : forall E cmds q o nl,
  (length (search_universal E cmds q o nl) <= Z.to_nat (limit_in_force o))%nat.
Proof. exact Corollaries.engine_bounded_for_any_limit. Qed.

(* the index never refers to a document that is not there: postings only name existing documents *)
Theorem postings_in_range : forall E cmds t p, In p (lookup_post t (build_postings E cmds)) -> (p_doc p < length cmds)%nat.
Proof. exact Corollaries.postings_in_range. Qed.

(* loader classification: a missing file is not-found, undecodable content is a parse error, a decoded list loads *)
Theorem load_classifies : forall (A : Type) (l : list A),
  classify A (AOk l) = None /\ classify A ANotExist = Some ENotFound /\ classify A AParse = Some EParse.
Proof. exact Corollaries.load_classifies. Qed.

(* the typo matcher (Model/Fuzzy.v: sahilm/fuzzy transcribed for ASCII text, compared with the library's scores on every
   engine case): whatever the pattern, a target without NUL bytes never makes it index the pattern out of range ... *)
Theorem matcher_total_without_nul : forall pattern target,
  nul_free target = true -> pattern <> [] -> score_target pattern target <> FPanic.
Proof. exact matcher_total. Qed.

(* ... and a NUL inside the target does (the crash found in /repo, repaired there by replacing NUL before matching) *)
Theorem matcher_panics_on_nul_refuted : exists pattern target, pattern <> [] /\ score_target pattern target = FPanic.
Proof. exact matcher_panic_witness. Qed.

Print Assumptions engine_indexes_in_range.
Print Assumptions engine_bounded_for_any_limit.
Print Assumptions postings_in_range.
Print Assumptions load_classifies.
Print Assumptions matcher_total_without_nul.
Print Assumptions matcher_panics_on_nul_refuted.
