(* C02 — Same database, query and options always give the same ranked answer.  Statements only.
   The model of the repaired engine is a FUNCTION (Model/Engine.v has no schedule argument): results are
   collected in document order and every ranking sort is the stable insertion sort, so there is nothing
   left for the runtime's map order to decide. The two places where the code still ranges over a map
   and then sorts the keys are covered by collect_order_independent. [partial]: that the real code has no
   other order dependence is what the repetition correspondence samples (bit-identical answers on
   repeated calls and on an independently loaded copy). *)
From Coq Require Import List ZArith NArith Bool Floats Sorting.Permutation.
From WTF Require Import Model.Validate Model.Text Model.Platform Model.Engine Proofs.EngineProofs.
From WTF Require Proofs.Corollaries.
Import ListNotations.

(* whatever order the runtime enumerates the score map (or a TF-IDF vector) in, sorting the keys gives one list *)
Theorem collect_order_independent : forall ord ord', Permutation ord ord' -> sort_nat ord = sort_nat ord'.
Proof. exact collect_order_independent. Qed.

(* the ranking sort only permutes its input: which commands are ranked never depends on it *)
Theorem ranking_is_permutation : forall (l : list (nat * float)), Permutation (sort_desc by_score l) l.
Proof. exact Corollaries.ranking_is_permutation. Qed.

(* the answer is a function of (database, query, options, oracles): two evaluations agree *)
Theorem search_deterministic : forall E cmds q o nl r1 r2,
  r1 = search_universal E cmds q o nl -> r2 = search_universal E cmds q o nl -> r1 = r2.
Proof. intros; congruence. Qed.

Print Assumptions collect_order_independent.
Print Assumptions ranking_is_permutation.
Print Assumptions search_deterministic.
