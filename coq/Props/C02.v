(* C02 — Same database, query and options always give the same ranked answer.  Statements only.
   The Go runtime's map iteration order plays the role of a scheduler. In the repaired engine every place that walks
   a hash map either sorts what it collected or sums in sorted-key order, and every ranking sort is stable; the model
   (Model/Engine.v, Model/Tfidf.v) is therefore a FUNCTION with no order argument, and the theorems below are the facts
   that make that modelling decision sound: whatever order the runtime hands the keys out in, the sorted list is the
   same; the stable sort keeps tied entries in document order, so the survivor of a limit is fixed.
   [partial]: that the real code has no OTHER order dependence is what the correspondence samples on every run
   (bit-identical answers on 8 repeated calls and on an independently loaded copy; the TF-IDF model, which sums in
   index order, is compared bit for bit with the code's ranking). *)
From Coq Require Import List ZArith NArith Bool Floats Sorting.Permutation.
From WTF Require Import Model.Validate Model.Text Model.Platform Model.Engine Model.Tfidf
                        Proofs.EngineProofs Proofs.TfidfProofs Proofs.StableProofs.
From WTF Require Proofs.Corollaries.
Import ListNotations.

(* whatever order the runtime enumerates the score map (or a TF-IDF vector) in, sorting the keys gives one list *)
Theorem collect_order_independent : forall ord ord', Permutation ord ord' -> sort_nat ord = sort_nat ord'.
Proof. exact collect_order_independent. Qed.

(* the TF-IDF vocabulary (hence every term index, idf entry and vector) does not depend on the order - nor on the
   multiplicity - in which the word-count map hands out its keys *)
Theorem vocabulary_order_independent : forall ws ws', (forall w, In w ws <-> In w ws') -> sorted_words ws = sorted_words ws'.
Proof. exact sorted_words_order_independent. Qed.

(* the ranking sort only permutes its input: which commands are ranked never depends on it *)
Theorem ranking_is_permutation : forall (l : list (nat * float)), Permutation (sort_desc by_score l) l.
Proof. exact Corollaries.ranking_is_permutation. Qed.

(* ties are ordered by a fixed rule: entries none of which scores strictly above another (in particular entries with
   equal scores) leave the ranking sort in the order they entered it, i.e. document order; what a limit keeps of them
   is therefore a prefix of their document order *)
Theorem ties_keep_document_order : forall (p : nat * float -> bool) (l : list (nat * float)),
  (forall x y, In x l -> In y l -> p x = true -> p y = true -> PrimFloat.ltb (by_score x) (by_score y) = false) ->
  filter p (sort_desc by_score l) = filter p l.
Proof. exact (sort_stable by_score). Qed.

(* the TF-IDF ranking names each command at most once and only commands of the database *)
Theorem tfidf_ranking_wellformed : forall docs logt q limit,
  let r := tfidf_search docs logt q limit in
  NoDup (map fst r) /\ forall i s, In (i, s) r -> (i < length docs)%nat /\ PrimFloat.ltb 0x1.47ae147ae147bp-7 s = true.
Proof. exact tfidf_search_wellformed. Qed.

Print Assumptions collect_order_independent.
Print Assumptions vocabulary_order_independent.
Print Assumptions ranking_is_permutation.
Print Assumptions ties_keep_document_order.
Print Assumptions tfidf_ranking_wellformed.
