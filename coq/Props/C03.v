(* C03 — The inverted index answers exactly like an exhaustive scan of the commands.
   Statements only; proofs are `exact <lemma of Proofs/IndexProofs.v>`. *)
From Coq Require Import List ZArith NArith Bool Floats.
From WTF Require Import Model.Validate Model.Text Model.Platform Model.Engine Model.Index
                        Proofs.EngineProofs Proofs.CandidateProofs Proofs.IndexProofs.
Import ListNotations.

(* the postings of a term are exactly the documents whose command line, description, keywords or tags
   contain it, in document order, with the per-field counts recomputed from the texts *)
Theorem postings_are_occurrences : forall E cmds t,
  lookup_post t (build_postings E cmds) = doc_postings E t (enumerate 0 cmds).
Proof. exact lookup_build. Qed.

(* document frequency kept by the index = number of documents containing the term *)
Theorem index_df_is_count : forall E cmds t, ix_df (build_index E cmds) t = df E cmds t.
Proof. exact ix_df_eq. Qed.

(* same candidates, same score expression (bit for bit): for every command list, term list, boosts, options *)
Theorem index_eq_scan : forall E cmds o nl terms,
  index_scores E (build_index E cmds) cmds o nl terms = initial_scores E cmds o nl terms.
Proof. exact index_eq_scan. Qed.

(* the candidates are exactly the filter-eligible commands containing a selected term *)
Theorem candidates_are_eligible_matches : forall E cmds o nl terms,
  map fst (initial_scores E cmds o nl terms) =
  map fst (filter (fun ic => candidate E cmds o terms (snd ic)) (enumerate 0 cmds)).
Proof. exact initial_ids. Qed.

(* all distinct content words are used when there are at most `cap` of them; at least the first four otherwise *)
Theorem selected_terms_all_when_few : forall E cmds terms cap t,
  (0 < cap)%Z -> (Z.of_nat (length (dedup [] terms)) <= cap)%Z -> In t terms -> df E cmds t <> 0%Z ->
  In t (select_top_terms E cmds terms cap).
Proof. exact select_keeps_known. Qed.

Theorem selected_terms_first_four : forall E cmds terms cap j t,
  nth_error terms j = Some t -> (j < 4)%nat -> In t (select_top_terms E cmds terms cap).
Proof. exact select_keeps_first_four. Qed.

(* keywords / tags: tokenising the space-joined list = concatenating the tokenisations (nothing is glued) *)
Theorem tokenize_join : forall stop l, tokenize stop (join_sp l) = flat_map (tokenize stop) l.
Proof. exact tokenize_join. Qed.

(* after ANY history of load / merge / replace / grow, the search runs on an index and a re-ranker built from
   exactly the commands being searched *)
Theorem index_never_stale : forall ops cmds0,
  appends_nonempty ops -> in_sync (before_search (db_run ops (fresh cmds0))).
Proof. exact never_stale. Qed.

Theorem merged_is_concat : forall m p, st_cmds (db_step (fresh []) (DLoadPersonal m p)) = m ++ p.
Proof. exact merged_is_concat. Qed.

Print Assumptions postings_are_occurrences.
Print Assumptions index_df_is_count.
Print Assumptions index_eq_scan.
Print Assumptions candidates_are_eligible_matches.
Print Assumptions selected_terms_all_when_few.
Print Assumptions selected_terms_first_four.
Print Assumptions tokenize_join.
Print Assumptions index_never_stale.
Print Assumptions merged_is_concat.

(* the HEAD-shaped update (index rebuilt, re-ranker not) is refuted by a two-step history *)
Definition cmd0 (b : N) : command :=
  {| c_cmd := [b]; c_desc := []; c_keys := []; c_tags := []; c_niche := []; c_platform := []; c_pipeline := false;
     c_cmd_l := [b]; c_desc_l := []; c_keys_l := []; c_tags_l := []; c_cmd_lc := [b] |}.
Example head_update_was_stale :
  let s := fold_left db_step_head [DUpdate [cmd0 98%N]] (fresh [cmd0 97%N]) in
  st_tfidf_from (before_search s) <> st_cmds (before_search s).
Proof. vm_compute. discriminate. Qed.
