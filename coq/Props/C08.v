(* C08 — A saved command is stored faithfully, keeps its neighbours, is searchable.  Statements only.
   [partial]: the YAML codec (yaml.v3, third party) is an oracle: the notebook file is its decoded entry list;
   that decode(encode(book)) = book is tested by every step of the harness (reload after each save). *)
From Coq Require Import List NArith ZArith Bool Floats.
From WTF Require Import Model.Validate Model.Text Model.Platform Model.Engine Model.Index Model.Save
                        Proofs.EngineProofs Proofs.CandidateProofs Proofs.IndexProofs Proofs.SaveProofs.
Import ListNotations.

Theorem save_roundtrip : forall book e, In e (save_entry book e).
Proof. exact save_present. Qed.

Theorem save_preserves_others : forall book e, filter (other e) (save_entry book e) = filter (other e) book.
Proof. exact save_preserves_others. Qed.

Theorem save_replaces : forall book e,
  (existsb (fun x => bytes_eqb (n_cmd x) (n_cmd e)) book = true -> length (save_entry book e) = length book) /\
  (existsb (fun x => bytes_eqb (n_cmd x) (n_cmd e)) book = false -> save_entry book e = book ++ [e]).
Proof. exact save_replaces. Qed.

Theorem save_never_duplicates : forall book e, NoDup (map n_cmd book) -> NoDup (map n_cmd (save_entry book e)).
Proof. exact save_nodup. Qed.

(* the database used for searching is the main entries followed by the notebook entries *)
Theorem searched_database_is_main_then_notebook : forall m p, st_cmds (db_step (fresh []) (DLoadPersonal m p)) = m ++ p.
Proof. exact merged_is_concat. Qed.

(* a saved command is a candidate of the next search for any word of its command line *)
Theorem save_then_search : forall E cmds o terms c t,
  eligible E o c = true -> In t terms -> In t (cmd_tokens E c) ->
  PrimFloat.ltb (e_idf E (Z.of_nat (length cmds)) (df E cmds t)) (p_min_idf (e_params E)) = false ->
  candidate E cmds o terms c = true.
Proof. exact saved_is_candidate. Qed.

Print Assumptions save_roundtrip.
Print Assumptions save_preserves_others.
Print Assumptions save_replaces.
Print Assumptions save_never_duplicates.
Print Assumptions searched_database_is_main_then_notebook.
Print Assumptions save_then_search.

Example ex_pipeline_entry :
  n_desc (pipeline_entry [110]%N [97;124;98;124;99]%N None [] [] []) = [110;32;45;32;51;45;115;116;101;112;32;112;105;112;101;108;105;110;101]%N.
Proof. vm_compute. reflexivity. Qed.
