(* C15 — Loading always ends with a usable database, without futile retries.  Statements only.
   The outcome of every file access (per attempt, for the main file and the notebook) is an arbitrary input
   [faults]; [embedded] is the built-in fallback list.  [partial]: time.Sleep's actual duration is the
   scheduler's; the harness checks the observed gaps between attempts as lower bounds only. *)
From Coq Require Import List ZArith NArith Bool QArith.
From WTF Require Import Model.Validate Model.Text Model.Retry Proofs.RetryProofs.
Import ListNotations.

(* loading always ends with a database and no error: the real one, or the built-in fallback *)
Theorem load_total : forall (A : Type) (embedded : list A) c faults,
  let db := fst (fst (load_with_fallback A embedded c faults)) in
  db = embedded \/ exists n m p, faults n = (AOk m, p) /\ (db = m ++ match p with AOk l => l | _ => [] end).
Proof. exact load_total. Qed.

(* the real database - main entries followed by notebook entries - whenever the main file loads and the
   notebook loads or is merely absent *)
Theorem load_real_when_possible : forall (A : Type) (embedded : list A) c faults m p,
  faults 1%nat = (AOk m, p) -> (p = ANotExist \/ exists l, p = AOk l) ->
  fst (fst (load_with_fallback A embedded c faults)) = m ++ match p with AOk l => l | _ => [] end.
Proof. exact real_when_possible. Qed.

(* between 1 and max(1, MaxAttempts) attempts, one wait per retry *)
Theorem load_attempts : forall (A : Type) c faults,
  let '(_, n, ws) := load_with_retry A c faults in (1 <= n <= attempts_of c)%nat /\ length ws = (n - 1)%nat.
Proof. exact load_attempts. Qed.

(* a missing or permission-denied file is tried once *)
Theorem no_futile_retry : forall (A : Type) c faults m p e,
  faults 1%nat = (m, p) -> load_with_personal A m p = Datatypes.inr e -> should_retry e = false ->
  snd (fst (load_with_retry A c faults)) = 1%nat /\ snd (load_with_retry A c faults) = [].
Proof. exact no_futile_retry. Qed.

(* waits never exceed the configured maximum, and never decrease when the back-off factor is at least 1 *)
Theorem delay_in_range : forall c k,
  (0 <= delay c k)%Q /\ ((0 <= r_max c)%Q -> (delay c k <= r_max c)%Q) /\ ((r_max c < 0)%Q -> delay c k == 0).
Proof. exact delay_range. Qed.

Theorem delay_monotone : forall c (a b : nat),
  (1 <= r_factor c)%Q -> (0 <= r_base c)%Q -> (1 <= a <= b)%nat -> (delay c a <= delay c b)%Q.
Proof. exact delay_monotone. Qed.

Print Assumptions load_total.
Print Assumptions load_real_when_possible.
Print Assumptions load_attempts.
Print Assumptions no_futile_retry.
Print Assumptions delay_in_range.
Print Assumptions delay_monotone.

Example ex_missing_once :
  load_with_fallback N [7%N] {| r_attempts := 3; r_base := 100#1; r_max := 5000#1; r_factor := 2#1 |} (fun _ => (ANotExist, ANotExist)) = ([7%N], 1%nat, []).
Proof. vm_compute. reflexivity. Qed.
Example ex_parse_retried :
  snd (fst (load_with_fallback N [7%N] {| r_attempts := 3; r_base := 100#1; r_max := 5000#1; r_factor := 2#1 |} (fun _ => (AParse, ANotExist)))) = 3%nat.
Proof. vm_compute. reflexivity. Qed.
