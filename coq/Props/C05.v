(* C05 — The result cache is invisible: cached answers equal fresh answers.
   Statements only; proofs are `exact <lemma of Proofs/CacheProofs.v>`.
   Quantification: any database / query / option / key / result types, any decidable key equality, ANY
   engine function and key function such that requests filed under one key get one answer (key_sound),
   and ANY history of cached search / monitored search / invalidate / enable / disable / sweep /
   database replacement / stats, at any time stamps. *)
From Coq Require Import List ZArith NArith Bool Floats.
From WTF Require Import Model.Validate Model.Text Model.Platform Model.Engine Model.Lru Model.CacheLayer
                        Proofs.EngineProofs Proofs.CacheProofs.
From WTF Require Proofs.Corollaries.
Import ListNotations.

Section C05.
Variables D Q O K R : Type.
Variable keqb : K -> K -> bool.
Hypothesis keqb_spec : forall a b, keqb a b = true <-> a = b.
Variable key : Q -> O -> K.
Variable engine : D -> Q -> O -> list R.
Hypothesis key_sound : forall q o q' o', key q o = key q' o' -> forall d, engine d q o = engine d q' o'.

(* each search of the history returns exactly what the engine returns on the database current at that moment *)
Theorem cache_transparent : forall d h, all_expected D Q O K R keqb key engine (cinit D K R d) h.
Proof. exact (cache_transparent D Q O K R keqb keqb_spec key engine key_sound). Qed.

(* no entry outlives a database replacement *)
Theorem cache_emptied_by_update : forall s now d,
  items (cs_cache (fst (cstep D Q O K R keqb key engine s now (CUpdate D Q O d)))) = [].
Proof. exact (update_empties D Q O K R keqb key engine). Qed.

(* requests that differ in anything that changes the answer never share a cached entry *)
Theorem cache_no_sharing : forall d q o q' o', engine d q o <> engine d q' o' -> key q o <> key q' o'.
Proof. exact (no_sharing D Q O K R key engine key_sound). Qed.
End C05.

(* key_sound for the concrete engine model and the repaired key (ASCII-lower-cased query, every option field):
   two requests with the same key have the same lower-cased query and the same options, hence the same answer.
   [partial] in the same sense as C20: the oracles (NLP analysis, TF-IDF ranking, fuzzy scores) are inputs. *)
Theorem key_sound_engine_partial : forall E cmds q q' o nl,
  lower_ascii q = lower_ascii q' -> search_universal E cmds q o nl = search_universal E cmds q' o nl.
Proof. exact Corollaries.search_same_lower. Qed.

Print Assumptions cache_transparent.
Print Assumptions cache_emptied_by_update.
Print Assumptions cache_no_sharing.
Print Assumptions key_sound_engine_partial.
