(* C17 — Every CLI command runs, and search output matches the engine's answer.  Statements only.
   cli_starts is re-established on every run against the command tree reflected from the built code
   (flags_ok evaluated by vm_compute on the regenerated table, Check/C17.v).
   [partial]: cobra / pflag, fmt and encoding/json are third-party or runtime code; their behaviour enters
   as the merge rule of Model/Cli.v and through the harness's parsing of the binary's output. *)
From Coq Require Import List ZArith NArith Bool Floats Sorting.Sorted.
From WTF Require Import Model.Validate Spec.ValidateSpec Model.Text Model.Engine Model.Cli Model.History Model.SearchCommand
                        Proofs.EngineProofs Proofs.CliProofs Proofs.HistoryProofs Proofs.SearchCommandProofs.
Import ListNotations.

(* a command tree that passes the boolean check has no command whose merged flag set contains two different
   flags with one shorthand: no command panics while cobra merges its flags *)
Theorem cli_starts : forall tree, flags_ok tree = true -> forall c, In c tree -> no_clash (merged tree c).
Proof. exact flags_ok_sound. Qed.

(* the items printed are the engine's results when there are any, else the recovery results cut to the limit;
   never more than the limit in force *)
Theorem cli_prints_engine_results : forall (R : Type) limit (engine recovery : list R),
  engine <> [] -> cli_results R limit engine recovery = engine.
Proof. exact @cli_results_engine. Qed.

Theorem cli_prints_at_most_limit : forall (R : Type) limit (engine recovery : list R),
  (length engine <= Z.to_nat limit)%nat -> (length (cli_results R limit engine recovery) <= Z.to_nat limit)%nat.
Proof. exact @cli_results_bounded. Qed.

(* the stable re-sort the CLI applies before printing does not reorder a ranked answer *)
Theorem cli_resort_is_identity : forall (A : Type) (key : A -> float) l, Sorted (desc_adj key) l -> sort_desc key l = l.
Proof. exact @sort_sorted_id. Qed.

(* each search leaves its query as the newest history entry (whatever the history file held) *)
Theorem cli_history_newest_entry : forall m ops e,
  exists s s', hrun (hnew m) ops = Some s /\ add s e = Some s' /\ last_opt (entries s') = Some e.
Proof. exact add_records. Qed.

(* the search command as a whole (Model/SearchCommand.v), any engine and recovery search: for an accepted query and limit, the
   text that is searched and recorded is the validated query itself - clean, and a fixed point of the validator -, what is printed
   is the answer for THAT text, and the history ends with one entry for that text carrying the number of results printed *)
Theorem search_command_uses_the_validated_query : forall (R : Type) (engine recovery : list N -> Z -> list R) d q limit now dur ctx h c l,
  (0 < max_size h)%Z -> validate_query q = ROk c -> validate_limit d limit = ROk l ->
  let o := search_command R engine recovery d q limit now dur ctx h in
  ro_rejected o = false /\ ro_query o = c /\
  clean_spec q c = true /\ validate_query c = ROk c /\
  ro_printed o = cli_results R l (engine c l) (recovery c l) /\
  exists h2, ro_hist o = Some (save h2) /\
    last_opt (entries h2) = Some {| h_query := c; h_time := now; h_results := Z.of_nat (length (ro_printed o));
                                    h_context := ctx; h_duration := dur |} /\
    disk (save h2) = FileDoc (FVal (entries h2)) (FVal (max_size h2)).
Proof. exact accepted_uses_the_validated_query. Qed.

(* ... at most `limit` results are printed when the engine respects the limit it is given (C01 proves that it does) *)
Theorem search_command_prints_at_most_the_limit : forall (R : Type) (engine recovery : list N -> Z -> list R) d q limit now dur ctx h c l,
  validate_query q = ROk c -> validate_limit d limit = ROk l ->
  (length (engine c l) <= Z.to_nat l)%nat ->
  (length (ro_printed (search_command R engine recovery d q limit now dur ctx h)) <= Z.to_nat l)%nat.
Proof. exact accepted_prints_at_most_the_limit. Qed.

(* ... and for a rejected one nothing is searched, printed or recorded *)
Theorem search_command_rejected_does_nothing : forall (R : Type) (engine recovery : list N -> Z -> list R) d q limit now dur ctx h,
  (forall c, validate_query q <> ROk c) \/ (forall l, validate_limit d limit <> ROk l) ->
  let o := search_command R engine recovery d q limit now dur ctx h in
  ro_rejected o = true /\ ro_printed o = [] /\ ro_hist o = Some h.
Proof. exact rejected_does_nothing. Qed.

Print Assumptions cli_starts.
Print Assumptions search_command_uses_the_validated_query.
Print Assumptions search_command_rejected_does_nothing.
Print Assumptions search_command_prints_at_most_the_limit.
Print Assumptions cli_prints_engine_results.
Print Assumptions cli_prints_at_most_limit.
Print Assumptions cli_resort_is_identity.
Print Assumptions cli_history_newest_entry.

(* the HEAD-shaped tree (save declares -p for --platforms, the root declares -p for --platform) fails the check *)
Definition fl (n s : bytes) : flag := {| f_name := n; f_short := s; f_type := [] |}.
Example head_tree_clashes :
  flags_ok [ {| cm_path := [[119]%N]; cm_local := []; cm_persistent := [fl [112;108;97;116;102;111;114;109]%N [112]%N] |};
             {| cm_path := [[119]%N; [115]%N]; cm_local := [fl [112;108;97;116;102;111;114;109;115]%N [112]%N]; cm_persistent := [] |} ] = false.
Proof. vm_compute. reflexivity. Qed.
