(* C17 — Every CLI command runs, and search output matches the engine's answer.  Statements only.
   cli_starts is re-established on every run against the command tree reflected from the built code
   (flags_ok evaluated by vm_compute on the regenerated table, Check/C17.v).
   [partial]: cobra / pflag, fmt and encoding/json are third-party or runtime code; their behaviour enters
   as the merge rule of Model/Cli.v and through the harness's parsing of the binary's output. *)
From Coq Require Import List ZArith NArith Bool Floats Sorting.Sorted.
From WTF Require Import Model.Validate Model.Text Model.Engine Model.Cli Model.History
                        Proofs.EngineProofs Proofs.CliProofs Proofs.HistoryProofs.
Import ListNotations.

(* a command tree that passes the boolean check has no command whose merged flag set contains two different
   flags with one shorthand: no command panics while cobra merges its flags *)
Theorem cli_starts : forall tree, flags_ok tree = true -> forall c, In c tree -> no_clash (merged tree c).
Proof. exact flags_ok_sound. Qed.

(* the items printed are the engine's results when there are any, else the recovery results cut to the limit;
   never more than the limit in force *)
Theorem cli_prints_engine_results : forall (R : Type) limit (engine recovery : list R),
  engine <> [] -> cli_results R limit engine recovery = engine.
Proof. exact @cli_results_engine. Qed.

Theorem cli_prints_at_most_limit : forall (R : Type) limit (engine recovery : list R),
  (length engine <= Z.to_nat limit)%nat -> (length (cli_results R limit engine recovery) <= Z.to_nat limit)%nat.
Proof. exact @cli_results_bounded. Qed.

(* the stable re-sort the CLI applies before printing does not reorder a ranked answer *)
Theorem cli_resort_is_identity : forall (A : Type) (key : A -> float) l, Sorted (desc_adj key) l -> sort_desc key l = l.
Proof. exact @sort_sorted_id. Qed.

(* each search leaves its query as the newest history entry (whatever the history file held) *)
Theorem cli_history_newest_entry : forall m ops e,
  exists s s', hrun (hnew m) ops = Some s /\ add s e = Some s' /\ last_opt (entries s') = Some e.
Proof. exact add_records. Qed.

Print Assumptions cli_starts.
Print Assumptions cli_prints_engine_results.
Print Assumptions cli_prints_at_most_limit.
Print Assumptions cli_resort_is_identity.
Print Assumptions cli_history_newest_entry.

(* the HEAD-shaped tree (save declares -p for --platforms, the root declares -p for --platform) fails the check *)
Definition fl (n s : bytes) : flag := {| f_name := n; f_short := s; f_type := [] |}.
Example head_tree_clashes :
  flags_ok [ {| cm_path := [[119]%N]; cm_local := []; cm_persistent := [fl [112;108;97;116;102;111;114;109]%N [112]%N] |};
             {| cm_path := [[119]%N; [115]%N]; cm_local := [fl [112;108;97;116;102;111;114;109;115]%N [112]%N]; cm_persistent := [] |} ] = false.
Proof. vm_compute. reflexivity. Qed.
