(* C09 — An interrupted or failed write never damages the notebook or the history.  Statements only.
   [partial]: kernel semantics (rename atomicity, a size limit stopping write(2) at exactly k bytes) are the
   model's assumptions about the world; they are exercised by fault and kill injection on the built binary,
   and the program the binary really executes is recorded with strace and checked to be [atomic_replace]. *)
From Coq Require Import List NArith ZArith Bool.
From WTF Require Import Model.Validate Model.Text Model.FsAtomic Proofs.FsProofs.
Import ListNotations.

(* for EVERY crash point and EVERY failing call, at every byte prefix 0..len of the write: the file afterwards
   holds the complete previous content or the complete new content; a completed run holds the new content;
   a failed run holds the previous content, leaves no temporary file, and is reported as a failure *)
Theorem replace_atomic : forall old new flt,
  let '(f, st) := run (atomic_replace new) atomic_cleanup 0 flt (start old) in
  (target f = old \/ target f = Some new) /\
  (st = Done -> target f = Some new /\ tmp f = None) /\
  (st = Failed -> target f = old /\ tmp f = None).
Proof. exact replace_atomic. Qed.

(* everything saved earlier remains loadable after any such event *)
Theorem earlier_saves_survive : forall (A : Type) (decode : bytes -> option A) old new flt before after,
  decode old = Some before -> decode new = Some after ->
  let '(f, st) := run (atomic_replace new) atomic_cleanup 0 flt (start (Some old)) in
  exists content, target f = Some content /\ (decode content = Some before \/ decode content = Some after).
Proof. exact @earlier_saves_survive. Qed.

(* the program the code used before the repair (truncate and write in place) is refuted *)
Theorem in_place_not_atomic : forall old b1 b2 rest, old <> Some [b1] ->
  exists flt, let '(f, st) := run (in_place (b1 :: b2 :: rest)) [] 0 flt (start old) in
              target f <> old /\ target f <> Some (b1 :: b2 :: rest).
Proof. exact in_place_not_atomic. Qed.

Print Assumptions replace_atomic.
Print Assumptions earlier_saves_survive.
Print Assumptions in_place_not_atomic.

Example ex_trace_shapes :
  (is_atomic_trace [TCreateTmp; TWriteTmp; TOther; TSync; TClose; TRename], is_atomic_trace [TOpenTrunc; TWriteTarget; TClose]) = (true, false).
Proof. vm_compute. reflexivity. Qed.
