From WTF Require Import Model.Lru.
Theorem placeholder : True. Proof. exact I. Qed.
Print Assumptions placeholder.
