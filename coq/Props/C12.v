(* C12 — The result cache is a correct bounded LRU with a staleness limit.
   Statements only; every proof is `exact <lemma of Proofs/LruProofs.v>`.
   All theorems quantify over: any key/value types with a decidable key equality, any
   capacity c (non-positive ones are replaced by the default), any lifetime t, and ANY
   history h of time-stamped operations whose time stamps do not decrease (mono_from). *)
From Coq Require Import List ZArith NArith Bool.
From WTF Require Import Model.Lru Proofs.LruProofs.
Import ListNotations.
Open Scope Z_scope.

Section C12.
Variables K V : Type.
Variable keqb : K -> K -> bool.
Hypothesis keqb_spec : forall a b, keqb a b = true <-> a = b.
Notation reach := (reach K V keqb).
Notation step := (step K V keqb).
Notation trace := (trace K V keqb).

(* never more entries than the capacity; capacity positive; one entry per key *)
Theorem lru_capacity : forall c t t0 h, mono_from K V t0 h ->
  let s := reach c t t0 h in
  0 < cap s /\ Z.of_nat (length (items s)) <= cap s /\ NoDup (keys K V (items s)).
Proof. exact (capacity_reachable K V keqb keqb_spec). Qed.

(* when full, inserting a new key discards exactly the entry read or written longest ago:
   the victim is the entry with the smallest touch index, every other entry is kept as is *)
Theorem lru_evicts_least_recent : forall c t t0 h now k v, mono_from K V t0 h ->
  let s := reach c t t0 h in
  lookup K V keqb k (items s) = None -> Z.of_nat (length (items s)) = cap s ->
  exists old victim,
    items s = old ++ [victim] /\
    items (fst (step s now (Put k v))) =
      {| e_key := k; e_val := v; e_created := now; e_stored := now; e_touch := S (tick s) |} :: old /\
    Forall (fun e => (e_touch victim < e_touch e)%nat) old /\
    evictions (fst (step s now (Put k v))) = N.succ (evictions s).
Proof. exact (evicts_least_recent K V keqb keqb_spec). Qed.

(* the ghost fields mean what they say: for every cached entry, value / store time / touch index
   are the ones the history dictates (last Put not followed by Delete/Clear; time of the last Put;
   index of the last Put or hit Get) *)
Theorem lru_ghosts_follow_history : forall c t t0 h, mono_from K V t0 h ->
  Agree K V keqb (reach c t t0 h) (trace c t h).
Proof. exact (agree_reachable K V keqb keqb_spec). Qed.

(* a lookup returns the value most recently stored under that key *)
Theorem lru_get_latest : forall c t t0 h now k v, mono_from K V t0 h ->
  snd (step (reach c t t0 h) now (Get k)) = OGet (Some v) ->
  live_val K V keqb k (trace c t h) = Some v.
Proof. exact (get_latest K V keqb keqb_spec). Qed.

(* ... and never a value stored longer ago than the configured lifetime *)
Theorem lru_never_stale : forall c t t0 h now k v,
  mono_from K V t0 h -> last_time K V t0 h <= now -> 0 < t ->
  snd (step (reach c t t0 h) now (Get k)) = OGet (Some v) ->
  exists st, stored_at K V keqb k (trace c t h) = Some st /\ now - st <= t.
Proof. exact (never_stale K V keqb keqb_spec). Qed.

(* expiry sweeps remove only expired entries (and report how many) *)
Theorem lru_sweep_sound : forall c t t0 h now, mono_from K V t0 h ->
  let s := reach c t t0 h in
  exists kept dropped,
    items s = kept ++ dropped /\
    items (fst (step s now Cleanup)) = kept /\
    snd (step s now Cleanup) = OInt (Z.of_nat (length dropped)) /\
    Forall (fun e => 0 < ttl s /\ now - e_created e > ttl s) dropped.
Proof. exact (sweep_sound K V keqb). Qed.

(* hit / miss / eviction / size statistics equal what happened since the last clear *)
Theorem lru_stats_exact : forall c t t0 h,
  let s := reach c t t0 h in
  let ev := since_clear_rev K V (rev (strace_from K V keqb (new K V c t) h)) in
  hits s = count K V (is_hit K V) ev /\ misses s = count K V (is_miss K V) ev /\
  evictions s = count K V (is_evict K V keqb) ev /\
  snd (step s 0 Stats) = OStats (hits s) (misses s) (evictions s) (Z.of_nat (length (items s))) (cap s).
Proof. exact (stats_exact K V keqb). Qed.

(* a sweep never takes a live entry. A key that is absent in a reachable state is stored at t1; whether or not a sweep runs
   afterwards (at t2), a lookup at t3 - inside the lifetime counted from t1 - returns the value. Together with the next
   theorem (a lookup that misses leaves the key absent) this is the one-at-a-time explanation C11 asks of a sweep that runs
   while expired keys are looked up and stored again: wherever the sweep falls, the re-stored entries are there afterwards. *)
Theorem lru_sweep_spares_fresh_entry : forall c t t0 h t1 t2 t3 k v (sweep : bool), mono_from K V t0 h ->
  let s := reach c t t0 h in
  t1 <= t2 -> t2 <= t3 -> lookup K V keqb k (items s) = None -> (ttl s <= 0 \/ t3 - t1 <= ttl s) ->
  let s1 := fst (step s t1 (Put k v)) in
  let s2 := if sweep then fst (step s1 t2 Cleanup) else s1 in
  snd (step s2 t3 (Get k)) = OGet (Some v).
Proof. exact (fresh_survives_reachable K V keqb keqb_spec). Qed.

Theorem lru_miss_leaves_key_absent : forall c t t0 h now k, mono_from K V t0 h ->
  let s := reach c t t0 h in
  snd (step s now (Get k)) = OGet None -> lookup K V keqb k (items (fst (step s now (Get k)))) = None.
Proof. exact (miss_leaves_absent_reachable K V keqb keqb_spec). Qed.

End C12.

Print Assumptions lru_capacity.
Print Assumptions lru_sweep_spares_fresh_entry.
Print Assumptions lru_miss_leaves_key_absent.
Print Assumptions lru_evicts_least_recent.
Print Assumptions lru_ghosts_follow_history.
Print Assumptions lru_get_latest.
Print Assumptions lru_never_stale.
Print Assumptions lru_sweep_sound.
Print Assumptions lru_stats_exact.

(* non-vacuity: a concrete history at capacity 2 with an eviction, a hit, an expiry and a sweep *)
Definition ex_hist : list (Z * @op N N) :=
  [(1, Put 1%N 10%N); (2, Put 2%N 20%N); (3, Get 1%N); (4, Put 3%N 30%N); (5, Get 2%N);
   (50, Get 1%N); (51, Cleanup); (52, Stats)].
Example ex_mono : mono_from N N 0 ex_hist.
Proof. simpl. repeat split; discriminate. Qed.
Example ex_run :
  snd (run N N N.eqb (new N N 2 10) ex_hist) =
  [OUnit; OUnit; OGet (Some 10%N); OUnit; OGet None; OGet None; OInt 1; OStats 1 2 1 0 2].
Proof. vm_compute. reflexivity. Qed.

(* non-vacuity of lru_sweep_spares_fresh_entry: three entries expire together; one is looked up (a miss that leaves it
   absent), stored again, a sweep runs (it removes the two other expired entries), and the re-stored entry is found *)
Example ex_sweep :
  snd (run N N N.eqb (new N N 5 10)
         [(1, Put 1%N 10%N); (1, Put 2%N 20%N); (1, Put 3%N 30%N); (50, Get 3%N); (51, Put 3%N 31%N); (52, Cleanup); (53, Get 3%N); (53, Size)]) =
  [OUnit; OUnit; OUnit; OGet None; OUnit; OInt 2; OGet (Some 31%N); OInt 1].
Proof. vm_compute. reflexivity. Qed.
