(* C01 — Search returns a bounded, ranked, duplicate-free list of real entries.
   Statements only; proofs are `exact <lemma of Proofs/EngineProofs.v>`.
   Quantification: every environment E (stop words, tool table, host platform, BM25F parameters,
   ANY idf function, ANY fuzzy-matcher outcome), every command list, query, option record and
   NLP analysis nl (ANY multipliers / rankings): so the lexical, NLP-enhanced and typo-fallback
   paths of SearchUniversal are all covered. The cached path is C05 (cached answer = this answer). *)
From Coq Require Import List ZArith NArith Bool Floats Sorting.Sorted.
From WTF Require Import Model.Validate Model.Text Model.Platform Model.Engine Model.Recovery Model.Legacy Proofs.EngineProofs Proofs.RecoveryProofs Proofs.LegacyProofs.
Import ListNotations.

(* no entry twice; at most the limit in force (10 when none or a non-positive one is given);
   every result is an entry of the searched database (and passes the filters in force) *)
Theorem c01_bounded_members_nodup : forall E cmds q o nl,
  let r := search_universal E cmds q o nl in
  NoDup (map fst r) /\ (length r <= Z.to_nat (limit_in_force o))%nat /\
  forall i s, In (i, s) r -> exists c, nth_error cmds i = Some c /\ eligible E (eff_limit o) c = true.
Proof. exact search_universal_spec. Qed.

(* index / NLP path: consecutive scores never increase (binary64 comparison, FloatAxioms) *)
Theorem c01_ranked : forall cmds o nl sc,
  let rs := sort_desc by_score (collect cmds o nl sc) in
  let rs1 := match nl with
             | Some n => match n_tfidf n with Some ranking => rerank o ranking rs | None => rs end
             | None => rs end in
  let rs2 := match nl with Some n => (match rs1 with [] => rs1 | _ => cascade n rs1 end) | None => rs1 end in
  Sorted (desc_adj by_score) (firstn (Z.to_nat (o_limit o)) rs2).
Proof. exact ranked_sorted. Qed.

(* typo fallback: ranked by raw match quality (the normalisation to [0,1] is monotone; that last
   step is checked on every generated case, not proved: c01_fuzzy_ranked is therefore partial) *)
Theorem c01_fuzzy_ranked_partial : forall E cmds o,
  exists ranked : list (nat * Z),
    fuzzy_search E cmds o = map (fun x => (fst x, fuzzy_norm (snd x))) ranked /\
    Sorted (desc_adj (fun x : nat * Z => f_of_Z (snd x))) ranked.
Proof. exact fuzzy_ranked. Qed.

(* the CLI's last-resort recovery search (Model/Recovery.v; any database, any query): no entry twice, only entries of the
   searched database, every score finite and non-negative, and one score for the whole answer (so the order is
   non-increasing); the CLI cuts the answer to the limit (C17 compares what is printed) *)
Theorem c01_recovery : forall qlc db r, recover qlc db = Some r ->
  NoDup (map fst r) /\
  (forall i s, In (i, s) r -> (i < length db)%nat /\ PrimFloat.leb 0 s = true /\ PrimFloat.ltb s infinity = true) /\
  (forall a b, In a r -> In b r -> snd a = snd b).
Proof. exact recover_wellformed. Qed.

(* the pipeline search (Model/Legacy.v: the scan behind `wtf pipeline`), for ANY per-command scorer, any database, option
   values and limit: at most the limit in force (5 when none is given), nobody twice, only entries of the database with a
   positive score - pipelines only when only pipelines are asked for - in non-increasing order *)
Theorem c01_pipeline_search : forall score cmds po boost limit,
  let r := pipeline_search score cmds po boost limit in
  (Z.of_nat (length r) <= legacy_limit limit)%Z /\
  NoDup (map fst r) /\
  (forall i s, In (i, s) r -> exists c, nth_error cmds i = Some c /\ PrimFloat.ltb 0 s = true /\ (po = true -> pipeline_cmd c = true)) /\
  Sorted (desc_adj by_score) r.
Proof. exact pipeline_search_wellformed. Qed.

Print Assumptions c01_bounded_members_nodup.
Print Assumptions c01_pipeline_search.
Print Assumptions c01_ranked.
Print Assumptions c01_fuzzy_ranked_partial.
Print Assumptions c01_recovery.
