(* C07 — Typo fallback runs only when nothing matches and returns genuine matches.
   Statements only. The third-party matcher (sahilm/fuzzy) is an oracle here: e_fuzzy E gives, per
   entry, its raw score for the query or None. That "a match is reported only if the query's characters
   occur in order" is a property of that library; it is checked on every generated case (predicate
   genuine_match of Check/Eng.v), not proved: C07 is partial in exactly that clause. *)
From Coq Require Import List ZArith NArith Bool Floats Sorting.Sorted.
From WTF Require Import Model.Validate Model.Text Model.Platform Model.Engine Model.Fuzzy Proofs.EngineProofs Proofs.FuzzyProofs.
Import ListNotations.

(* enabling typo tolerance never changes an answer that exists *)
Theorem fuzzy_only_when_empty : forall E cmds q o nl,
  search_universal E cmds q (set_fuzzy o false) nl <> [] ->
  search_universal E cmds q (set_fuzzy o true) nl = search_universal E cmds q (set_fuzzy o false) nl.
Proof. exact fuzzy_only_when_empty. Qed.

(* every fallback result is an eligible entry the matcher accepted, of quality at least the requested
   threshold (0 = none), no entry twice, at most the limit *)
Theorem fuzzy_results_genuine : forall E cmds o,
  NoDup (map fst (fuzzy_search E cmds o)) /\
  (length (fuzzy_search E cmds o) <= Z.to_nat (o_limit o))%nat /\
  forall i s, In (i, s) (fuzzy_search E cmds o) ->
    exists c raw, nth_error cmds i = Some c /\ eligible E o c = true /\ nth i (e_fuzzy E) None = Some raw /\
                  (o_threshold o = 0 \/ o_threshold o <= raw)%Z /\ s = fuzzy_norm raw.
Proof. exact fuzzy_spec. Qed.

(* best match first (by raw match quality) *)
Theorem fuzzy_best_first : forall E cmds o,
  exists ranked : list (nat * Z),
    fuzzy_search E cmds o = map (fun x => (fst x, fuzzy_norm (snd x))) ranked /\
    Sorted (desc_adj (fun x : nat * Z => f_of_Z (snd x))) ranked.
Proof. exact fuzzy_ranked. Qed.

(* with no threshold, a query the matcher accepts for some eligible entry is never left without a result *)
Theorem fuzzy_never_empty : forall E cmds o i c raw,
  (0 < o_limit o)%Z -> o_threshold o = 0%Z -> nth_error cmds i = Some c -> eligible E o c = true ->
  nth i (e_fuzzy E) None = Some raw -> fuzzy_search E cmds o <> [].
Proof. exact fuzzy_never_empty. Qed.

(* the matcher itself (Model/Fuzzy.v: sahilm/fuzzy transcribed for ASCII text, compared with the library's raw scores on
   every engine case): on a target without NUL bytes every match it reports is genuine - as many positions as the pattern
   has runes, strictly increasing, each holding the corresponding pattern rune up to ASCII letter case *)
Theorem matcher_matches_are_genuine : forall pattern target s idx, nul_free target = true ->
  score_target pattern target = FMatch s idx ->
  length idx = length pattern /\ genuine_fwd pattern target 0 (-1) idx.
Proof. exact matcher_genuine. Qed.

Print Assumptions fuzzy_only_when_empty.
Print Assumptions fuzzy_results_genuine.
Print Assumptions fuzzy_best_first.
Print Assumptions fuzzy_never_empty.
Print Assumptions matcher_matches_are_genuine.
