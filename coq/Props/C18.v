(* C18 — Metrics are keyed by identity and account for every event.
   Statements only; proofs are `exact <lemma of Proofs/MetricsProofs.v>`. *)
From Coq Require Import List ZArith NArith Bool Floats Sorting.Permutation.
From WTF Require Import Model.Validate Model.Metrics Proofs.MetricsProofs.
Import ListNotations.
Open Scope Z_scope.

(* same name, same tags => same series identity, whatever order the tag map is iterated in
   (ord, ord' : the tags as the runtime happened to enumerate them; tag names are map keys, hence distinct) *)
Theorem key_order_independent : forall name ord ord',
  NoDup (map fst ord) -> Permutation ord ord' -> metric_id name ord = metric_id name ord'.
Proof. exact id_order_independent. Qed.

(* different names or different tag sets => different identities *)
Theorem key_separates : forall name ord name' ord',
  metric_id name ord = metric_id name' ord' -> name = name' /\ Permutation ord ord'.
Proof. exact id_determines_tags. Qed.

(* the string key built from an identity is injective for ANY prefix-free quoting function q
   (strconv.Quote in the code): separators inside names or values cannot merge two series *)
Theorem key_string_injective : forall q : bytes -> bytes,
  (forall a b x y, q a ++ x = q b ++ y -> a = b /\ x = y) ->
  forall i j, key_string q i = key_string q j -> i = j.
Proof. exact key_string_injective. Qed.

(* a counter's value equals the increments applied to its identity: every sequence of Inc/Add calls,
   each with its own tag iteration order *)
Theorem counter_exact : forall i ops, cvalue i (crun ops) = count_for i ops.
Proof. exact counter_exact. Qed.

(* ... and for every interleaving of the atomic increments of concurrent goroutines: any two
   schedules are permutations of one another, and the value only depends on the multiset *)
Theorem counter_interleaving : forall i ops ops', Permutation ops ops' -> cvalue i (crun ops) = cvalue i (crun ops').
Proof. exact counter_interleaving. Qed.

(* a histogram reports exactly as many observations as were made; its buckets account for all of them;
   its sum is the left-to-right sum *)
Theorem histogram_exact : forall bs vals,
  let h := fold_left observe vals (hist_new bs) in
  hcount h = Z.of_nat (length vals) /\ sumZ (counts h) + overflow h = Z.of_nat (length vals).
Proof. exact hist_exact. Qed.

Theorem histogram_sum : forall bs vals,
  hsum (fold_left observe vals (hist_new bs)) = fold_left PrimFloat.add vals zero.
Proof. exact hist_sum. Qed.

(* percentiles never decrease as the (integer) rank target grows, for ascending bucket bounds.
   [partial: the target is trunc(count * p / 100) computed in binary64; its monotonicity in p is not
   proved here (it is compared bit for bit with the code and the observed percentiles are checked
   to be non-decreasing on every case)] *)
Theorem percentile_monotone_partial : forall bs vals t t',
  let h := fold_left observe vals (hist_new bs) in
  asc (buckets h ++ [last_bucket h]) = true ->
  t <= t' <= hcount h ->
  PrimFloat.leb (percentile_at h t) (percentile_at h t') = true.
Proof. exact percentile_monotone. Qed.

(* the monitor's per-search and per-operation totals equal the number of operations recorded *)
Theorem monitor_totals : forall ops,
  total_named n_searches_total (mrun ops) = countb is_search ops /\
  total_named n_cache_hits_total (mrun ops) + total_named n_cache_misses_total (mrun ops) = countb is_search ops /\
  total_named n_cache_hits_total (mrun ops) = countb is_hit ops /\
  total_named n_db_ops_total (mrun ops) = countb is_db ops.
Proof. exact monitor_totals. Qed.

Print Assumptions key_order_independent.
Print Assumptions key_separates.
Print Assumptions key_string_injective.
Print Assumptions counter_exact.
Print Assumptions counter_interleaving.
Print Assumptions histogram_exact.
Print Assumptions histogram_sum.
Print Assumptions percentile_monotone_partial.
Print Assumptions monitor_totals.

(* non-vacuity *)
Example ex_order : metric_id [97]%N [([98]%N, [49]%N); ([97]%N, [50]%N)] = metric_id [97]%N [([97]%N, [50]%N); ([98]%N, [49]%N)].
Proof. vm_compute. reflexivity. Qed.
Example ex_default_buckets_asc :
  asc ([0.1; 0.5; 1; 2.5; 5; 10; 25; 50; 100; 250; 500; 1000; 2500; 5000; 10000] ++ [10000])%float = true.
Proof. vm_compute. reflexivity. Qed.
