(* C14 — Accepted queries are clean, and validation is stable and decisive.
   Statements only; proofs are `exact <lemma of Proofs/ValidateProofs.v>`.
   Quantification: every byte string q (any bytes, valid UTF-8 or not), every integer limit. *)
From Coq Require Import List NArith ZArith Bool.
From WTF Require Import Model.Validate Spec.ValidateSpec Proofs.ValidateProofs.
Import ListNotations.

(* accepted exactly when: <= 1000 bytes, no metacharacter, not blank once control characters are removed *)
Theorem validate_accepts_iff : forall q, (exists c, validate_query q = ROk c) <-> accept_spec q = true.
Proof. exact validate_accepts_iff. Qed.

(* an accepted query comes back without control characters, metacharacters, leading / trailing /
   repeated whitespace (every space is U+0020), valid UTF-8, and with no more characters than it had *)
Theorem validate_clean : forall q c, validate_query q = ROk c -> clean_spec q c = true.
Proof. exact validate_clean. Qed.

(* validating an already validated query returns it unchanged *)
Theorem validate_idempotent : forall q c, validate_query q = ROk c -> validate_query c = ROk c.
Proof. exact validate_idempotent. Qed.

(* an accepted limit is between 1 and 100, 0 means the default; negatives and > 100 are rejected *)
Theorem limit_range : forall d n, (1 <= d <= 100)%Z -> limit_spec n (validate_limit d n) = true.
Proof. exact limit_range. Qed.

Print Assumptions validate_accepts_iff.
Print Assumptions validate_clean.
Print Assumptions validate_idempotent.
Print Assumptions limit_range.

(* non-vacuity: an input with padding, a tab, a control character, an invalid byte and NBSP is accepted *)
Example ex_accept :
  validate_query [32; 97; 9; 9; 98; 1; 255; 255; 194; 160; 99; 32]%N = ROk [97; 32; 98; 63; 32; 99]%N.
Proof. vm_compute. reflexivity. Qed.
Example ex_reject_meta : validate_query [97; 59; 98]%N = RErr EInvalidChars.
Proof. vm_compute. reflexivity. Qed.
