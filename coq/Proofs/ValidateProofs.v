(* Proofs about Model/Validate.v for C14. *)
From Coq Require Import List NArith ZArith Bool Lia ZifyBool ZifyN Arith.
From WTF Require Import Model.Validate Spec.ValidateSpec.
Import ListNotations.
Open Scope N_scope.

Local Arguments N.ltb : simpl never.
Local Arguments N.leb : simpl never.
Local Arguments N.eqb : simpl never.

(* ---------- well-formed tokens ---------- *)

Definition valid_seq (bs : list N) : bool :=
  match bs with
  | [b0] => b0 <? 128
  | [b0; b1] => negb (b0 <? 128) && two_ok b0 b1
  | [b0; b1; b2] => negb (b0 <? 128) && negb (two_ok b0 b1) && three_ok b0 b1 b2
  | [b0; b1; b2; b3] => negb (b0 <? 128) && negb (two_ok b0 b1) && negb (three_ok b0 b1 b2) && four_ok b0 b1 b2 b3
  | _ => false
  end.

Definition tok_ok (t : tok) : bool := match t with T bs => valid_seq bs | Bad b => 128 <=? b end.
Definition tok_valid (t : tok) : bool := match t with T bs => valid_seq bs | Bad _ => false end.

Lemma decode_cases s :
  s = [] \/ exists t rest, decode s = t :: decode rest /\ s = tok_bytes t ++ rest /\ tok_ok t = true /\
                           (length rest < length s)%nat.
Proof.
  destruct s as [|b0 r0]; [left; reflexivity|right].
  cbn [decode]. destruct (b0 <? 128) eqn:E0.
  { exists (T [b0]), r0. simpl. rewrite E0. repeat split; auto. }
  assert (B : tok_ok (Bad b0) = true) by (simpl; lia).
  destruct r0 as [|b1 r1]; [exists (Bad b0), []; simpl; repeat split; auto|].
  destruct (two_ok b0 b1) eqn:E1.
  { exists (T [b0; b1]), r1. simpl. rewrite E0, E1. simpl. repeat split; auto. }
  destruct r1 as [|b2 r2]; [exists (Bad b0), [b1]; simpl; repeat split; auto|].
  destruct (three_ok b0 b1 b2) eqn:E2.
  { exists (T [b0; b1; b2]), r2. simpl. rewrite E0, E1, E2. simpl. repeat split; auto. }
  destruct r2 as [|b3 r3]; [exists (Bad b0), [b1; b2]; simpl; repeat split; auto|].
  destruct (four_ok b0 b1 b2 b3) eqn:E3.
  { exists (T [b0; b1; b2; b3]), r3. simpl. rewrite E0, E1, E2, E3. simpl. repeat split; auto. }
  exists (Bad b0), (b1 :: b2 :: b3 :: r3). simpl. repeat split; auto.
Qed.

Lemma decode_ind (P : list N -> Prop) :
  P [] ->
  (forall t rest, tok_ok t = true -> decode (tok_bytes t ++ rest) = t :: decode rest -> P rest -> P (tok_bytes t ++ rest)) ->
  forall s, P s.
Proof.
  intros H0 HS s. remember (length s) as n eqn:Hn.
  revert s Hn. induction n as [n IH] using lt_wf_ind. intros s Hn.
  destruct (decode_cases s) as [E|[t [rest [D [E [O L]]]]]]; [subst; exact H0|].
  rewrite E. apply HS; [exact O | rewrite <- E; exact D |].
  apply (IH (length rest)); [lia | reflexivity].
Qed.

Lemma flat_decode s : flat (decode s) = s.
Proof.
  induction s as [|t rest O D IH] using decode_ind; [reflexivity|].
  rewrite D. unfold flat in *. simpl. rewrite IH. reflexivity.
Qed.

Lemma decode_ok s : forallb tok_ok (decode s) = true.
Proof.
  induction s as [|t rest O D IH] using decode_ind; [reflexivity|].
  rewrite D. simpl. rewrite O, IH. reflexivity.
Qed.

Lemma decode_valid_app bs rest : valid_seq bs = true -> decode (bs ++ rest) = T bs :: decode rest.
Proof.
  destruct bs as [|b0 [|b1 [|b2 [|b3 [|b4 r]]]]]; simpl valid_seq; try discriminate; intros H.
  - cbn [app decode]. rewrite H. reflexivity.
  - apply andb_true_iff in H. destruct H as [H0 H1]. apply negb_true_iff in H0.
    cbn [app decode]. rewrite H0, H1. reflexivity.
  - apply andb_true_iff in H. destruct H as [H H2]. apply andb_true_iff in H. destruct H as [H0 H1].
    apply negb_true_iff in H0, H1. cbn [app decode]. rewrite H0, H1, H2. reflexivity.
  - apply andb_true_iff in H. destruct H as [H H3]. apply andb_true_iff in H. destruct H as [H H2].
    apply andb_true_iff in H. destruct H as [H0 H1]. apply negb_true_iff in H0, H1, H2.
    cbn [app decode]. rewrite H0, H1, H2, H3. reflexivity.
Qed.

Lemma decode_flat ts : forallb tok_valid ts = true -> decode (flat ts) = ts.
Proof.
  induction ts as [|t r IH]; [reflexivity|]. simpl. intros H. apply andb_true_iff in H. destruct H as [H1 H2].
  destruct t as [bs|b]; [|discriminate]. unfold flat. simpl. rewrite decode_valid_app by exact H1.
  fold (flat r). rewrite IH by exact H2. reflexivity.
Qed.

(* ---------- equality tests ---------- *)

Lemma bytes_eqb_eq a b : bytes_eqb a b = true -> a = b.
Proof.
  revert b. induction a as [|x a IH]; intros [|y b]; simpl; try discriminate; [reflexivity|].
  intros H. apply andb_true_iff in H. destruct H as [H1 H2]. apply N.eqb_eq in H1. subst.
  f_equal. apply IH. exact H2.
Qed.

Lemma tok_eqb_eq a b : tok_eqb a b = true -> a = b.
Proof.
  destruct a, b; simpl; try discriminate; intros H.
  - f_equal. apply bytes_eqb_eq. exact H.
  - f_equal. apply N.eqb_eq. exact H.
Qed.

(* ---------- facts about the classes ---------- *)

Lemma space_not_bad t : is_space t = true -> is_bad t = false.
Proof. destruct t; [reflexivity | discriminate]. Qed.

Lemma space_bytes t : is_space t = true -> (1 <= length (tok_bytes t))%nat.
Proof. destruct t as [[|b r]|b]; simpl; try discriminate; intros; lia. Qed.

Lemma control_kept_is_space t : is_control t = true -> removable t = false -> is_space t = true.
Proof.
  unfold removable. intros C R. rewrite C in R. simpl in R.
  apply andb_false_iff in R. destruct R as [R|R]; apply negb_false_iff in R; apply tok_eqb_eq in R; subst; reflexivity.
Qed.

Lemma meta_byte_not_control b : is_meta_byte b = true -> ((b <? 32) || (b =? 127)) = false.
Proof. unfold is_meta_byte. intros H. lia. Qed.

Lemma meta_not_removable t : is_meta t = true -> removable t = false.
Proof.
  destruct t as [[|b [|b1 r]]|b]; simpl; try discriminate. intros H.
  unfold removable. simpl. rewrite (meta_byte_not_control b H). reflexivity.
Qed.

Lemma meta_not_space t : is_meta t = true -> is_space t = false.
Proof.
  destruct t as [[|b [|b1 r]]|b]; simpl; try discriminate. unfold is_meta_byte, inr. intros H. lia.
Qed.

Lemma meta_bytes_tok t : tok_ok t = true -> existsb is_meta_byte (tok_bytes t) = is_meta t.
Proof.
  destruct t as [bs|b]; simpl.
  - destruct bs as [|b0 [|b1 [|b2 [|b3 [|b4 r]]]]]; simpl; try discriminate; intros H.
    + rewrite orb_false_r. reflexivity.
    + unfold two_ok, cont, inr in H. unfold is_meta_byte. lia.
    + unfold three_ok, two_ok, cont, inr in H. unfold is_meta_byte. lia.
    + unfold four_ok, three_ok, two_ok, cont, inr in H. unfold is_meta_byte. lia.
  - unfold is_meta_byte. intros H. lia.
Qed.

Lemma meta_bytes_flat ts : forallb tok_ok ts = true -> existsb is_meta_byte (flat ts) = existsb is_meta ts.
Proof.
  induction ts as [|t r IH]; [reflexivity|]. simpl. intros H. apply andb_true_iff in H. destruct H as [H1 H2].
  unfold flat. simpl. rewrite existsb_app. fold (flat r). rewrite IH by exact H2.
  rewrite meta_bytes_tok by exact H1. reflexivity.
Qed.

(* ---------- to_valid ---------- *)

Lemma to_valid_meta pb ts : existsb is_meta (to_valid pb ts) = existsb is_meta ts.
Proof.
  revert pb. induction ts as [|t r IH]; intros pb; [reflexivity|].
  destruct t as [bs|b]; cbn [to_valid].
  - cbn [existsb]. rewrite IH. reflexivity.
  - destruct pb; cbn [existsb]; rewrite IH; reflexivity.
Qed.

Lemma to_valid_nobad pb ts : existsb is_bad (to_valid pb ts) = false.
Proof.
  revert pb. induction ts as [|t r IH]; intros pb; [reflexivity|].
  destruct t as [bs|b]; cbn [to_valid].
  - cbn [existsb is_bad]. apply IH.
  - destruct pb; cbn [existsb is_bad QM]; apply IH.
Qed.

Lemma to_valid_id pb ts : existsb is_bad ts = false -> to_valid pb ts = ts.
Proof.
  revert pb. induction ts as [|t r IH]; intros pb; [reflexivity|].
  destruct t as [bs|b]; cbn [to_valid existsb is_bad]; [|discriminate].
  intros H. rewrite IH by exact H. reflexivity.
Qed.

Lemma to_valid_valid pb ts : forallb tok_ok ts = true -> forallb tok_valid (to_valid pb ts) = true.
Proof.
  revert pb. induction ts as [|t r IH]; intros pb; [reflexivity|].
  cbn [forallb]. intros H. apply andb_true_iff in H. destruct H as [H1 H2].
  destruct t as [bs|b]; cbn [to_valid].
  - cbn [forallb tok_valid]. simpl in H1. rewrite H1. apply IH. exact H2.
  - destruct pb; cbn [forallb]; [apply IH; exact H2|]. rewrite IH by exact H2. reflexivity.
Qed.

Lemma to_valid_len pb ts : (length (to_valid pb ts) <= length ts)%nat.
Proof.
  revert pb. induction ts as [|t r IH]; intros pb; [simpl; lia|].
  destruct t as [bs|b]; cbn [to_valid length].
  - specialize (IH false). lia.
  - destruct pb; cbn [length]; specialize (IH true); lia.
Qed.

Lemma to_valid_flat_len pb ts : (length (flat (to_valid pb ts)) <= length (flat ts))%nat.
Proof.
  revert pb. induction ts as [|t r IH]; intros pb; [simpl; lia|].
  unfold flat in *. destruct t as [bs|b]; cbn [to_valid flat_map tok_bytes].
  - rewrite !app_length. specialize (IH false). lia.
  - destruct pb; cbn [flat_map tok_bytes QM]; rewrite ?app_length; cbn [length]; specialize (IH true); simpl; lia.
Qed.

(* blankness is not affected by the replacement of invalid bytes *)
Lemma to_valid_blank ts :
  forallb is_space (filter (fun t => negb (removable t)) (to_valid false ts)) =
  forallb is_space (filter (fun t => negb (removable t)) ts).
Proof.
  induction ts as [|t r IH]; [reflexivity|].
  destruct t as [bs|b]; cbn [to_valid].
  - cbn [filter]. destruct (negb (removable (T bs))); cbn [forallb]; rewrite IH; reflexivity.
  - reflexivity.
Qed.

(* ---------- filter ---------- *)

Lemma filter_len {A} (f : A -> bool) l : (length (filter f l) <= length l)%nat.
Proof. induction l as [|x l IH]; simpl; [lia|]. destruct (f x); simpl; lia. Qed.

Lemma filter_flat_len f ts : (length (flat (filter f ts)) <= length (flat ts))%nat.
Proof.
  unfold flat. induction ts as [|t r IH]; simpl; [lia|].
  destruct (f t); simpl; rewrite ?app_length; lia.
Qed.

Lemma forallb_filter {A} (p f : A -> bool) l : forallb p l = true -> forallb p (filter f l) = true.
Proof.
  induction l as [|x l IH]; simpl; [auto|]. intros H. apply andb_true_iff in H. destruct H as [H1 H2].
  destruct (f x); simpl; [rewrite H1|]; auto.
Qed.

Lemma existsb_filter_false {A} (p f : A -> bool) l : existsb p l = false -> existsb p (filter f l) = false.
Proof.
  induction l as [|x l IH]; simpl; [auto|]. intros H. apply orb_false_iff in H. destruct H as [H1 H2].
  destruct (f x); simpl; [rewrite H1|]; auto.
Qed.

Lemma filter_meta ts :
  existsb is_meta (filter (fun t => negb (removable t)) ts) = existsb is_meta ts.
Proof.
  induction ts as [|t r IH]; [reflexivity|]. cbn [filter existsb].
  destruct (removable t) eqn:R; cbn [negb existsb]; rewrite IH; [|reflexivity].
  destruct (is_meta t) eqn:M; [|reflexivity]. rewrite (meta_not_removable _ M) in R. discriminate.
Qed.

Lemma filter_id {A} (f : A -> bool) l : forallb f l = true -> filter f l = l.
Proof.
  induction l as [|x l IH]; simpl; [auto|]. intros H. apply andb_true_iff in H. destruct H as [H1 H2].
  rewrite H1, IH; auto.
Qed.

(* ---------- norm ---------- *)

Lemma norm_nil st pd ts : norm st pd ts = [] <-> forallb is_space ts = true.
Proof.
  revert st pd. induction ts as [|t r IH]; intros st pd; cbn [norm forallb]; [tauto|].
  destruct (is_space t); [rewrite IH; tauto|].
  split; [destruct pd; discriminate | discriminate].
Qed.

Lemma norm_nf_false st pd ts : nf_from false (norm st pd ts) = true.
Proof.
  revert st pd. induction ts as [|t r IH]; intros st pd; cbn [norm]; [reflexivity|].
  destruct (is_space t) eqn:S; [apply IH|].
  destruct pd; cbn [app nf_from]; rewrite ?S; [|apply IH].
  change (is_space SP) with true. change (tok_eqb SP SP) with true. cbn [negb andb]. apply IH.
Qed.

Lemma norm_nf ts : norm false false ts <> [] -> nf (norm false false ts) = true.
Proof.
  induction ts as [|t r IH]; cbn [norm]; [congruence|].
  destruct (is_space t) eqn:S; [exact IH|]. intros _. cbn [app nf nf_from]. rewrite S. apply norm_nf_false.
Qed.

Lemma norm_fix_aux ts :
  (nf_from false ts = true -> norm true false ts = ts) /\
  (nf_from true ts = true -> norm true true ts = SP :: ts).
Proof.
  induction ts as [|t r [IH1 IH2]]; cbn [nf_from norm]; [split; [reflexivity | discriminate]|].
  destruct (is_space t) eqn:S; split; intros H.
  - cbn [negb andb] in H. apply andb_true_iff in H. destruct H as [H1 H2]. apply tok_eqb_eq in H1.
    subst t. apply IH2. exact H2.
  - discriminate.
  - cbn [app]. rewrite IH1 by exact H. reflexivity.
  - cbn [app]. rewrite IH1 by exact H. reflexivity.
Qed.

Lemma norm_fix ts : nf ts = true -> norm false false ts = ts.
Proof.
  destruct ts as [|t r]; [discriminate|]. cbn [nf nf_from norm].
  destruct (is_space t) eqn:S; [discriminate|]. intros H. cbn [app].
  rewrite (proj1 (norm_fix_aux r) H). reflexivity.
Qed.

Lemma norm_in st pd ts t : In t (norm st pd ts) -> t = SP \/ (In t ts /\ is_space t = false).
Proof.
  revert st pd. induction ts as [|x r IH]; intros st pd; cbn [norm]; [intros []|].
  destruct (is_space x) eqn:S.
  - intros H. destruct (IH _ _ H) as [A|[A B]]; [auto | right; split; [right|]; auto].
  - intros H. apply in_app_or in H. destruct H as [H|H].
    + destruct pd; simpl in H; intuition; subst; right; split; auto; left; reflexivity.
    + destruct (IH _ _ H) as [A|[A B]]; [auto | right; split; [right|]; auto].
Qed.

Lemma norm_len st pd ts : (length (norm st pd ts) <= length ts + (if pd then 1 else 0))%nat.
Proof.
  revert st pd. induction ts as [|t r IH]; intros st pd; cbn [norm length]; [lia|].
  destruct (is_space t).
  - specialize (IH st st). destruct st, pd; simpl in *; lia.
  - rewrite app_length. specialize (IH true false). destruct pd; simpl in *; lia.
Qed.

Lemma norm_flat_len st pd ts :
  (length (flat (norm st pd ts)) <= length (flat ts) + (if pd then 1 else 0))%nat.
Proof.
  revert st pd. induction ts as [|t r IH]; intros st pd; cbn [norm]; [simpl; lia|].
  unfold flat in *. cbn [flat_map]. rewrite app_length.
  destruct (is_space t) eqn:S.
  - specialize (IH st st). pose proof (space_bytes _ S). destruct st, pd; simpl in *; lia.
  - rewrite flat_map_app, app_length. specialize (IH true false). destruct pd; simpl in *; rewrite ?app_length; simpl; lia.
Qed.

Lemma first_nonspace ts : nf ts = true -> forallb is_space ts = false.
Proof.
  destruct ts as [|t r]; [discriminate|]. cbn [nf nf_from forallb].
  destruct (is_space t); [discriminate | reflexivity].
Qed.

(* ---------- the shape of an accepted result ---------- *)

Definition nr (t : tok) : bool := negb (removable t).

Lemma accepted_shape q c :
  validate_query q = ROk c ->
  let cl := cleaned_toks q in
  let out := norm false false cl in
  c = flat out /\ out <> [] /\
  forallb is_space (decode q) = false /\ N.of_nat (length q) <= max_query_length /\
  existsb is_meta cl = false.
Proof.
  unfold validate_query. intros H.
  destruct (forallb is_space (decode q)) eqn:B; [discriminate|].
  destruct (max_query_length <? N.of_nat (length q)) eqn:L; [discriminate|].
  destruct (existsb is_meta (cleaned_toks q)) eqn:M; [discriminate|].
  destruct (norm false false (cleaned_toks q)) eqn:O; [discriminate|].
  inversion H; subst. repeat split; auto; [discriminate | lia].
Qed.

Lemma cl_valid q : forallb tok_valid (cleaned_toks q) = true.
Proof. unfold cleaned_toks. apply forallb_filter. apply to_valid_valid. apply decode_ok. Qed.

Lemma filter_forallb {A} (f : A -> bool) l : forallb f (filter f l) = true.
Proof.
  induction l as [|x l IH]; [reflexivity|]. simpl. destruct (f x) eqn:E; [simpl; rewrite E|]; exact IH.
Qed.

Lemma cl_nr q : forallb nr (cleaned_toks q) = true.
Proof. unfold cleaned_toks. apply (filter_forallb nr). Qed.

Lemma forallb_In {A} (p : A -> bool) l x : forallb p l = true -> In x l -> p x = true.
Proof. intros H I. rewrite forallb_forall in H. auto. Qed.

Lemma existsb_In_false {A} (p : A -> bool) l x : existsb p l = false -> In x l -> p x = false.
Proof.
  intros H I. destruct (p x) eqn:E; [|reflexivity].
  assert (existsb p l = true) by (apply existsb_exists; eauto). congruence.
Qed.

Lemma out_props q :
  let out := norm false false (cleaned_toks q) in
  existsb is_meta (cleaned_toks q) = false ->
  forallb tok_valid out = true /\ forallb nr out = true /\ existsb is_meta out = false /\
  existsb is_bad out = false /\ existsb is_control out = false.
Proof.
  intros out M.
  assert (P : forall t, In t out -> tok_valid t = true /\ nr t = true /\ is_meta t = false /\
                                    is_bad t = false /\ is_control t = false).
  { intros t I. apply norm_in in I. destruct I as [E|[I S]]; [subst; repeat split; reflexivity|].
    pose proof (forallb_In _ _ _ (cl_valid q) I) as V.
    pose proof (forallb_In _ _ _ (cl_nr q) I) as R.
    pose proof (existsb_In_false _ _ _ M I) as Me.
    repeat split; auto.
    - destruct t; [reflexivity | discriminate].
    - destruct (is_control t) eqn:C; [|reflexivity].
      unfold nr in R. apply negb_true_iff in R. rewrite (control_kept_is_space _ C R) in S. discriminate. }
  repeat split.
  - apply forallb_forall. intros t I. apply P. exact I.
  - apply forallb_forall. intros t I. apply P. exact I.
  - destruct (existsb is_meta out) eqn:E; [|reflexivity]. apply existsb_exists in E.
    destruct E as [t [I E]]. destruct (P t I) as [_ [_ [X _]]]. congruence.
  - destruct (existsb is_bad out) eqn:E; [|reflexivity]. apply existsb_exists in E.
    destruct E as [t [I E]]. destruct (P t I) as [_ [_ [_ [X _]]]]. congruence.
  - destruct (existsb is_control out) eqn:E; [|reflexivity]. apply existsb_exists in E.
    destruct E as [t [I E]]. destruct (P t I) as [_ [_ [_ [_ X]]]]. congruence.
Qed.

Lemma valid_ok ts : forallb tok_valid ts = true -> forallb tok_ok ts = true.
Proof.
  intros H. apply forallb_forall. intros t I. pose proof (forallb_In _ _ _ H I) as V.
  destruct t; [exact V | discriminate].
Qed.

Lemma out_byte_len q :
  (length (flat (norm false false (cleaned_toks q))) <= length q)%nat.
Proof.
  pose proof (norm_flat_len false false (cleaned_toks q)) as A.
  unfold cleaned_toks in *.
  pose proof (filter_flat_len (fun t => negb (removable t)) (to_valid false (decode q))) as B.
  pose proof (to_valid_flat_len false (decode q)) as C. rewrite flat_decode in C. simpl in A. lia.
Qed.

Lemma out_rune_len q :
  (length (norm false false (cleaned_toks q)) <= length (decode q))%nat.
Proof.
  pose proof (norm_len false false (cleaned_toks q)) as A.
  unfold cleaned_toks in *.
  pose proof (filter_len (fun t => negb (removable t)) (to_valid false (decode q))) as B.
  pose proof (to_valid_len false (decode q)) as C. simpl in A. lia.
Qed.

(* ---------- C14 theorems ---------- *)

Lemma validate_idempotent q c : validate_query q = ROk c -> validate_query c = ROk c.
Proof.
  intros H. destruct (accepted_shape _ _ H) as [Ec [Ne [_ [L M]]]].
  set (out := norm false false (cleaned_toks q)) in *.
  destruct (out_props q M) as [V [R [Me [Nb _]]]]. fold out in V, R, Me, Nb.
  pose proof (norm_nf _ Ne) as NF. fold out in NF.
  assert (D : decode c = out) by (rewrite Ec; apply decode_flat; exact V).
  assert (CL : cleaned_toks c = out).
  { unfold cleaned_toks. rewrite D, to_valid_id by exact Nb. apply filter_id. exact R. }
  unfold validate_query. rewrite D, CL, (first_nonspace _ NF), Me, (norm_fix _ NF).
  assert (LL : (max_query_length <? N.of_nat (length c)) = false).
  { pose proof (out_byte_len q) as B. fold out in B. rewrite <- Ec in B. unfold max_query_length in *. lia. }
  rewrite LL. destruct out; [congruence|]. rewrite Ec. reflexivity.
Qed.

Lemma validate_clean q c : validate_query q = ROk c -> clean_spec q c = true.
Proof.
  intros H. destruct (accepted_shape _ _ H) as [Ec [Ne [_ [L M]]]].
  set (out := norm false false (cleaned_toks q)) in *.
  destruct (out_props q M) as [V [R [Me [Nb Nc]]]]. fold out in V, R, Me, Nb, Nc.
  pose proof (norm_nf _ Ne) as NF. fold out in NF.
  assert (D : decode c = out) by (rewrite Ec; apply decode_flat; exact V).
  unfold clean_spec. rewrite D, Nb, Nc, Me, NF.
  assert (MB : existsb is_meta_byte c = false).
  { rewrite Ec, meta_bytes_flat by (apply valid_ok; exact V). exact Me. }
  rewrite MB. cbn [negb andb].
  pose proof (out_rune_len q) as RL. fold out in RL. apply Nat.leb_le. exact RL.
Qed.

Lemma blank_filter ts : forallb is_space ts = true ->
  forallb is_space (filter (fun t => negb (removable t)) ts) = true.
Proof. apply forallb_filter. Qed.

Lemma validate_accepts_iff q : (exists c, validate_query q = ROk c) <-> accept_spec q = true.
Proof.
  assert (MQ : existsb is_meta (cleaned_toks q) = existsb is_meta_byte q).
  { unfold cleaned_toks. rewrite filter_meta, to_valid_meta.
    rewrite <- (flat_decode q) at 2. symmetry. apply meta_bytes_flat. apply decode_ok. }
  assert (BQ : forallb is_space (cleaned_toks q) =
               forallb is_space (filter (fun t => negb (removable t)) (decode q))).
  { unfold cleaned_toks. apply to_valid_blank. }
  unfold accept_spec. split.
  - intros [c H]. destruct (accepted_shape _ _ H) as [_ [Ne [_ [L M]]]].
    rewrite <- MQ, M, <- BQ.
    destruct (forallb is_space (cleaned_toks q)) eqn:B.
    + apply (norm_nil false false) in B. contradiction.
    + unfold max_query_length in *. cbn [negb andb]. rewrite andb_true_r. lia.
  - intros H. apply andb_true_iff in H. destruct H as [H H3]. apply andb_true_iff in H. destruct H as [H1 H2].
    apply negb_true_iff in H2, H3. rewrite <- MQ in H2. rewrite <- BQ in H3.
    unfold validate_query.
    destruct (forallb is_space (decode q)) eqn:B0.
    { apply blank_filter in B0. rewrite <- BQ in B0. congruence. }
    assert (LL : (max_query_length <? N.of_nat (length q)) = false) by lia.
    rewrite LL, H2.
    destruct (norm false false (cleaned_toks q)) eqn:O.
    { apply norm_nil in O. congruence. }
    eexists. reflexivity.
Qed.

Lemma limit_range d n : (1 <= d <= 100)%Z -> limit_spec n (validate_limit d n) = true.
Proof.
  intros Hd. unfold validate_limit, limit_spec.
  destruct (n <? 0)%Z eqn:A; [lia|]. destruct (n =? 0)%Z eqn:B; [lia|].
  destruct (100 <? n)%Z eqn:C; lia.
Qed.
