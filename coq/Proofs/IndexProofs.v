(* C03: the inverted index (Model/Index.v) answers exactly like the exhaustive scan (Model/Engine.v). *)
From Coq Require Import List ZArith NArith Bool Lia ZifyBool Floats.
From WTF Require Import Model.Validate Model.Text Model.Platform Model.Engine Model.Index
                        Proofs.ValidateProofs Proofs.EngineProofs Proofs.CandidateProofs.
Import ListNotations.

Local Arguments Z.of_nat : simpl never.

Lemma beq_iff a b : bytes_eqb a b = true <-> a = b.
Proof. split; [apply bytes_eqb_eq | intros; subst; apply beq_refl]. Qed.

Lemma beq_sym a b : bytes_eqb a b = bytes_eqb b a.
Proof.
  destruct (bytes_eqb a b) eqn:E1, (bytes_eqb b a) eqn:E2; try reflexivity.
  - apply beq_iff in E1. subst. rewrite beq_refl in E2. discriminate.
  - apply beq_iff in E2. subst. rewrite beq_refl in E1. discriminate.
Qed.

(* ---------- the per-document term-frequency map ---------- *)

Fixpoint assoc_tf (t : bytes) (m : list (bytes * tf4)) : option tf4 :=
  match m with [] => None | (t', f) :: r => if bytes_eqb t t' then Some f else assoc_tf t r end.
Definition val (t : bytes) (m : list (bytes * tf4)) : tf4 := match assoc_tf t m with Some f => f | None => tf_zero end.
Definition present (t : bytes) (m : list (bytes * tf4)) : bool := match assoc_tf t m with Some _ => true | None => false end.

Lemma bump_assoc f t t' m :
  assoc_tf t' (bump_tf f t m) = if bytes_eqb t' t then Some (bump_field f (val t m)) else assoc_tf t' m.
Proof.
  unfold val. induction m as [|[k v] r IH]; simpl.
  - destruct (bytes_eqb t' t); reflexivity.
  - destruct (bytes_eqb t k) eqn:TK; simpl.
    + apply beq_iff in TK. subst k. destruct (bytes_eqb t' t); reflexivity.
    + destruct (bytes_eqb t' k) eqn:T'K.
      * apply beq_iff in T'K. subst k. rewrite beq_sym, TK. reflexivity.
      * rewrite IH. reflexivity.
Qed.

Lemma bump_keys_nodup f t m : NoDup (map fst m) -> NoDup (map fst (bump_tf f t m)).
Proof.
  induction m as [|[k v] r IH]; simpl; intros ND; [constructor; [intros [] | constructor]|].
  inversion ND as [|? ? NI ND']; subst. destruct (bytes_eqb t k) eqn:TK; simpl; [constructor; auto|].
  constructor; [|apply IH; exact ND']. intros I. apply NI.
  clear - I TK. induction r as [|[k' v'] r IH]; simpl in *.
  - destruct I as [I|[]]. subst. rewrite beq_refl in TK. discriminate.
  - destruct (bytes_eqb t k'); simpl in *; [exact I|]. destruct I as [I|I]; [left; exact I | right; apply IH; exact I].
Qed.

Definition field_of (f : nat) (x : tf4) : Z :=
  match f with O => tf_cmd x | S O => tf_desc x | S (S O) => tf_keys x | _ => tf_tags x end.

Lemma bump_field_same f x : field_of f (bump_field f x) = (field_of f x + 1)%Z.
Proof. destruct f as [|[|[|f]]]; reflexivity. Qed.

Lemma bump_field_other f g x : (f < 4)%nat -> (g < 4)%nat -> f <> g -> field_of g (bump_field f x) = field_of g x.
Proof. intros F G N. destruct f as [|[|[|[|f]]]]; destruct g as [|[|[|[|g]]]]; try lia; reflexivity. Qed.

Lemma add_tokens_spec f toks : (f < 4)%nat -> forall m t,
  NoDup (map fst m) ->
  NoDup (map fst (add_tokens f toks m)) /\
  field_of f (val t (add_tokens f toks m)) = (field_of f (val t m) + count_tok t toks)%Z /\
  (forall g, (g < 4)%nat -> g <> f -> field_of g (val t (add_tokens f toks m)) = field_of g (val t m)) /\
  present t (add_tokens f toks m) = (present t m || (count_tok t toks >? 0)%Z).
Proof.
  intros F. unfold add_tokens, count_tok. induction toks as [|x r IH]; intros m t ND; simpl.
  - repeat split; auto; [lia | rewrite orb_false_r; reflexivity].
  - destruct (IH (bump_tf f x m) t (bump_keys_nodup f x m ND)) as [A [B [C D]]].
    split; [exact A|]. unfold val, present in *. rewrite bump_assoc in B, C, D.
    rewrite (beq_sym t x) in *. destruct (bytes_eqb x t) eqn:XT.
    + apply beq_iff in XT. subst x. simpl length. fold (val t m) in *.
      split; [rewrite B, bump_field_same; lia|]. split.
      * intros g G N. rewrite (C g G N). apply bump_field_other; auto.
      * rewrite D. destruct (assoc_tf t m); simpl; [reflexivity|]. symmetry. lia.
    + split; [rewrite B; reflexivity|]. split; [exact C | exact D].
Qed.

Lemma tf4_ext a b : tf_cmd a = tf_cmd b -> tf_desc a = tf_desc b -> tf_keys a = tf_keys b -> tf_tags a = tf_tags b -> a = b.
Proof. destruct a, b; simpl; intros; subst; reflexivity. Qed.

Lemma tfmap_spec E c t :
  NoDup (map fst (doc_tfmap E c)) /\ val t (doc_tfmap E c) = doc_tf E c t /\ present t (doc_tfmap E c) = tf_any (doc_tf E c t).
Proof.
  unfold doc_tfmap.
  set (m0 := @nil (bytes * tf4)).
  destruct (add_tokens_spec 0 (cmd_tokens E c) ltac:(lia) m0 t ltac:(constructor)) as [N1 [A1 [B1 C1]]].
  set (m1 := add_tokens 0 (cmd_tokens E c) m0) in *.
  destruct (add_tokens_spec 1 (desc_tokens E c) ltac:(lia) m1 t N1) as [N2 [A2 [B2 C2]]].
  set (m2 := add_tokens 1 (desc_tokens E c) m1) in *.
  destruct (add_tokens_spec 2 (keys_tokens E c) ltac:(lia) m2 t N2) as [N3 [A3 [B3 C3]]].
  set (m3 := add_tokens 2 (keys_tokens E c) m2) in *.
  destruct (add_tokens_spec 3 (tags_tokens E c) ltac:(lia) m3 t N3) as [N4 [A4 [B4 C4]]].
  set (m4 := add_tokens 3 (tags_tokens E c) m3) in *.
  assert (Z0 : forall g, field_of g (val t m0) = 0%Z) by (intros [|[|[|g]]]; reflexivity).
  split; [exact N4|]. split.
  - apply tf4_ext; unfold doc_tf; simpl.
    + change (tf_cmd (val t m4)) with (field_of 0 (val t m4)).
      rewrite (B4 0%nat ltac:(lia) ltac:(lia)), (B3 0%nat ltac:(lia) ltac:(lia)), (B2 0%nat ltac:(lia) ltac:(lia)), A1, Z0. lia.
    + change (tf_desc (val t m4)) with (field_of 1 (val t m4)).
      rewrite (B4 1%nat ltac:(lia) ltac:(lia)), (B3 1%nat ltac:(lia) ltac:(lia)), A2, (B1 1%nat ltac:(lia) ltac:(lia)), Z0. lia.
    + change (tf_keys (val t m4)) with (field_of 2 (val t m4)).
      rewrite (B4 2%nat ltac:(lia) ltac:(lia)), A3, (B2 2%nat ltac:(lia) ltac:(lia)), (B1 2%nat ltac:(lia) ltac:(lia)), Z0. lia.
    + change (tf_tags (val t m4)) with (field_of 3 (val t m4)).
      rewrite A4, (B3 3%nat ltac:(lia) ltac:(lia)), (B2 3%nat ltac:(lia) ltac:(lia)), (B1 3%nat ltac:(lia) ltac:(lia)), Z0. lia.
  - rewrite C4, C3, C2, C1. unfold tf_any, doc_tf. simpl. reflexivity.
Qed.

(* ---------- postings ---------- *)

Lemma lookup_add_posting t k p post :
  lookup_post t (add_posting k p post) = if bytes_eqb t k then lookup_post t post ++ [p] else lookup_post t post.
Proof.
  induction post as [|[k' l] r IH]; simpl.
  - destruct (bytes_eqb t k); reflexivity.
  - destruct (bytes_eqb k k') eqn:KK; simpl.
    + apply beq_iff in KK. subst k'. destruct (bytes_eqb t k); reflexivity.
    + destruct (bytes_eqb t k') eqn:TK'.
      * apply beq_iff in TK'. subst k'. rewrite beq_sym, KK. reflexivity.
      * exact IH.
Qed.

Lemma lookup_add_doc t i tfm post :
  NoDup (map fst tfm) ->
  lookup_post t (add_doc i tfm post) =
  lookup_post t post ++ (if present t tfm then [{| p_doc := i; p_tf := val t tfm |}] else []).
Proof.
  unfold add_doc, present, val. revert post. induction tfm as [|[k v] r IH]; intros post ND; simpl.
  - rewrite app_nil_r. reflexivity.
  - inversion ND as [|? ? NI ND']; subst. rewrite IH by exact ND'. rewrite lookup_add_posting.
    destruct (bytes_eqb t k) eqn:TK.
    + apply beq_iff in TK. subst k.
      assert (A : assoc_tf t r = None).
      { clear - NI. induction r as [|[k' v'] r IH]; simpl in *; [reflexivity|].
        destruct (bytes_eqb t k') eqn:E; [apply beq_iff in E; subst; exfalso; apply NI; left; reflexivity|].
        apply IH. intros I. apply NI. right. exact I. }
      rewrite A. rewrite app_nil_r. reflexivity.
    + reflexivity.
Qed.

Definition doc_postings (E : env) (t : bytes) (l : list (nat * command)) : list posting :=
  flat_map (fun ic => if tf_any (doc_tf E (snd ic) t) then [{| p_doc := fst ic; p_tf := doc_tf E (snd ic) t |}] else []) l.

Lemma lookup_build_from E t l post :
  lookup_post t (fold_left (fun post ic => add_doc (fst ic) (doc_tfmap E (snd ic)) post) l post) =
  lookup_post t post ++ doc_postings E t l.
Proof.
  revert post. induction l as [|[i c] r IH]; intros post; simpl; [rewrite app_nil_r; reflexivity|].
  rewrite IH. destruct (tfmap_spec E c t) as [ND [V P]]. rewrite lookup_add_doc by exact ND.
  rewrite P, V, <- app_assoc. reflexivity.
Qed.

(* the postings of a term are exactly the documents that contain it, in document order, with their counts *)
Lemma lookup_build E cmds t : lookup_post t (build_postings E cmds) = doc_postings E t (enumerate 0 cmds).
Proof. unfold build_postings. rewrite lookup_build_from. reflexivity. Qed.

Lemma doc_postings_len E t cmds k :
  length (doc_postings E t (enumerate k cmds)) = length (filter (fun c => tf_any (doc_tf E c t)) cmds).
Proof.
  revert k. induction cmds as [|c r IH]; intros k; simpl; [reflexivity|].
  rewrite app_length, IH. destruct (tf_any (doc_tf E c t)); reflexivity.
Qed.

(* document frequency = number of postings = number of documents containing the term *)
Lemma ix_df_eq E cmds t : ix_df (build_index E cmds) t = df E cmds t.
Proof. unfold ix_df, df, build_index. simpl. rewrite lookup_build, doc_postings_len. reflexivity. Qed.

Lemma find_app_none {A} (f : A -> bool) a b : (forall p, In p a -> f p = false) -> find f (a ++ b) = find f b.
Proof.
  induction a as [|x a IH]; intros H; simpl; [reflexivity|].
  rewrite (H x (or_introl eq_refl)). apply IH. intros p I. apply H. right. exact I.
Qed.

Lemma find_posting_build E cmds t i c k :
  nth_error cmds i = Some c ->
  find_posting (k + i) (doc_postings E t (enumerate k cmds)) =
  if tf_any (doc_tf E c t) then Some {| p_doc := k + i; p_tf := doc_tf E c t |} else None.
Proof.
  unfold find_posting. revert k i. induction cmds as [|c0 r IH]; intros k i N; [destruct i; discriminate|].
  simpl. destruct i as [|i]; simpl in N.
  - inversion N; subst c0. rewrite Nat.add_0_r. destruct (tf_any (doc_tf E c t)) eqn:T; simpl.
    + rewrite Nat.eqb_refl. reflexivity.
    + assert (G : forall l, (forall p, In p l -> (k < p_doc p)%nat) -> find (fun p => Nat.eqb (p_doc p) k) l = None).
      { induction l as [|p l IHl]; intros H; simpl; [reflexivity|].
        assert (k < p_doc p)%nat by (apply H; left; reflexivity).
        destruct (Nat.eqb (p_doc p) k) eqn:Q; [apply Nat.eqb_eq in Q; lia|]. apply IHl. intros q I. apply H. right. exact I. }
      apply G. intros p I. unfold doc_postings in I. apply in_flat_map in I. destruct I as [[j c'] [I1 I2]].
      apply enumerate_in in I1. simpl in I2. destruct (tf_any (doc_tf E c' t)); [|destruct I2].
      destruct I2 as [I2|[]]. subst p. simpl. lia.
  - rewrite find_app_none.
    + replace (k + S i)%nat with (S k + i)%nat by lia. apply IH. exact N.
    + intros p I. destruct (tf_any (doc_tf E c0 t)); [|destruct I]. destruct I as [I|[]]. subst p. simpl.
      apply Nat.eqb_neq. lia.
Qed.

(* ---------- index = scan ---------- *)

Lemma fold_left_ext {A B} (f g : A -> B -> A) l a : (forall a b, f a b = g a b) -> fold_left f l a = fold_left g l a.
Proof. intros H. revert a. induction l as [|x l IH]; intros a; simpl; [reflexivity|]. rewrite H. apply IH. Qed.

Lemma ix_doc_score_eq E cmds tb terms i c :
  nth_error cmds i = Some c ->
  ix_doc_score E (build_index E cmds) tb terms i = doc_score E cmds (avg_lens E cmds) tb terms c.
Proof.
  intros N. unfold ix_doc_score, doc_score. apply fold_left_ext. intros acc t.
  rewrite ix_df_eq. change (ix_post (build_index E cmds)) with (build_postings E cmds). rewrite lookup_build.
  pose proof (find_posting_build E cmds t i c 0 N) as F. simpl in F. rewrite F.
  change (ix_n (build_index E cmds)) with (length cmds). change (ix_avg (build_index E cmds)) with (avg_lens E cmds).
  assert (L : nth i (ix_lens (build_index E cmds)) tf_zero = doc_lens E c).
  { simpl. erewrite nth_error_nth; [reflexivity|]. rewrite nth_error_map, N. reflexivity. }
  rewrite L. destruct (tf_any (doc_tf E c t)); reflexivity.
Qed.

(* the accumulator computed through the inverted index is, document for document and bit for bit,
   the one computed by scanning the command texts *)
Lemma index_eq_scan E cmds o nl terms :
  index_scores E (build_index E cmds) cmds o nl terms = initial_scores E cmds o nl terms.
Proof.
  unfold index_scores, initial_scores.
  assert (G : forall l, (forall i c, In (i, c) l -> nth_error cmds i = Some c) ->
    flat_map (fun ic : nat * command => let '(i, c) := ic in
       if eligible E o c then match ix_doc_score E (build_index E cmds) (term_boosts o nl) terms i with Some s => [(i, s)] | None => [] end else []) l =
    flat_map (fun ic : nat * command => let '(i, c) := ic in
       if eligible E o c then match doc_score E cmds (avg_lens E cmds) (term_boosts o nl) terms c with Some s => [(i, s)] | None => [] end else []) l).
  { induction l as [|[i c] r IH]; intros H; simpl; [reflexivity|].
    rewrite IH by (intros j d I; apply H; right; exact I).
    rewrite (ix_doc_score_eq E cmds _ terms i c (H i c (or_introl eq_refl))). reflexivity. }
  apply G. intros i c I. apply enumerate_in in I. destruct I as [_ I]. rewrite Nat.sub_0_r in I. exact I.
Qed.

(* ---------- keyword / tag lists: tokenising the joined list = concatenating the tokenisations ---------- *)

Lemma runs_app_sep cur a b :
  runs cur (a ++ 32%N :: b) = runs cur a ++ runs [] b.
Proof.
  revert cur. induction a as [|x a IH]; intros cur; simpl.
  - destruct cur; reflexivity.
  - destruct (is_alnum x); [apply IH|]. destruct cur; rewrite IH; reflexivity.
Qed.

Lemma tokenize_join stop l : tokenize stop (join_sp l) = flat_map (tokenize stop) l.
Proof.
  unfold tokenize. induction l as [|x r IH]; [reflexivity|].
  destruct r as [|y r'].
  - simpl. rewrite app_nil_r. reflexivity.
  - change (join_sp (x :: y :: r')) with (x ++ 32%N :: join_sp (y :: r')).
    rewrite runs_app_sep, filter_app. cbn [flat_map]. f_equal. exact IH.
Qed.

(* ---------- the index and the re-ranker never lag behind the commands ---------- *)

Definition db_run (ops : list dbop) (s : dbstate) : dbstate := fold_left db_step ops s.

Definition in_sync (s : dbstate) : Prop := st_index_from s = st_cmds s /\ st_tfidf_from s = st_cmds s.

(* state invariant: the structures were built from the current commands, or from a strictly shorter
   command list (direct growth), which the size check at the next search detects *)
Definition lag_ok (s : dbstate) : Prop :=
  st_index_from s = st_tfidf_from s /\
  (st_index_from s = st_cmds s \/ (length (st_index_from s) < length (st_cmds s))%nat).

Lemma step_lag_ok s o : (match o with DAppend more => more <> [] | _ => True end) -> lag_ok s -> lag_ok (db_step s o).
Proof.
  intros NE [A B]. destruct o; simpl; unfold lag_ok; simpl; auto.
  split; [exact A|]. right. rewrite app_length. destruct more; [congruence|]. simpl.
  destruct B as [B|B]; [rewrite B|]; lia.
Qed.

Lemma before_search_sync s : lag_ok s -> in_sync (before_search s).
Proof.
  intros [A B]. unfold before_search, in_sync.
  destruct (Nat.eqb (length (st_index_from s)) (length (st_cmds s))) eqn:Q; [|simpl; auto].
  apply Nat.eqb_eq in Q. destruct B as [B|B]; [|lia]. split; [exact B | rewrite <- A; exact B].
Qed.

Fixpoint appends_nonempty (ops : list dbop) : Prop :=
  match ops with [] => True | DAppend more :: r => more <> [] /\ appends_nonempty r | _ :: r => appends_nonempty r end.

(* after ANY history of load / merge / replace / grow, a search runs on structures built from exactly the
   commands being searched *)
Lemma never_stale ops cmds0 :
  appends_nonempty ops -> in_sync (before_search (db_run ops (fresh cmds0))).
Proof.
  intros H. apply before_search_sync. unfold db_run.
  assert (L0 : lag_ok (fresh cmds0)) by (unfold lag_ok; simpl; auto).
  revert H L0. generalize (fresh cmds0). induction ops as [|o r IH]; intros s H L; simpl; [exact L|].
  apply IH.
  - destruct o; simpl in H; tauto.
  - apply step_lag_ok; [destruct o; simpl in H; tauto | exact L].
Qed.

(* merged database = main entries followed by the notebook entries *)
Lemma merged_is_concat m p : st_cmds (db_step (fresh []) (DLoadPersonal m p)) = m ++ p.
Proof. reflexivity. Qed.
