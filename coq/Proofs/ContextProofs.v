(* Proofs about Model/Context.v (project-type detection, boost map). *)
From Coq Require Import List String NArith ZArith Bool Floats Lia.
From WTF Require Import Model.Validate Model.Text Model.Context Proofs.MetricsProofs Proofs.CandidateProofs.
Import ListNotations.
Close Scope string_scope.

(* ---- de-duplication ---- *)
Lemma dedup_in seen l t : In t (dedup seen l) <-> In t l /\ ~ In t seen.
Proof.
  revert seen; induction l as [|x r IH]; intros seen; simpl.
  - tauto.
  - destruct (mem_bytes x seen) eqn:M.
    + apply mem_bytes_iff in M. rewrite IH. split.
      * intros [A B]. auto.
      * intros [[A|A] B]; [subst; contradiction | auto].
    + assert (N : ~ In x seen) by (intro X; apply mem_bytes_iff in X; congruence).
      simpl. rewrite IH. simpl. split.
      * intros [A|[A B]]; [subst; auto | split; [auto | intro; apply B; auto]].
      * intros [[A|A] B]; [auto|].
        destruct (list_eq_dec N.eq_dec x t) as [E|E]; [auto|]. right. split; [auto|]. intros [X|X]; [contradiction | contradiction].
Qed.

Lemma dedup_nodup seen l : NoDup (dedup seen l).
Proof.
  revert seen; induction l as [|x r IH]; intros seen; simpl; [constructor|].
  destruct (mem_bytes x seen) eqn:M; [apply IH|].
  constructor; [|apply IH]. intro X. apply dedup_in in X. destruct X as [_ X]. apply X. simpl; auto.
Qed.

(* ---- the types a file can contribute ---- *)
Definition known_types : list ptype :=
  map P ["git"; "docker"; "node"; "webpack"; "vite"; "python"; "go"; "rust"; "java"; "dotnet"; "ruby"; "php"; "c"; "make";
         "kubernetes"; "terraform"; "ansible"]%string.

Ltac in_known := unfold known_types; simpl; tauto.

Lemma types_of_file_known f t : In t (types_of_file f) -> In t known_types.
Proof.
  unfold types_of_file. intros H.
  repeat (apply in_app_or in H; destruct H as [H|H]);
  repeat match type of H with In _ (if ?c then _ else _) => destruct c end;
  simpl in H; try contradiction; destruct H as [H|[]]; subst t; in_known.
Qed.

Lemma generic_not_known : ~ In (P "generic") known_types.
Proof. intro H. apply mem_bytes_iff in H. vm_compute in H. discriminate. Qed.

Lemma detect_nodup l : NoDup (detect l).
Proof.
  unfold detect. pose proof (dedup_nodup [] (raw_types l)) as H.
  destruct (dedup [] (raw_types l)); [constructor; [simpl; tauto | constructor] | exact H].
Qed.

Lemma dedup_nil l : dedup [] l = [] <-> l = [].
Proof.
  split; [|intros ->; reflexivity]. destruct l as [|x r]; [reflexivity|]. simpl. discriminate.
Qed.

(* 'generic' is reported exactly when no entry of the listing is recognised, and then it is the whole answer *)
Lemma detect_generic_iff l : In (P "generic") (detect l) <-> raw_types l = [].
Proof.
  unfold detect. split.
  - intros H. destruct (dedup [] (raw_types l)) as [|t r] eqn:E; [apply (proj1 (dedup_nil _)) in E; exact E|].
    exfalso. rewrite <- E in H. apply dedup_in in H. destruct H as [H _].
    unfold raw_types in H. apply in_flat_map in H. destruct H as [f [_ H]].
    apply types_of_file_known in H. apply generic_not_known; exact H.
  - intros ->. simpl. auto.
Qed.

Lemma detect_generic_alone l : raw_types l = [] -> detect l = [P "generic"].
Proof. intros H. unfold detect. rewrite H. reflexivity. Qed.

(* every other reported type comes from an entry of the listing that carries it, and every such type is reported *)
Lemma detect_exact l t : t <> P "generic" ->
  (In t (detect l) <-> exists f, In f l /\ In t (types_of_file f)).
Proof.
  intros G. unfold detect. destruct (dedup [] (raw_types l)) as [|x r] eqn:E.
  - apply (proj1 (dedup_nil _)) in E. split.
    + intros [H|[]]. congruence.
    + intros [f [A B]]. exfalso. assert (X : In t (raw_types l)) by (unfold raw_types; apply in_flat_map; eauto).
      rewrite E in X. exact X.
  - rewrite <- E. rewrite dedup_in. unfold raw_types. rewrite in_flat_map. simpl. tauto.
Qed.

(* the answer depends on the listing only through the set of recognised types in first-occurrence order:
   listing the same entries twice changes nothing *)
Lemma detect_idempotent_listing l : detect (l ++ l) = detect l.
Proof.
  unfold detect, raw_types. rewrite flat_map_app.
  assert (H : forall seen a b, (forall t, In t b -> In t a \/ In t seen) -> dedup seen (a ++ b) = dedup seen a).
  { intros seen a; revert seen; induction a as [|x r IH]; intros seen b Hb; simpl.
    - induction b as [|y b IHb]; [reflexivity|]. simpl.
      destruct (Hb y (or_introl eq_refl)) as [[]|Hy]. apply mem_bytes_iff in Hy. rewrite Hy. apply IHb. intros t Ht. apply Hb. right; exact Ht.
    - destruct (mem_bytes x seen) eqn:M.
      + apply IH. intros t Ht. destruct (Hb t Ht) as [[A|A]|A]; [subst; right; apply mem_bytes_iff; exact M | auto | auto].
      + f_equal. apply IH. intros t Ht. destruct (Hb t Ht) as [[A|A]|A]; [subst; right; simpl; auto | auto | right; simpl; auto]. }
  rewrite H; [reflexivity|]. intros t Ht; auto.
Qed.

(* ---- boosts: every value in the map is finite and at least 1 ---- *)
Definition good_boost (v : float) : bool := (PrimFloat.leb 1 v && PrimFloat.ltb v infinity)%bool.

Lemma table_good : forallb (fun e => forallb (fun kv => good_boost (snd kv)) (snd e)) boost_table = true.
Proof. vm_compute. reflexivity. Qed.

Lemma table_of_good t kv : In kv (table_of t) -> good_boost (snd kv) = true.
Proof.
  unfold table_of. destruct (find _ boost_table) as [e|] eqn:F; [|intros []].
  apply find_some in F. destruct F as [F _]. pose proof table_good as G. rewrite forallb_forall in G. specialize (G e F).
  rewrite forallb_forall in G. intros H. apply in_map_iff in H. destruct H as [[k v] [<- H]]. simpl. exact (G (k, v) H).
Qed.

Lemma lookup_last_in k ws acc v : lookup_last k ws acc = Some v -> acc = Some v \/ exists k', In (k', v) ws.
Proof.
  revert acc; induction ws as [|[k' v'] r IH]; intros acc H; simpl in H; [auto|].
  apply IH in H. destruct H as [H|[k'' H]].
  - destruct (bytes_eqb k k'); [injection H as <-; right; exists k'; simpl; auto | auto].
  - right. exists k''. simpl; auto.
Qed.

Lemma boosts_good types scripts targets k v :
  boost_lookup types scripts targets k = Some v -> good_boost v = true.
Proof.
  unfold boost_lookup, boost_writes. intros H. apply lookup_last_in in H. destruct H as [H|[k' H]]; [discriminate|].
  apply in_app_or in H. destruct H as [H|H].
  - apply in_flat_map in H. destruct H as [t [_ H]]. apply (table_of_good t (k', v) H).
  - apply in_app_or in H. destruct H as [H|H]; apply in_map_iff in H; destruct H as [x [E _]]; injection E as _ <-; vm_compute; reflexivity.
Qed.

(* ---- the analysis is a function of the SET of names: whatever order the entries were created in ---- *)
From Coq Require Import Sorting.Sorted Sorting.Permutation.

Lemma bytes_leb_refl a : bytes_leb a a = true.
Proof. induction a as [|x a IH]; simpl; [reflexivity|]. rewrite N.ltb_irrefl, N.eqb_refl. exact IH. Qed.

Lemma bytes_leb_total a b : bytes_leb a b = true \/ bytes_leb b a = true.
Proof.
  revert b; induction a as [|x a IH]; intros [|y b]; simpl; auto.
  destruct (N.ltb x y) eqn:A; [auto|]. destruct (N.ltb y x) eqn:B; [auto|].
  apply N.ltb_ge in A. apply N.ltb_ge in B. assert (E : x = y) by lia. subst y.
  rewrite N.eqb_refl. apply IH.
Qed.

Lemma bytes_leb_antisym a b : bytes_leb a b = true -> bytes_leb b a = true -> a = b.
Proof.
  revert b; induction a as [|x a IH]; intros [|y b]; simpl; try discriminate; [reflexivity|].
  destruct (N.ltb x y) eqn:A.
  - apply N.ltb_lt in A. destruct (N.ltb y x) eqn:B; [apply N.ltb_lt in B; lia|].
    destruct (N.eqb y x) eqn:C; [apply N.eqb_eq in C; lia | discriminate].
  - destruct (N.eqb x y) eqn:C; [|discriminate]. apply N.eqb_eq in C. subst y.
    rewrite N.ltb_irrefl, N.eqb_refl. intros H1 H2. f_equal. apply IH; assumption.
Qed.

Lemma bytes_leb_trans a b c : bytes_leb a b = true -> bytes_leb b c = true -> bytes_leb a c = true.
Proof.
  revert b c; induction a as [|x a IH]; intros [|y b] [|z c]; simpl; try discriminate; try reflexivity.
  destruct (N.ltb x y) eqn:A.
  - apply N.ltb_lt in A. intros _. destruct (N.ltb y z) eqn:B.
    + apply N.ltb_lt in B. intros _. assert (X : N.ltb x z = true) by (apply N.ltb_lt; lia). rewrite X. reflexivity.
    + destruct (N.eqb y z) eqn:C; [|discriminate]. apply N.eqb_eq in C. subst z. intros _.
      assert (X : N.ltb x y = true) by (apply N.ltb_lt; lia). rewrite X. reflexivity.
  - destruct (N.eqb x y) eqn:C; [|discriminate]. apply N.eqb_eq in C. subst y. intros H1.
    destruct (N.ltb x z); [reflexivity|]. destruct (N.eqb x z); [|discriminate]. intros H2. exact (IH _ _ H1 H2).
Qed.

Definition name_le (a b : bytes) : Prop := bytes_leb a b = true.

Lemma insert_name_perm x l : Permutation (insert_name x l) (x :: l).
Proof.
  induction l as [|y r IH]; simpl; [reflexivity|].
  destruct (bytes_leb x y); [reflexivity|]. rewrite IH. apply perm_swap.
Qed.

Lemma sort_names_perm l : Permutation (sort_names l) l.
Proof. induction l as [|x r IH]; simpl; [reflexivity|]. rewrite insert_name_perm, IH. reflexivity. Qed.

Lemma insert_name_sorted x l : StronglySorted name_le l -> StronglySorted name_le (insert_name x l).
Proof.
  induction l as [|y r IH]; simpl; intros S; [repeat constructor|].
  inversion S as [|? ? S' F]; subst.
  destruct (bytes_leb x y) eqn:C.
  - constructor; [exact S|]. constructor; [exact C|].
    eapply Forall_impl; [|exact F]. intros z Hz. exact (bytes_leb_trans _ _ _ C Hz).
  - constructor; [apply IH; exact S'|].
    assert (YX : bytes_leb y x = true) by (destruct (bytes_leb_total x y) as [H|H]; [congruence | exact H]).
    apply (Permutation_Forall (Permutation_sym (insert_name_perm x r))). constructor; assumption.
Qed.

Lemma sort_names_sorted l : StronglySorted name_le (sort_names l).
Proof. induction l as [|x r IH]; simpl; [constructor|]. apply insert_name_sorted. exact IH. Qed.

Lemma sorted_perm_unique l l' :
  StronglySorted name_le l -> StronglySorted name_le l' -> Permutation l l' -> l = l'.
Proof.
  revert l'; induction l as [|x r IH]; intros l' S S' P.
  - apply Permutation_nil in P. subst; reflexivity.
  - destruct l' as [|y r']; [apply Permutation_sym, Permutation_nil in P; discriminate|].
    inversion S as [|? ? Sr F]; subst. inversion S' as [|? ? Sr' F']; subst.
    assert (XY : x = y).
    { assert (Ix : In x (y :: r')) by (apply (Permutation_in _ P); left; reflexivity).
      assert (Iy : In y (x :: r)) by (apply (Permutation_in _ (Permutation_sym P)); left; reflexivity).
      destruct Ix as [E|Ix]; [congruence|]. destruct Iy as [E|Iy]; [congruence|].
      rewrite Forall_forall in F, F'. apply bytes_leb_antisym; [apply F; exact Iy | apply F'; exact Ix]. }
    subst y. f_equal. apply IH; [exact Sr | exact Sr' | exact (Permutation_cons_inv P)].
Qed.

(* two directories holding the same names - created, stored or enumerated in whatever order - have the same listing ... *)
Lemma sort_names_order_free l l' : Permutation l l' -> sort_names l = sort_names l'.
Proof.
  intros P. apply sorted_perm_unique; [apply sort_names_sorted | apply sort_names_sorted|].
  rewrite sort_names_perm, P. symmetry. apply sort_names_perm.
Qed.

(* ... and therefore the same project types, in the same order *)
Lemma analyze_names_order_free l l' : Permutation l l' -> analyze_names l = analyze_names l'.
Proof. intros P. unfold analyze_names. rewrite (sort_names_order_free l l' P). reflexivity. Qed.

(* a listing that is already in name order is its own sort: what os.ReadDir returns is what the model analyses *)
Lemma sort_names_id l : StronglySorted name_le l -> sort_names l = l.
Proof. intros S. apply sorted_perm_unique; [apply sort_names_sorted | exact S | apply sort_names_perm]. Qed.

Lemma sorted_listing_as_is listing : StronglySorted name_le listing -> analyze_names listing = detect listing.
Proof. intros S. unfold analyze_names. rewrite (sort_names_id listing S). reflexivity. Qed.
