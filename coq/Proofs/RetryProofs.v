From Coq Require Import List ZArith NArith Bool QArith Qround Qpower Lia Psatz.
From WTF Require Import Model.Validate Model.Text Model.Retry.
From Coq Require Import Lqa.
Import ListNotations.

Section RetryProofs.
Variable A : Type.
Variable embedded : list A.

(* the real database whenever the main file loads and the notebook loads or is merely absent *)
Lemma real_when_possible c faults m p :
  faults 1%nat = (AOk m, p) -> (p = ANotExist \/ exists l, p = AOk l) ->
  fst (fst (load_with_fallback A embedded c faults)) = m ++ match p with AOk l => l | _ => [] end.
Proof.
  intros F H. unfold load_with_fallback, load_with_retry. destruct (attempts_of c - 1)%nat; simpl; rewrite F;
    destruct H as [H|[l H]]; subst p; simpl; rewrite ?app_nil_r; reflexivity.
Qed.

Lemma lwp_ok m p db : load_with_personal A m p = Datatypes.inl db ->
  exists ml, m = AOk ml /\ db = ml ++ match p with AOk l => l | _ => [] end.
Proof.
  destruct m as [ml| | | |]; simpl; try discriminate.
  destruct p as [pl| | | |]; simpl; intros H; try discriminate; injection H as H; subst db; exists ml; split; auto. rewrite app_nil_r. reflexivity.
Qed.

Lemma retry_ok c faults a r db n ws : retry_loop A c faults a r = (Datatypes.inl db, n, ws) ->
  exists k m p, faults k = (AOk m, p) /\ db = m ++ match p with AOk l => l | _ => [] end.
Proof.
  revert a n ws. induction r as [|r IH]; intros a n ws; simpl.
  - destruct (faults a) as [m p] eqn:F. destruct (load_with_personal A m p) as [d|e] eqn:L.
    + intros H. injection H as H1 H2 H3. subst d. destruct (lwp_ok _ _ _ L) as [ml [E1 E2]]. subst m. exists a, ml, p. auto.
    + destruct (should_retry e); intros H; inversion H.
  - destruct (faults a) as [m p] eqn:F. destruct (load_with_personal A m p) as [d|e] eqn:L.
    + intros H. injection H as H1 H2 H3. subst d. destruct (lwp_ok _ _ _ L) as [ml [E1 E2]]. subst m. exists a, ml, p. auto.
    + destruct (should_retry e); [|intros H; inversion H].
      destruct (retry_loop A c faults (S a) r) as [[res n'] ws'] eqn:R. intros H. inversion H; subst. eapply IH. exact R.
Qed.

(* otherwise a non-empty built-in fallback: loading always ends with a database and no error *)
Lemma load_total c faults :
  let db := fst (fst (load_with_fallback A embedded c faults)) in
  db = embedded \/ exists n m p, faults n = (AOk m, p) /\ (db = m ++ match p with AOk l => l | _ => [] end).
Proof.
  unfold load_with_fallback, load_with_retry.
  destruct (retry_loop A c faults 1 (attempts_of c - 1)) as [[res n] ws] eqn:R.
  destruct res as [db|e]; simpl; [right; eapply retry_ok; exact R | left; reflexivity].
Qed.

(* attempts: exactly one for a missing or permission-denied file, at most max(1, MaxAttempts) otherwise *)
Lemma attempts_bound c faults a r : let '(_, n, ws) := retry_loop A c faults a r in (a <= n <= a + r)%nat /\ length ws = (n - a)%nat.
Proof.
  revert a. induction r as [|r IH]; intros a; simpl.
  - destruct (faults a) as [m p]. destruct (load_with_personal A m p) as [db|e]; [simpl; lia|].
    destruct (should_retry e); simpl; lia.
  - destruct (faults a) as [m p]. destruct (load_with_personal A m p) as [db|e]; [simpl; lia|].
    destruct (should_retry e); [|simpl; lia].
    specialize (IH (S a)). destruct (retry_loop A c faults (S a) r) as [[res n] ws]. simpl. destruct IH as [I1 I2]. split; [lia | simpl; lia].
Qed.

Lemma load_attempts c faults :
  let '(_, n, ws) := load_with_retry A c faults in
  (1 <= n <= attempts_of c)%nat /\ length ws = (n - 1)%nat.
Proof.
  unfold load_with_retry. pose proof (attempts_bound c faults 1 (attempts_of c - 1)) as H.
  destruct (retry_loop A c faults 1 (attempts_of c - 1)) as [[res n] ws]. unfold attempts_of in *. lia.
Qed.

Lemma no_futile_retry c faults m p e :
  faults 1%nat = (m, p) -> load_with_personal A m p = Datatypes.inr e -> should_retry e = false ->
  snd (fst (load_with_retry A c faults)) = 1%nat /\ snd (load_with_retry A c faults) = [].
Proof.
  intros F L S. unfold load_with_retry. destruct (attempts_of c - 1)%nat; simpl; rewrite F, L, S; simpl; auto.
Qed.

(* waits never decrease, are never negative and never exceed the configured maximum (factor >= 1, base >= 0) *)
Ltac qb := repeat match goal with
  | H : Qle_bool _ _ = true |- _ => apply Qle_bool_iff in H
  | H : Qle_bool ?a ?b = false |- _ => assert (~ (a <= b)%Q) by (rewrite <- Qle_bool_iff; congruence); clear H
  end.

Lemma clampQ_range d cap : (0 <= clampQ d cap)%Q /\ ((0 <= cap)%Q -> (clampQ d cap <= cap)%Q) /\ ((cap < 0)%Q -> clampQ d cap == 0).
Proof.
  unfold clampQ. destruct (Qle_bool 0 d) eqn:E0;
  [destruct (Qle_bool d cap) eqn:E1 | destruct (Qle_bool 0 cap) eqn:E1]; try destruct (Qle_bool 0 cap) eqn:E2; qb; repeat split; intros; try lra.
Qed.

Lemma clampQ_mono d d' cap : (d <= d')%Q -> (clampQ d cap <= clampQ d' cap)%Q.
Proof.
  intros H. unfold clampQ.
  destruct (Qle_bool 0 d) eqn:A0, (Qle_bool 0 d') eqn:B0;
  repeat match goal with |- context [Qle_bool ?a ?b] => let E := fresh "E" in destruct (Qle_bool a b) eqn:E end; qb; lra.
Qed.

Lemma delay_range c k : (0 <= delay c k)%Q /\ ((0 <= r_max c)%Q -> (delay c k <= r_max c)%Q) /\ ((r_max c < 0)%Q -> delay c k == 0).
Proof. unfold delay. apply clampQ_range. Qed.

Lemma Qpower_mono f (a b : nat) : (1 <= f)%Q -> (a <= b)%nat -> (Qpower f (Z.of_nat a) <= Qpower f (Z.of_nat b))%Q.
Proof. intros F H. apply Qpower_le_compat_l; [lia | exact F]. Qed.

Lemma delay_monotone c (a b : nat) : (1 <= r_factor c)%Q -> (0 <= r_base c)%Q -> (1 <= a <= b)%nat -> (delay c a <= delay c b)%Q.
Proof.
  intros F B H. unfold delay. apply clampQ_mono.
  rewrite !(Qmult_comm (r_base c)). apply Qmult_le_compat_r; [|exact B]. apply Qpower_mono; [exact F | lia].
Qed.
End RetryProofs.
