(* Proofs about Model/Legacy.v: the scan search behind `wtf pipeline`, for ANY per-command scorer. *)
From Coq Require Import List ZArith Bool Floats Lia Sorting.Sorted Sorting.Permutation.
From WTF Require Import Model.Validate Model.Text Model.Platform Model.Engine Model.Legacy Proofs.EngineProofs.
Import ListNotations.

Section LegacyProofs.
Variable score : nat -> float.
Variable cmds : list command.

Lemma pipeline_entry_spec po boost i c y :
  In y (pipeline_entry score po boost (i, c)) ->
  fst y = i /\ PrimFloat.ltb 0 (snd y) = true /\ (po = true -> pipeline_cmd c = true) /\
  snd y = (if pipeline_cmd c && PrimFloat.ltb 0 boost then (score i * boost)%float else score i).
Proof.
  unfold pipeline_entry.
  destruct (po && negb (pipeline_cmd c)) eqn:G; [intros []|].
  set (s := if pipeline_cmd c && PrimFloat.ltb 0 boost then (score i * boost)%float else score i).
  destruct (PrimFloat.ltb 0 s) eqn:P; [|intros []].
  intros [H|[]]. subst y. simpl. repeat split; [exact P|].
  intros ->. simpl in G. destruct (pipeline_cmd c); [reflexivity | discriminate].
Qed.

Lemma pipeline_entry_short po boost x : (length (pipeline_entry score po boost x) <= 1)%nat.
Proof.
  destruct x as [i c]. unfold pipeline_entry.
  destruct (po && negb (pipeline_cmd c)); [simpl; lia|].
  match goal with |- context [if PrimFloat.ltb 0 ?s then _ else _] => destruct (PrimFloat.ltb 0 s) end; simpl; lia.
Qed.

(* the candidates: one per command at most, each an entry of the list, positive, pipelines only when asked *)
Lemma pipeline_candidates_spec po boost :
  NoDup (map fst (pipeline_candidates score cmds po boost)) /\
  forall i s, In (i, s) (pipeline_candidates score cmds po boost) ->
    exists c, nth_error cmds i = Some c /\ PrimFloat.ltb 0 s = true /\ (po = true -> pipeline_cmd c = true).
Proof.
  unfold pipeline_candidates.
  destruct (flat_map_ids (pipeline_entry score po boost) (enumerate 0 cmds)) as [A B].
  - intros [i c] y I. apply pipeline_entry_spec in I. simpl. tauto.
  - apply pipeline_entry_short.
  - apply enumerate_nodup.
  - split; [exact A|]. intros i s I. destruct (B _ I) as [[j c] [I1 I2]].
    apply pipeline_entry_spec in I2. simpl in I2. destruct I2 as [E [P [Q _]]]. subst j.
    exists c. apply enumerate_in in I1. destruct I1 as [_ I1]. rewrite Nat.sub_0_r in I1. auto.
Qed.

Lemma firstn_incl_in {A} n (l : list A) x : In x (firstn n l) -> In x l.
Proof. revert l; induction n as [|n IH]; intros [|y l]; simpl; try tauto. intros [H|H]; auto. Qed.

Lemma nodup_firstn {A} n (l : list A) : NoDup l -> NoDup (firstn n l).
Proof.
  revert l; induction n as [|n IH]; intros [|y l] H; simpl; try constructor.
  - inversion H; subst. intro I. apply firstn_incl_in in I. contradiction.
  - inversion H; subst. apply IH. assumption.
Qed.

Lemma map_firstn {A B} (f : A -> B) n (l : list A) : map f (firstn n l) = firstn n (map f l).
Proof. revert l; induction n as [|n IH]; intros [|y l]; simpl; try reflexivity. rewrite IH. reflexivity. Qed.

(* C01 on this path: bounded by the limit in force, members only, nobody twice, positive scores, non-increasing order *)
Theorem pipeline_search_wellformed po boost limit :
  let r := pipeline_search score cmds po boost limit in
  (Z.of_nat (length r) <= legacy_limit limit)%Z /\
  NoDup (map fst r) /\
  (forall i s, In (i, s) r -> exists c, nth_error cmds i = Some c /\ PrimFloat.ltb 0 s = true /\ (po = true -> pipeline_cmd c = true)) /\
  Sorted (desc_adj by_score) r.
Proof.
  unfold pipeline_search. destruct (pipeline_candidates_spec po boost) as [ND M].
  set (cands := pipeline_candidates score cmds po boost) in *.
  repeat split.
  - rewrite firstn_length. assert (0 < legacy_limit limit)%Z by (unfold legacy_limit; destruct (limit <=? 0)%Z eqn:L; lia). lia.
  - rewrite map_firstn. apply nodup_firstn.
    apply (Permutation_NoDup (l := map fst cands)); [symmetry; apply sort_ids | exact ND].
  - intros i s I. apply firstn_incl_in in I. apply sort_in in I. apply M. exact I.
  - apply sorted_firstn. apply sort_sorted.
Qed.

(* nothing that passes the gate is lost to anything but the limit: with a limit of at least the number of candidates the
   answer is a permutation of the candidates *)
Theorem pipeline_search_complete po boost limit :
  (Z.of_nat (length (pipeline_candidates score cmds po boost)) <= legacy_limit limit)%Z ->
  Permutation (pipeline_search score cmds po boost limit) (pipeline_candidates score cmds po boost).
Proof.
  intros H. unfold pipeline_search. rewrite firstn_all2; [apply sort_perm|]. rewrite sort_length. lia.
Qed.
End LegacyProofs.

(* C20 on this path: the query matters only through its word list - two queries with the same
   strings.Fields(strings.ToLower(.)) get the same answer, whatever the scorer does with the words *)
Theorem pipeline_search_word_list_only wscore words words' cmds po boost limit :
  words = words' ->
  pipeline_search_words wscore words cmds po boost limit = pipeline_search_words wscore words' cmds po boost limit.
Proof. intros ->. reflexivity. Qed.

(* ---- the word list ignores letter case, leading / trailing blanks and the length and kind of blank runs ---- *)
Lemma fields_spaces_only ws cur : forallb is_sp ws = true ->
  fields_acc cur ws = match cur with [] => [] | _ => [rev cur] end.
Proof.
  revert cur; induction ws as [|w ws IH]; intros cur H; simpl; [reflexivity|].
  simpl in H. apply andb_prop in H. destruct H as [Hw Hr]. rewrite Hw.
  destruct cur; rewrite (IH [] Hr); reflexivity.
Qed.

Lemma fields_run ws cur r : forallb is_sp ws = true -> ws <> [] ->
  fields_acc cur (ws ++ r) = match cur with [] => fields_acc [] r | _ => rev cur :: fields_acc [] r end.
Proof.
  revert cur; induction ws as [|w ws IH]; intros cur H NE; [congruence|].
  simpl in H. apply andb_prop in H. destruct H as [Hw Hr]. simpl. rewrite Hw.
  destruct ws as [|w' ws'].
  - simpl. reflexivity.
  - assert (NE' : w' :: ws' <> []) by discriminate.
    destruct cur; rewrite (IH [] Hr NE'); reflexivity.
Qed.

Lemma fields_repeated a s1 s2 b cur :
  forallb is_sp s1 = true -> forallb is_sp s2 = true -> s1 <> [] -> s2 <> [] ->
  fields_acc cur (a ++ s1 ++ b) = fields_acc cur (a ++ s2 ++ b).
Proof.
  intros H1 H2 N1 N2. revert cur; induction a as [|x a IH]; intros cur.
  - simpl. rewrite (fields_run s1 cur b H1 N1), (fields_run s2 cur b H2 N2). reflexivity.
  - simpl. destruct (is_sp x); [destruct cur; rewrite IH; reflexivity | apply IH].
Qed.

Lemma fields_trailing r ws cur : forallb is_sp ws = true -> fields_acc cur (r ++ ws) = fields_acc cur r.
Proof.
  intros H. revert cur; induction r as [|x r IH]; intros cur.
  - simpl. rewrite (fields_spaces_only ws cur H). destruct cur; reflexivity.
  - simpl. destruct (is_sp x); [destruct cur; rewrite IH; reflexivity | apply IH].
Qed.

Theorem legacy_words_ignore_case q q' : lower_ascii q = lower_ascii q' -> legacy_words q = legacy_words q'.
Proof. unfold legacy_words. intros ->. reflexivity. Qed.

Theorem ascii_fields_ignore_leading ws r : forallb is_sp ws = true -> ascii_fields (ws ++ r) = ascii_fields r.
Proof.
  intros H. unfold ascii_fields. destruct ws as [|w ws]; [reflexivity|].
  rewrite (fields_run (w :: ws) [] r H); [reflexivity | discriminate].
Qed.

Theorem ascii_fields_ignore_trailing r ws : forallb is_sp ws = true -> ascii_fields (r ++ ws) = ascii_fields r.
Proof. intros H. apply fields_trailing. exact H. Qed.

Theorem ascii_fields_ignore_repeated a s1 s2 b :
  forallb is_sp s1 = true -> forallb is_sp s2 = true -> s1 <> [] -> s2 <> [] ->
  ascii_fields (a ++ s1 ++ b) = ascii_fields (a ++ s2 ++ b).
Proof. intros. apply fields_repeated; assumption. Qed.

(* lower-casing commutes with the blanks: a blank stays a blank, a letter never becomes one *)
Lemma lower_ascii_app a b : lower_ascii (a ++ b) = lower_ascii a ++ lower_ascii b.
Proof. apply map_app. Qed.

Lemma lower_keeps_blanks ws : forallb is_sp ws = true -> lower_ascii ws = ws.
Proof.
  induction ws as [|w ws IH]; simpl; intros H; [reflexivity|].
  apply andb_prop in H. destruct H as [Hw Hr]. rewrite (IH Hr). f_equal.
  unfold lower_byte, is_upper, inr. unfold is_sp in Hw.
  destruct (N.leb 65 w) eqn:A; simpl; [|reflexivity].
  apply N.leb_le in A. apply orb_prop in Hw. destruct Hw as [Hw|Hw].
  - apply N.eqb_eq in Hw. lia.
  - apply andb_prop in Hw. destruct Hw as [_ Hw]. apply N.leb_le in Hw. lia.
Qed.

(* the whole statement for the pipeline search's word list: re-spelling the blanks of a query leaves the words alone *)
Theorem legacy_words_ignore_spacing a s1 s2 b :
  forallb is_sp s1 = true -> forallb is_sp s2 = true -> s1 <> [] -> s2 <> [] ->
  legacy_words (a ++ s1 ++ b) = legacy_words (a ++ s2 ++ b).
Proof.
  intros H1 H2 N1 N2. unfold legacy_words. rewrite !lower_ascii_app, (lower_keeps_blanks s1 H1), (lower_keeps_blanks s2 H2).
  apply ascii_fields_ignore_repeated; assumption.
Qed.

Theorem legacy_words_ignore_padding l q t :
  forallb is_sp l = true -> forallb is_sp t = true -> legacy_words (l ++ q ++ t) = legacy_words q.
Proof.
  intros Hl Ht. unfold legacy_words. rewrite !lower_ascii_app, (lower_keeps_blanks l Hl), (lower_keeps_blanks t Ht).
  rewrite (ascii_fields_ignore_leading l _ Hl). apply ascii_fields_ignore_trailing. exact Ht.
Qed.
