(* The validator's whitespace normal form (Model/Validate.norm = strings.Join(strings.Fields(strings.TrimSpace(s)), " "))
   does not see leading, trailing or repeated whitespace. *)
From Coq Require Import List NArith Bool.
From WTF Require Import Model.Validate.
Import ListNotations.

Lemma norm_spaces started pending sp r :
  forallb is_space sp = true -> sp <> [] -> norm started pending (sp ++ r) = norm started started r.
Proof.
  revert pending. induction sp as [|s sp IH]; intros pending A NE; [congruence|].
  simpl in A. apply andb_prop in A. destruct A as [S A]. simpl. rewrite S.
  destruct sp as [|s' sp']; [reflexivity|]. apply IH; [exact A | discriminate].
Qed.

Lemma norm_all_space started pending sp : forallb is_space sp = true -> norm started pending sp = [].
Proof.
  revert pending. induction sp as [|s sp IH]; intros pending A; [reflexivity|].
  simpl in A. apply andb_prop in A. destruct A as [S A]. simpl. rewrite S. apply IH, A.
Qed.

Lemma norm_app_cong a x y :
  (forall st p, norm st p x = norm st p y) -> forall st p, norm st p (a ++ x) = norm st p (a ++ y).
Proof.
  intros H. induction a as [|t a IH]; intros st p; simpl; [apply H|].
  destruct (is_space t); [apply IH|]. f_equal. apply IH.
Qed.

(* leading whitespace *)
Lemma norm_leading sp ts : forallb is_space sp = true -> norm false false (sp ++ ts) = norm false false ts.
Proof. intros A. destruct sp as [|s sp]; [reflexivity|]. apply norm_spaces; [exact A | discriminate]. Qed.

(* trailing whitespace *)
Lemma norm_trailing sp ts : forallb is_space sp = true -> norm false false (ts ++ sp) = norm false false ts.
Proof.
  intros A. rewrite <- (app_nil_r ts) at 2. apply norm_app_cong. intros st p. rewrite norm_all_space by exact A. reflexivity.
Qed.

(* repeated whitespace: any non-empty run of whitespace between two parts is as good as any other *)
Lemma norm_repeated a s1 s2 b :
  forallb is_space s1 = true -> forallb is_space s2 = true -> s1 <> [] -> s2 <> [] ->
  norm false false (a ++ s1 ++ b) = norm false false (a ++ s2 ++ b).
Proof.
  intros A1 A2 N1 N2. apply norm_app_cong. intros st p. rewrite !norm_spaces by assumption. reflexivity.
Qed.
