From Coq Require Import List NArith ZArith Bool Lia.
From WTF Require Import Model.Validate Model.Text Model.FsAtomic.
Import ListNotations.

(* for the temp-file-then-rename program: whatever the crash point or the failing call (every step, every byte
   prefix of the write), the target afterwards holds the complete previous content or the complete new content;
   a completed run leaves the new content; a failed run leaves the previous content, no temp file, and is reported *)
Lemma replace_atomic old new flt :
  let '(f, st) := run (atomic_replace new) atomic_cleanup 0 flt (start old) in
  (target f = old \/ target f = Some new) /\
  (st = Done -> target f = Some new /\ tmp f = None) /\
  (st = Failed -> target f = old /\ tmp f = None).
Proof.
  unfold atomic_replace, atomic_cleanup, start.
  destruct flt as [|j k|j k]; simpl.
  - repeat split; auto; discriminate.
  - destruct j as [|[|[|[|[|j]]]]]; simpl; repeat split; auto; try discriminate.
  - destruct j as [|[|[|[|[|j]]]]]; simpl; repeat split; auto; try discriminate.
Qed.

(* the in-place program is not atomic: a crash in the middle of the write leaves a strict prefix *)
Lemma in_place_not_atomic old b1 b2 rest :
  old <> Some [b1] ->
  exists flt, let '(f, st) := run (in_place (b1 :: b2 :: rest)) [] 0 flt (start old) in
              target f <> old /\ target f <> Some (b1 :: b2 :: rest).
Proof.
  intros H. exists (CrashAt 1 1). simpl. split; [intros E; apply H; symmetry; exact E | discriminate].
Qed.

(* composition with the notebook logic: decoding the target after any such event yields the notebook before
   or after the save, hence every earlier entry *)
Lemma earlier_saves_survive {A} (decode : bytes -> option A) old new flt before after :
  decode old = Some before -> decode new = Some after ->
  let '(f, st) := run (atomic_replace new) atomic_cleanup 0 flt (start (Some old)) in
  exists content, target f = Some content /\ (decode content = Some before \/ decode content = Some after).
Proof.
  intros Hb Ha. pose proof (replace_atomic (Some old) new flt) as R.
  destruct (run (atomic_replace new) atomic_cleanup 0 flt (start (Some old))) as [f st].
  destruct R as [[R|R] _]; [exists old | exists new]; split; auto.
Qed.
