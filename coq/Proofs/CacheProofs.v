(* C05: the caching layer (Model/CacheLayer.v) is transparent. *)
From Coq Require Import List ZArith NArith Bool Lia.
From WTF Require Import Model.Lru Model.CacheLayer Proofs.LruProofs.
Import ListNotations.
Open Scope Z_scope.

Section LruContent.
Variables K V : Type.
Variable keqb : K -> K -> bool.
Hypothesis keqb_spec : forall a b, keqb a b = true <-> a = b.

Definition kv (e : entry K V) : K * V := (e_key e, e_val e).
Definition drawn_from (l' l : list (entry K V)) : Prop := forall e', In e' l' -> exists e, In e l /\ kv e = kv e'.

Lemma drawn_refl l : drawn_from l l.
Proof. intros e I. exists e. auto. Qed.

Lemma drawn_remove l k : drawn_from (remove K V keqb k l) l.
Proof. intros e I. exists e. split; [eapply remove_in; eauto | reflexivity]. Qed.

Lemma drawn_removelast (l : list (entry K V)) : drawn_from (removelast l) l.
Proof. intros e I. exists e. split; [apply removelast_in; exact I | reflexivity]. Qed.

Lemma step_get_content s now k :
  drawn_from (items (fst (step K V keqb s now (Get k)))) (items s) /\
  (forall v, snd (step K V keqb s now (Get k)) = OGet (Some v) -> exists e, In e (items s) /\ e_key e = k /\ e_val e = v).
Proof.
  unfold step, get. cbn [next_tick items].
  destruct (lookup K V keqb k (items s)) as [e|] eqn:L; cbn [fst snd].
  - apply (lookup_some K V keqb keqb_spec) in L. destruct L as [Lin Lk].
    destruct (expired K V (next_tick K V s) now e); cbn [fst snd bump_miss bump_hit with_items items].
    + split; [apply drawn_remove | intros v H; discriminate].
    + split.
      * intros e' [I|I]; [subst e'; exists e; split; [exact Lin | reflexivity] | apply drawn_remove in I; exact I].
      * intros v H. inversion H; subst. exists e. auto.
  - cbn [bump_miss items]. split; [apply drawn_refl | intros v H; discriminate].
Qed.

Lemma step_put_content s now k v :
  forall e', In e' (items (fst (step K V keqb s now (Put k v)))) -> kv e' = (k, v) \/ exists e, In e (items s) /\ kv e = kv e'.
Proof.
  unfold step. cbn [fst]. unfold put. cbn [next_tick items cap tick].
  destruct (lookup K V keqb k (items s)) as [e|] eqn:L.
  - apply (lookup_some K V keqb keqb_spec) in L. destruct L as [Lin Lk]. cbn [with_items items].
    intros e' [I|I]; [subst e'; left; unfold kv; simpl; rewrite Lk; reflexivity | right; apply drawn_remove in I; exact I].
  - set (n := {| e_key := k; e_val := v; e_created := now; e_stored := now; e_touch := S (tick s) |}).
    assert (G : forall e', In e' (n :: items s) -> kv e' = (k, v) \/ exists e, In e (items s) /\ kv e = kv e').
    { intros e' [I|I]; [subst e'; left; reflexivity | right; exists e'; auto]. }
    destruct (Z.of_nat (length (n :: items s)) >? cap s); cbn [bump_evict with_items items].
    + intros e' I. apply G. unfold evict_oldest in I. apply removelast_in in I. exact I.
    + exact G.
Qed.

Lemma step_clear_content s now : items (fst (step K V keqb s now Clear)) = [].
Proof. reflexivity. Qed.

Lemma step_cleanup_content s now : drawn_from (items (fst (step K V keqb s now Cleanup))) (items s).
Proof.
  unfold step. destruct (cleanup K V (next_tick K V s) now) as [s' n] eqn:E. cbn [fst].
  destruct (cleanup_spec K V _ _ _ _ E) as [kept [dropped [A [B _]]]]. cbn [next_tick items] in A.
  intros e I. exists e. split; [rewrite A; apply in_or_app; left; rewrite <- B; exact I | reflexivity].
Qed.
End LruContent.

Section Transparent.
Variables D Q O K R : Type.
Variable keqb : K -> K -> bool.
Hypothesis keqb_spec : forall a b, keqb a b = true <-> a = b.
Variable key : Q -> O -> K.
Variable engine : D -> Q -> O -> list R.
(* requests filed under one key get one answer from the engine, whatever the database *)
Hypothesis key_sound : forall q o q' o', key q o = key q' o' -> forall d, engine d q o = engine d q' o'.

Notation cstate := (cstate D K R).
Notation cstep := (cstep D Q O K R keqb key engine).

(* every cached pair is a non-empty answer of the engine on the CURRENT database for every request with that key *)
Definition CInv (s : cstate) : Prop :=
  forall e, In e (items (cs_cache s)) ->
    e_val e <> [] /\ forall q o, key q o = e_key e -> e_val e = engine (cs_db s) q o.

Lemma cinv_init d : CInv (cinit D K R d).
Proof. intros e []. Qed.

Lemma cinv_drawn s c : CInv s -> drawn_from K (list R) (items c) (items (cs_cache s)) -> CInv (with_cache D K R s c).
Proof.
  intros I Dr e' Ie. cbn [with_cache cs_cache cs_db] in *. destruct (Dr e' Ie) as [e [Ie0 E]].
  unfold kv in E. injection E as E1 E2. rewrite <- E1, <- E2. apply I. exact Ie0.
Qed.

Lemma sc_get_spec s now q o s' hit :
  CInv s -> sc_get D Q O K R keqb key s now q o = (s', hit) ->
  CInv s' /\ cs_db s' = cs_db s /\ cs_mgr_enabled s' = cs_mgr_enabled s /\ cs_sc_enabled s' = cs_sc_enabled s /\
  (forall r, hit = Some r -> r = engine (cs_db s) q o).
Proof.
  intros I. unfold sc_get. destruct (cs_sc_enabled s) eqn:En.
  - destruct (step K (list R) keqb (cs_cache s) now (Get (key q o))) as [c out] eqn:St.
    intros H. inversion H; subst s' hit. clear H.
    destruct (step_get_content K (list R) keqb keqb_spec (cs_cache s) now (key q o)) as [Dr Hit]. rewrite St in Dr, Hit. cbn [fst snd] in Dr, Hit.
    split; [apply cinv_drawn; assumption|]. cbn [with_cache cs_db cs_mgr_enabled cs_sc_enabled]. repeat split; auto.
    intros r Hr. destruct out as [x| | | | |]; try discriminate. subst x.
    destruct (Hit r eq_refl) as [e [Ie [Ek Ev]]]. destruct (I e Ie) as [_ F]. rewrite <- Ev. apply F. symmetry. exact Ek.
  - intros H. inversion H; subst. split; [exact I|]. split; [reflexivity|]. split; [reflexivity|]. split; [exact En|]. intros r Hr; discriminate.
Qed.

Lemma sc_put_spec s now q o :
  CInv s -> CInv (sc_put D Q O K R keqb key s now q o (engine (cs_db s) q o)) /\
  cs_db (sc_put D Q O K R keqb key s now q o (engine (cs_db s) q o)) = cs_db s.
Proof.
  intros I. unfold sc_put. destruct (engine (cs_db s) q o) as [|x r] eqn:Er; [auto|].
  destruct (cs_sc_enabled s); [|auto]. split; [|reflexivity].
  intros e' Ie. cbn [with_cache cs_cache cs_db] in *.
  destruct (step_put_content K (list R) keqb keqb_spec (cs_cache s) now (key q o) (x :: r) e' Ie) as [E|[e [Ie0 E]]].
  - unfold kv in E. injection E as E1 E2. rewrite E2. split; [discriminate|]. intros q' o' Hk.
    rewrite <- Er. apply key_sound. congruence.
  - unfold kv in E. injection E as E1 E2. rewrite <- E1, <- E2. apply I. exact Ie0.
Qed.

Lemma cached_search_spec s now q o s' r :
  CInv s -> cached_search D Q O K R keqb key engine s now q o = (s', r) ->
  CInv s' /\ cs_db s' = cs_db s /\ r = engine (cs_db s) q o.
Proof.
  intros I. unfold cached_search. destruct (cs_mgr_enabled s).
  - cbn [negb]. destruct (sc_get D Q O K R keqb key s now q o) as [s1 hit] eqn:G.
    destruct (sc_get_spec _ _ _ _ _ _ I G) as [I1 [D1 [_ [_ H1]]]].
    destruct hit as [r0|].
    + intros H. inversion H; subst. split; [exact I1|]. split; [exact D1 | apply H1; reflexivity].
    + intros H. inversion H; subst. destruct (sc_put_spec s1 now q o I1) as [I2 D2].
      split; [exact I2|]. split; [congruence | rewrite D1; reflexivity].
  - cbn [negb]. intros H. inversion H; subst. auto.
Qed.

Definition expected (s : cstate) (op : cop D Q O) (out : cout R) : Prop :=
  match op, out with
  | CSearch _ _ _ q o, RResults _ r => r = engine (cs_db s) q o
  | CMonSearch _ _ _ q o, RResults _ r => r = engine (cs_db s) q o
  | CSearch _ _ _ _ _, _ | CMonSearch _ _ _ _ _, _ => False
  | _, _ => True
  end.

Lemma cstep_spec s now op : CInv s -> CInv (fst (cstep s now op)) /\ expected s op (snd (cstep s now op)).
Proof.
  intros I. destruct op as [q o|q o| |b| |d|]; unfold CacheLayer.cstep.
  - destruct (cached_search D Q O K R keqb key engine s now q o) as [s' r] eqn:C. cbn [fst snd expected].
    destruct (cached_search_spec _ _ _ _ _ _ I C) as [A [_ B]]. auto.
  - destruct (sc_get D Q O K R keqb key s now q o) as [s0 hit] eqn:G.
    destruct (sc_get_spec _ _ _ _ _ _ I G) as [I0 [D0 _]].
    destruct (cached_search D Q O K R keqb key engine s0 now q o) as [s' r] eqn:C. cbn [fst snd expected].
    destruct (cached_search_spec _ _ _ _ _ _ I0 C) as [A [_ B]]. rewrite D0 in B. auto.
  - cbn [fst snd expected]. split; [|exact Logic.I]. intros e Ie. cbn [with_cache cs_cache] in Ie. rewrite step_clear_content in Ie. destruct Ie.
  - cbn [fst snd expected]. split; [|exact Logic.I]. intros e Ie. apply I. exact Ie.
  - cbn [fst snd expected]. split; [|exact Logic.I]. apply cinv_drawn; [exact I | apply step_cleanup_content].
  - cbn [fst snd expected]. split; [|exact Logic.I]. intros e Ie. cbn [cs_cache] in Ie. rewrite step_clear_content in Ie. destruct Ie.
  - cbn [fst snd expected]. auto.
Qed.

(* every step of a history sees the answer the engine gives on the database current at that step *)
Fixpoint all_expected (s : cstate) (h : list (Z * cop D Q O)) : Prop :=
  match h with
  | [] => True
  | (now, op) :: r => expected s op (snd (cstep s now op)) /\ all_expected (fst (cstep s now op)) r
  end.

Lemma transparent_from s h : CInv s -> all_expected s h.
Proof.
  revert s. induction h as [|[now op] r IH]; intros s I; simpl; [exact Logic.I|].
  destruct (cstep_spec s now op I) as [A B]. split; [exact B | apply IH; exact A].
Qed.

Lemma cache_transparent d h : all_expected (cinit D K R d) h.
Proof. apply transparent_from. apply cinv_init. Qed.

(* no entry outlives a database replacement *)
Lemma update_empties s now d : items (cs_cache (fst (cstep s now (CUpdate D Q O d)))) = [].
Proof. reflexivity. Qed.

(* requests whose answers differ never share a key *)
Lemma no_sharing d q o q' o' : engine d q o <> engine d q' o' -> key q o <> key q' o'.
Proof. intros H E. apply H. apply key_sound. exact E. Qed.

End Transparent.
