(* Proofs about Model/History.v for C16. *)
From Coq Require Import List ZArith NArith Bool Lia ZifyBool Sorting.Sorted Sorting.Permutation.
From WTF Require Import Model.Validate Model.History Proofs.ValidateProofs.
Import ListNotations.
Open Scope Z_scope.

Local Arguments Z.of_nat : simpl never.
Local Arguments Z.gtb : simpl never.
Local Arguments Z.ltb : simpl never.
Local Arguments Z.leb : simpl never.

(* ---------- small list facts ---------- *)

Lemma last_opt_snoc {A} (l : list A) x : last_opt (l ++ [x]) = Some x.
Proof. unfold last_opt. rewrite rev_unit. reflexivity. Qed.

Lemma last_opt_skipn {A} (l : list A) k : (k < length l)%nat -> last_opt (skipn k l) = last_opt l.
Proof.
  revert k. induction l as [|x l IH]; intros k H; [simpl in H; lia|].
  destruct k as [|k]; [reflexivity|]. simpl skipn. simpl in H.
  rewrite IH by lia. unfold last_opt. simpl. destruct l as [|y l]; [simpl in H; lia|].
  destruct (rev (y :: l)) eqn:E; [apply (f_equal (@length A)) in E; rewrite rev_length in E; discriminate|].
  reflexivity.
Qed.

Lemma skipn_length_le {A} (l : list A) k : length (skipn k l) = (length l - k)%nat.
Proof. apply skipn_length. Qed.

(* ---------- the maximum stays positive, whatever is loaded ---------- *)

Lemma load_max s f : 0 < max_size s -> 0 < max_size (fst (load_from s f)).
Proof.
  intros H. destruct f as [| | |e m]; simpl; auto.
  destruct e as [| |es|], m as [| |z|]; simpl; auto; destruct (z >? 0) eqn:E; simpl; auto; lia.
Qed.

Lemma add_some s e : 0 < max_size s ->
  exists s', add s e = Some s' /\ last_opt (entries s') = Some e /\ max_size s' = max_size s /\ disk s' = disk s.
Proof.
  intros H. unfold add.
  assert (G : forall l', l' = entries s ++ [e] ->
     exists s', (if Z.of_nat (length l') >? max_size s
                 then if max_size s <? 0 then None
                      else Some {| entries := skipn (Z.to_nat (Z.of_nat (length l') - max_size s)) l'; max_size := max_size s; disk := disk s |}
                 else Some {| entries := l'; max_size := max_size s; disk := disk s |}) = Some s' /\
                last_opt (entries s') = Some e /\ max_size s' = max_size s /\ disk s' = disk s).
  { intros l' E. destruct (Z.of_nat (length l') >? max_size s) eqn:C.
    - assert (L : (max_size s <? 0) = false) by lia. rewrite L. eexists; split; [reflexivity|]. simpl.
      split; [|auto]. rewrite last_opt_skipn; [subst; apply last_opt_snoc | lia].
    - eexists; split; [reflexivity|]. simpl. split; [subst; apply last_opt_snoc | auto]. }
  destruct (last_opt (entries s)) as [l|].
  - destruct (bytes_eqb (h_query l) (h_query e)).
    + eexists; split; [reflexivity|]. simpl. split; [apply last_opt_snoc | auto].
    + apply G. reflexivity.
  - apply G. reflexivity.
Qed.

Lemma hstep_max s o : 0 < max_size s ->
  exists s', fst (hstep s o) = Some s' /\ 0 < max_size s'.
Proof.
  intros H. destruct o; simpl.
  - destruct (add_some s e H) as [s' [A [_ [B _]]]]. rewrite A. simpl. exists s'. split; [reflexivity | lia].
  - eexists; split; [reflexivity | exact H].
  - destruct (load_from s (disk s)) as [s' b] eqn:E. simpl. exists s'. split; [reflexivity|].
    pose proof (load_max s (disk s) H) as L. rewrite E in L. exact L.
  - destruct (load_from _ f) as [s' b] eqn:E. simpl. exists s'. split; [reflexivity|].
    pose proof (load_max {| entries := entries s; max_size := max_size s; disk := f |} f H) as L.
    rewrite E in L. exact L.
  - eexists; split; [reflexivity | exact H].
  - eexists; split; [reflexivity | exact H].
  - eexists; split; [reflexivity | exact H].
  - exists s. split; [reflexivity | exact H].
Qed.

Lemma hnew_max m : 0 < max_size (hnew m).
Proof. unfold hnew. simpl. destruct (m <=? 0) eqn:E; unfold default_size; lia. Qed.

(* recording never crashes and always records: for EVERY history, including arbitrary file contents *)
Lemma run_total m ops : exists s, hrun (hnew m) ops = Some s /\ 0 < max_size s.
Proof.
  generalize (hnew m) (hnew_max m). induction ops as [|o r IH]; intros s H; simpl.
  - exists s. auto.
  - destruct (hstep_max s o H) as [s' [E P]]. rewrite E. apply IH. exact P.
Qed.

Lemma add_records m ops e :
  exists s s', hrun (hnew m) ops = Some s /\ add s e = Some s' /\ last_opt (entries s') = Some e.
Proof.
  destruct (run_total m ops) as [s [R P]]. destruct (add_some s e P) as [s' [A [B _]]].
  exists s, s'. auto.
Qed.

(* an immediately repeated query updates the last entry instead of adding one *)
Lemma add_collapses s l e :
  last_opt (entries s) = Some l -> bytes_eqb (h_query l) (h_query e) = true ->
  add s e = Some {| entries := removelast (entries s) ++ [e]; max_size := max_size s; disk := disk s |}.
Proof. intros L Q. unfold add. rewrite L, Q. reflexivity. Qed.

(* ---------- bounded and chronological: histories whose files were written by Save ---------- *)

Definition own_op (o : hop) : bool := match o with HLoadFile _ => false | _ => true end.

Definition time_sorted (l : list hentry) : Prop := StronglySorted (fun a b => h_time a <= h_time b) l.

Definition disk_ok (f : hfile) (t : Z) : Prop :=
  f = FileMissing \/
  exists es m, f = FileDoc (FVal es) (FVal m) /\ 0 < m /\ Z.of_nat (length es) <= m /\
               time_sorted es /\ Forall (fun e => h_time e <= t) es.

Record Own (s : hstate) (t : Z) : Prop := {
  own_max : 0 < max_size s;
  own_len : Z.of_nat (length (entries s)) <= max_size s;
  own_sorted : time_sorted (entries s);
  own_le : Forall (fun e => h_time e <= t) (entries s);
  own_disk : disk_ok (disk s) t
}.

Lemma sorted_snoc l e t : time_sorted l -> Forall (fun x => h_time x <= t) l -> t <= h_time e -> time_sorted (l ++ [e]).
Proof.
  unfold time_sorted. induction l as [|x l IH]; intros S F H; simpl; [repeat constructor|].
  inversion S as [|? ? S' FS]; subst. inversion F as [|? ? Fx F']; subst.
  constructor; [apply IH; auto|]. apply Forall_app. split; [exact FS|]. constructor; [lia | constructor].
Qed.

Lemma sorted_skipn k l : time_sorted l -> time_sorted (skipn k l).
Proof.
  unfold time_sorted. revert k. induction l as [|x l IH]; intros k S; destruct k; simpl; auto.
  inversion S; subst. apply IH. assumption.
Qed.

Lemma forall_skipn {A} (P : A -> Prop) k l : Forall P l -> Forall P (skipn k l).
Proof. revert k. induction l as [|x l IH]; intros k F; destruct k; simpl; auto. inversion F; auto. Qed.

Lemma sorted_removelast l : time_sorted l -> time_sorted (removelast l).
Proof.
  unfold time_sorted. destruct l as [|a l] using rev_ind; [auto|]. rewrite removelast_last.
  clear IHl. induction l as [|x l IH]; simpl; intros S; [constructor|].
  inversion S as [|? ? S' F]; subst. constructor; [auto|]. apply Forall_app in F. tauto.
Qed.

Lemma forall_removelast {A} (P : A -> Prop) l : Forall P l -> Forall P (removelast l).
Proof.
  destruct l as [|a l] using rev_ind; [auto|]. rewrite removelast_last. intros F. apply Forall_app in F. tauto.
Qed.

Lemma forall_le_mono l a b : a <= b -> Forall (fun e : hentry => h_time e <= a) l -> Forall (fun e => h_time e <= b) l.
Proof. intros H F. eapply Forall_impl; [|exact F]. simpl. intros; lia. Qed.

Lemma disk_ok_mono f a b : a <= b -> disk_ok f a -> disk_ok f b.
Proof.
  intros H [D|[es [m [D [A [B [C E]]]]]]]; [left; auto|]. right. exists es, m. repeat split; auto.
  eapply forall_le_mono; eauto.
Qed.

Lemma removelast_len_le {A} (l : list A) : l <> [] -> S (length (removelast l)) = length l.
Proof. intros H. destruct (exists_last H) as [l' [a E]]. subst. rewrite removelast_last, app_length. simpl. lia. Qed.

Lemma add_own s t e s' : Own s t -> t <= h_time e -> add s e = Some s' -> Own s' (h_time e).
Proof.
  intros [M L S F D] H A.
  assert (D' := disk_ok_mono _ _ _ H D).
  assert (F' := forall_le_mono _ _ _ H F).
  assert (G : forall l', l' = entries s ++ [e] ->
     (if Z.of_nat (length l') >? max_size s
      then if max_size s <? 0 then None
           else Some {| entries := skipn (Z.to_nat (Z.of_nat (length l') - max_size s)) l'; max_size := max_size s; disk := disk s |}
      else Some {| entries := l'; max_size := max_size s; disk := disk s |}) = Some s' -> Own s' (h_time e)).
  { intros l' E X.
    assert (SL : time_sorted l') by (subst; apply (sorted_snoc _ _ t); auto).
    assert (FL : Forall (fun x => h_time x <= h_time e) l').
    { subst. apply Forall_app. split; [auto|]. constructor; [lia | constructor]. }
    destruct (Z.of_nat (length l') >? max_size s) eqn:C.
    - assert (LL : (max_size s <? 0) = false) by lia. rewrite LL in X. inversion X; subst s'. clear X.
      constructor; simpl; auto.
      + rewrite skipn_length. lia.
      + apply sorted_skipn. exact SL.
      + apply forall_skipn. exact FL.
    - inversion X; subst s'. constructor; simpl; auto. lia. }
  unfold add in A. destruct (last_opt (entries s)) as [l|] eqn:LO.
  - destruct (bytes_eqb (h_query l) (h_query e)).
    + inversion A; subst s'. clear A.
      assert (NE : entries s <> []) by (intros E; rewrite E in LO; discriminate).
      constructor; simpl; auto.
      * rewrite app_length. pose proof (removelast_len_le _ NE). simpl. lia.
      * apply (sorted_snoc _ _ t); [apply sorted_removelast; auto | apply forall_removelast; auto | exact H].
      * apply Forall_app. split; [apply forall_removelast; auto | constructor; [lia | constructor]].
    + eapply G; eauto.
  - eapply G; eauto.
Qed.

Lemma load_own s t : Own s t -> Own (fst (load_from s (disk s))) t.
Proof.
  intros [M L S F D]. destruct D as [D|[es [m [D [A [B [C E]]]]]]]; rewrite D; simpl.
  - constructor; auto. left; auto.
  - assert (G : (m >? 0) = true) by lia. rewrite G. constructor; simpl; auto.
    right. exists es, m. rewrite <- D. repeat split; auto.
Qed.

(* time stamps of added entries do not decrease *)
Fixpoint mono_adds (t : Z) (ops : list hop) : Prop :=
  match ops with
  | [] => True
  | HAdd e :: r => t <= h_time e /\ mono_adds (h_time e) r
  | _ :: r => mono_adds t r
  end.

Lemma run_own s t ops s' :
  Own s t -> forallb own_op ops = true -> mono_adds t ops -> hrun s ops = Some s' -> exists t', Own s' t'.
Proof.
  revert s t. induction ops as [|o r IH]; intros s t O W M R; simpl in *.
  - inversion R; subst. eauto.
  - apply andb_true_iff in W. destruct W as [W1 W2].
    destruct o; simpl in *; try discriminate.
    + destruct M as [M1 M2]. destruct (add s e) as [s1|] eqn:A; simpl in R; [|discriminate].
      eapply IH; [eapply add_own; eauto | auto | exact M2 | exact R].
    + eapply IH; [|auto|exact M|exact R]. destruct O as [Mx L S F D]. constructor; simpl; auto.
      right. exists (entries s), (max_size s). repeat split; auto.
    + destruct (load_from s (disk s)) as [s1 b] eqn:E. simpl in R.
      eapply IH; [|auto|exact M|exact R]. pose proof (load_own s t O) as LO. rewrite E in LO. exact LO.
    + eapply IH; [|auto|exact M|exact R]. destruct O as [Mx L S F D]. unfold clear, save. constructor; simpl; auto.
      * lia.
      * constructor.
      * right. exists [], (max_size s). repeat split; auto; simpl; try lia; constructor.
    + eapply IH; eauto.
    + eapply IH; eauto.
    + eapply IH; eauto.
Qed.

Lemma own_new m t : Own (hnew m) t.
Proof.
  pose proof (hnew_max m) as H.
  constructor; simpl in *.
  - exact H.
  - change (Z.of_nat 0) with 0. lia.
  - constructor.
  - constructor.
  - left. reflexivity.
Qed.

Lemma bounded_chronological m t ops s :
  forallb own_op ops = true -> mono_adds t ops -> hrun (hnew m) ops = Some s ->
  0 < max_size s /\ Z.of_nat (length (entries s)) <= max_size s /\ time_sorted (entries s).
Proof.
  intros W M R. destruct (run_own _ t _ _ (own_new m t) W M R) as [t' [A B C _ _]]. auto.
Qed.

(* save then load gives back the same entries (and maximum) *)
Lemma roundtrip s : 0 < max_size s ->
  let s' := fst (load_from (save s) (disk (save s))) in
  entries s' = entries s /\ max_size s' = max_size s /\ snd (load_from (save s) (disk (save s))) = false.
Proof. intros H. simpl. assert (G : (max_size s >? 0) = true) by lia. rewrite G. simpl. auto. Qed.

(* ---------- views ---------- *)

Lemma mem_bytes_in q l : mem_bytes q l = true <-> In q l.
Proof.
  unfold mem_bytes. rewrite existsb_exists. split.
  - intros [x [I E]]. apply bytes_eqb_eq in E. subst. exact I.
  - intros I. exists q. split; [exact I|]. clear. induction q as [|b q IH]; simpl; [reflexivity|].
    rewrite N.eqb_refl. exact IH.
Qed.

Lemma recent_aux_spec k seen l :
  NoDup (recent_aux k seen l) /\ (length (recent_aux k seen l) <= k)%nat /\
  (forall q, In q (recent_aux k seen l) -> ~ In q seen /\ exists e, In e l /\ h_query e = q).
Proof.
  revert k seen. induction l as [|e l IH]; intros k seen.
  - destruct k; simpl; (split; [constructor | split; [lia | intros q []]]).
  - destruct k as [|k]; [simpl; split; [constructor | split; [lia | intros q []]]|].
    cbn [recent_aux]. destruct (mem_bytes (h_query e) seen) eqn:Mem.
    + destruct (IH (S k) seen) as [A [B C]]. split; [exact A|]. split; [exact B|].
      intros q I. destruct (C q I) as [C1 [x [C2 C3]]]. split; [exact C1|].
      exists x. split; [right; exact C2 | exact C3].
    + destruct (IH k (h_query e :: seen)) as [A [B C]]. split; [|split].
      * constructor; [|exact A]. intros I. destruct (C _ I) as [C1 _]. apply C1. left; reflexivity.
      * simpl. lia.
      * intros q [H|H].
        -- subst q. split; [intros I; apply mem_bytes_in in I; congruence|].
           exists e. split; [left; reflexivity | reflexivity].
        -- destruct (C q H) as [C1 [x [C2 C3]]]. split; [intros I; apply C1; right; exact I|].
           exists x. split; [right; exact C2 | exact C3].
Qed.

(* recent queries are distinct, are queries of the log, and at most the limit *)
Lemma recent_ok s k :
  NoDup (recent s k) /\ (length (recent s k) <= eff_limit k)%nat /\
  forall q, In q (recent s k) -> exists e, In e (entries s) /\ h_query e = q.
Proof.
  unfold recent. destruct (recent_aux_spec (eff_limit k) [] (rev (entries s))) as [A [B C]].
  repeat split; auto. intros q I. destruct (C q I) as [_ [e [I' E]]]. exists e. split; [apply in_rev; exact I' | exact E].
Qed.

Definition sum_counts (l : list (bytes * Z * Z)) : Z := fold_right (fun x a => snd (fst x) + a) 0 l.

Lemma bump_sum q t acc : sum_counts (bump q t acc) = sum_counts acc + 1.
Proof.
  induction acc as [|[[q' c] l] r IH]; simpl; [lia|].
  destruct (bytes_eqb q q'); simpl; lia.
Qed.

Lemma freq_sum l acc : sum_counts (fold_left (fun a e => bump (h_query e) (h_time e) a) l acc) = sum_counts acc + Z.of_nat (length l).
Proof.
  revert acc. induction l as [|e l IH]; intros acc; simpl; [change (Z.of_nat 0) with 0; lia|].
  rewrite IH, bump_sum. lia.
Qed.

Lemma insert_perm x l : Permutation (insert_top x l) (x :: l).
Proof.
  induction l as [|y r IH]; simpl; [reflexivity|].
  destruct (top_before y x || negb (top_before x y)); [|reflexivity].
  rewrite IH. apply perm_swap.
Qed.

Lemma sort_perm_aux l acc : Permutation (fold_left (fun a x => insert_top x a) l acc) (l ++ acc).
Proof.
  revert acc. induction l as [|x l IH]; intros acc; simpl; [reflexivity|].
  rewrite IH. rewrite insert_perm. symmetry. apply Permutation_middle.
Qed.

Lemma sort_perm l : Permutation (sort_top l) l.
Proof. unfold sort_top. rewrite sort_perm_aux, app_nil_r. reflexivity. Qed.

Lemma sum_perm l l' : Permutation l l' -> sum_counts l = sum_counts l'.
Proof. induction 1; simpl; lia. Qed.

(* a <= b in the ranking: b is not strictly before a *)
Definition rank_le (a b : bytes * Z * Z) : Prop := top_before b a = false.

Lemma top_before_asym a b : top_before a b = true -> top_before b a = false.
Proof. destruct a as [[qa ca] la], b as [[qb cb] lb]. simpl. destruct (ca =? cb) eqn:E, (cb =? ca) eqn:E'; lia. Qed.

Lemma top_before_trans_neg a b c : top_before b a = false -> top_before c b = false -> top_before c a = false.
Proof.
  destruct a as [[qa ca] la], b as [[qb cb] lb], c as [[qc cc] lc]. simpl.
  destruct (cb =? ca) eqn:E1, (cc =? cb) eqn:E2, (cc =? ca) eqn:E3; lia.
Qed.

Lemma insert_sorted x l : StronglySorted rank_le l -> StronglySorted rank_le (insert_top x l).
Proof.
  induction l as [|y r IH]; simpl; intros S; [repeat constructor|].
  inversion S as [|? ? S' F]; subst.
  destruct (top_before y x || negb (top_before x y)) eqn:C.
  - constructor; [apply IH; exact S'|].
    assert (P : Permutation (insert_top x r) (x :: r)) by apply insert_perm.
    eapply Permutation_Forall; [symmetry; exact P|]. constructor; [|exact F].
    unfold rank_le. destruct (top_before y x) eqn:C1; [apply top_before_asym; exact C1|].
    simpl in C. apply negb_true_iff in C. exact C.
  - apply orb_false_iff in C. destruct C as [C1 C2]. apply negb_false_iff in C2.
    constructor; [exact S|]. constructor; [unfold rank_le; apply top_before_asym; exact C2|].
    eapply Forall_impl; [|exact F]. intros z Hz. unfold rank_le in *.
    eapply top_before_trans_neg; [|exact Hz]. apply top_before_asym. exact C2.
Qed.

Lemma sort_sorted_aux l acc : StronglySorted rank_le acc -> StronglySorted rank_le (fold_left (fun a x => insert_top x a) l acc).
Proof. revert acc. induction l as [|x l IH]; intros acc S; simpl; [exact S|]. apply IH. apply insert_sorted. exact S. Qed.

(* top: ranked by frequency then recency, and the frequencies add up to the number of entries *)
Lemma top_ok s :
  StronglySorted rank_le (top_all s) /\ sum_counts (top_all s) = Z.of_nat (length (entries s)).
Proof.
  unfold top_all. split.
  - apply sort_sorted_aux. constructor.
  - rewrite (sum_perm _ _ (sort_perm _)). unfold freq_table. rewrite freq_sum. simpl. lia.
Qed.

Lemma stats_total s : match stats s with AStats t _ _ _ _ _ => t = Z.of_nat (length (entries s)) | _ => False end.
Proof. unfold stats. destruct (entries s); reflexivity. Qed.
