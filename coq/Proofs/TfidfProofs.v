(* Proofs about Model/Tfidf.v: the vocabulary order is a function of the SET of words (so the order in which a hash map
   hands them out is irrelevant), and the ranking names each command at most once, only commands of the database. *)
From Coq Require Import List NArith ZArith Bool Floats Lia Sorting.Sorted Sorting.Permutation.
From WTF Require Import Model.Validate Model.Text Model.Engine Model.Tfidf Proofs.MetricsProofs Proofs.EngineProofs.
Import ListNotations.

(* ---- byte-wise order ---- *)
Lemma bytes_ltb_irrefl a : bytes_ltb a a = false.
Proof. induction a as [|x a IH]; simpl; [reflexivity|]. rewrite N.ltb_irrefl. exact IH. Qed.

Lemma bytes_ltb_trans a b c : bytes_ltb a b = true -> bytes_ltb b c = true -> bytes_ltb a c = true.
Proof.
  revert b c; induction a as [|x a IH]; intros [|y b] [|z c]; simpl; try discriminate; auto.
  destruct (N.ltb_spec x y), (N.ltb_spec y x), (N.ltb_spec y z), (N.ltb_spec z y), (N.ltb_spec x z), (N.ltb_spec z x);
    try discriminate; try lia; auto.
  intros Hab Hbc. eapply IH; eauto.
Qed.

Lemma bytes_tricho a b : bytes_ltb a b = false -> bytes_ltb b a = false -> a = b.
Proof.
  revert b; induction a as [|x a IH]; intros [|y b]; simpl; try discriminate; auto.
  destruct (N.ltb_spec x y), (N.ltb_spec y x); try discriminate; try lia. intros Hab Hba.
  assert (x = y) by lia. subst. f_equal. apply IH; assumption.
Qed.

Definition blt (a b : bytes) : Prop := bytes_ltb a b = true.

(* ---- insertion ---- *)
Lemma insert_word_in w l x : In x (insert_word w l) <-> x = w \/ In x l.
Proof.
  induction l as [|y r IH]; simpl; [intuition|].
  destruct (bytes_ltb w y); simpl; [intuition|].
  destruct (bytes_eqb w y) eqn:E; simpl.
  - apply bytes_eqb_iff in E. subst. intuition.
  - rewrite IH. intuition.
Qed.

Lemma insert_word_sorted w l : StronglySorted blt l -> StronglySorted blt (insert_word w l).
Proof.
  induction 1 as [|y r S IH F]; simpl; [repeat constructor|].
  destruct (bytes_ltb w y) eqn:L.
  - constructor; [constructor; assumption|]. constructor; [exact L|].
    rewrite Forall_forall in *. intros z Hz. eapply bytes_ltb_trans; [exact L | apply F, Hz].
  - destruct (bytes_eqb w y) eqn:E; [constructor; assumption|].
    constructor; [exact IH|]. rewrite Forall_forall in *. intros z Hz. apply insert_word_in in Hz. destruct Hz as [->|Hz]; [|apply F, Hz].
    unfold blt. destruct (bytes_ltb y w) eqn:L2; [reflexivity|]. exfalso.
    assert (w = y) by (apply bytes_tricho; assumption). subst. rewrite bytes_eqb_refl in E. discriminate.
Qed.

Lemma sorted_words_spec ws : StronglySorted blt (sorted_words ws) /\ forall x, In x (sorted_words ws) <-> In x ws.
Proof.
  unfold sorted_words.
  assert (G : forall acc, StronglySorted blt acc ->
            StronglySorted blt (fold_left (fun a w => insert_word w a) ws acc) /\
            forall x, In x (fold_left (fun a w => insert_word w a) ws acc) <-> In x ws \/ In x acc).
  { induction ws as [|w r IH]; intros acc S; simpl; [split; [exact S | intuition]|].
    destruct (IH (insert_word w acc) (insert_word_sorted w acc S)) as [S' I']. split; [exact S'|].
    intros x. rewrite I', insert_word_in. intuition. }
  destruct (G [] (SSorted_nil _)) as [S I]. split; [exact S|]. intros x. rewrite I. simpl. intuition.
Qed.

(* a strictly sorted list is determined by its elements *)
Lemma sorted_unique l l' : StronglySorted blt l -> StronglySorted blt l' -> (forall x, In x l <-> In x l') -> l = l'.
Proof.
  intros S; revert l'; induction S as [|x r S IH F]; intros l' S' E.
  - destruct l' as [|y r']; [reflexivity|]. exfalso. apply (E y). simpl; auto.
  - destruct l' as [|y r']; [exfalso; apply (E x); simpl; auto|].
    inversion S' as [|? ? S'' F']; subst. rewrite Forall_forall in F, F'.
    assert (x = y).
    { destruct (proj1 (E x) (or_introl eq_refl)) as [A|A]; [auto|].
      destruct (proj2 (E y) (or_introl eq_refl)) as [B|B]; [auto|].
      pose proof (F' _ A) as L1. pose proof (F _ B) as L2. unfold blt in *.
      pose proof (bytes_ltb_trans _ _ _ L1 L2) as L3. rewrite bytes_ltb_irrefl in L3. discriminate. }
    subst y. f_equal. apply IH; [exact S''|]. intros z. split; intros Hz.
    + destruct (proj1 (E z) (or_intror Hz)) as [<-|A]; [|exact A]. exfalso. pose proof (F _ Hz) as L. unfold blt in L. rewrite bytes_ltb_irrefl in L. discriminate.
    + destruct (proj2 (E z) (or_intror Hz)) as [<-|A]; [|exact A]. exfalso. pose proof (F' _ Hz) as L. unfold blt in L. rewrite bytes_ltb_irrefl in L. discriminate.
Qed.

(* whatever order (and multiplicity) the words are handed out in, the sorted word list is the same *)
Lemma sorted_words_order_independent ws ws' : (forall x, In x ws <-> In x ws') -> sorted_words ws = sorted_words ws'.
Proof.
  intros E. destruct (sorted_words_spec ws) as [S I], (sorted_words_spec ws') as [S' I'].
  apply sorted_unique; [exact S | exact S'|]. intros x. rewrite I, I'. apply E.
Qed.

Lemma sorted_words_perm ws ws' : Permutation ws ws' -> sorted_words ws = sorted_words ws'.
Proof.
  intros P. apply sorted_words_order_independent. intros x. split; intros H; [eapply Permutation_in; eauto | eapply Permutation_in; [apply Permutation_sym|]; eauto].
Qed.

(* ---- the ranking ---- *)
Lemma flat_map_enum_ids {A} (f : nat * A -> list (nat * float)) (l : list A) k :
  (forall ix y, In y (f ix) -> fst y = fst ix) -> (forall ix, length (f ix) <= 1)%nat ->
  NoDup (map fst (flat_map f (enumerate k l))) /\ forall y, In y (flat_map f (enumerate k l)) -> (k <= fst y < k + length l)%nat.
Proof.
  intros Hf H1. revert k; induction l as [|x r IH]; intros k; simpl; [split; [constructor | intros y []]|].
  destruct (IH (S k)) as [N R]. split.
  - rewrite map_app. destruct (f (k, x)) as [|y [|z t]] eqn:E; simpl; [exact N | | specialize (H1 (k, x)); rewrite E in H1; simpl in H1; lia].
    constructor; [|exact N]. intro X. apply in_map_iff in X. destruct X as [z [Ez Hz]]. apply R in Hz.
    assert (fst y = k) by (apply (Hf (k, x)); rewrite E; simpl; auto). lia.
  - intros y Hy. apply in_app_or in Hy. destruct Hy as [Hy|Hy].
    + apply (Hf (k, x)) in Hy. simpl in Hy. lia.
    + apply R in Hy. lia.
Qed.

Lemma tfidf_search_wellformed docs logt q limit :
  let r := tfidf_search docs logt q limit in
  NoDup (map fst r) /\ forall i s, In (i, s) r -> (i < length docs)%nat /\ PrimFloat.ltb 0x1.47ae147ae147bp-7 s = true.
Proof.
  unfold tfidf_search. destruct q as [|q0 q]; [split; [constructor | intros ? ? []]|].
  set (voc := vocabulary docs). set (idf := fun w => nth (doc_count docs w) logt nan). set (qv := vector voc idf (q0 :: q)).
  destruct (PrimFloat.eqb (norm qv) 0); [split; [constructor | intros ? ? []]|].
  set (f := fun id : nat * list bytes => let '(i, d) := id in
              let dv := vector voc idf d in let s := cosine qv (norm qv) dv (norm dv) in
              if PrimFloat.ltb 0x1.47ae147ae147bp-7 s then [(i, s)] else []).
  assert (Hf : forall ix y, In y (f ix) -> fst y = fst ix /\ PrimFloat.ltb 0x1.47ae147ae147bp-7 (snd y) = true).
  { intros [i d] y. unfold f. destruct (PrimFloat.ltb _ _) eqn:L; [|intros []]. intros [<-|[]]. simpl. auto. }
  assert (H1 : forall ix, (length (f ix) <= 1)%nat).
  { intros [i d]. unfold f. destruct (PrimFloat.ltb _ _); simpl; lia. }
  destruct (flat_map_enum_ids f docs 0 (fun ix y H => proj1 (Hf ix y H)) H1) as [N R].
  set (sims := flat_map f (enumerate 0 docs)) in *.
  assert (P : Permutation (sort_desc by_sim sims) sims) by apply sort_perm.
  assert (W : NoDup (map fst (sort_desc by_sim sims)) /\
              forall i s, In (i, s) (sort_desc by_sim sims) -> (i < length docs)%nat /\ PrimFloat.ltb 0x1.47ae147ae147bp-7 s = true).
  { split.
    - eapply Permutation_NoDup; [apply Permutation_map, Permutation_sym, P | exact N].
    - intros i s H. eapply Permutation_in in H; [|exact P]. split.
      + apply R in H. simpl in H. lia.
      + unfold sims in H. apply in_flat_map in H. destruct H as [ix [_ H]]. apply Hf in H. apply H. }
  destruct W as [WN WR]. destruct (0 <=? limit)%Z; [|split; assumption].
  split.
  - rewrite <- firstn_map. apply nodup_firstn. exact WN.
  - intros i s H. apply WR. eapply in_firstn; eauto.
Qed.
