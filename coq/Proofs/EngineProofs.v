(* Proofs about Model/Engine.v (C01 C04 C06 C07 C13 C20 C02). *)
From Coq Require Import List ZArith NArith Bool Lia ZifyBool Floats Sorting.Sorted Sorting.Permutation.
From WTF Require Import Model.Validate Model.Text Model.Platform Model.Engine.
Import ListNotations.

Local Arguments Z.of_nat : simpl never.
Local Arguments Z.to_nat : simpl never.

(* ---------- generic list facts ---------- *)

Lemma in_firstn {A} (x : A) n l : In x (firstn n l) -> In x l.
Proof. revert n. induction l as [|y l IH]; intros [|n]; simpl; intuition eauto. Qed.

Lemma nodup_firstn {A} n (l : list A) : NoDup l -> NoDup (firstn n l).
Proof.
  revert n. induction l as [|y l IH]; intros [|n] H; simpl; try constructor.
  - inversion H; subst. intros I. apply in_firstn in I. contradiction.
  - inversion H; subst. auto.
Qed.

Lemma map_fst_firstn {A B} n (l : list (A * B)) : map fst (firstn n l) = firstn n (map fst l).
Proof. revert n. induction l as [|y l IH]; intros [|n]; simpl; congruence. Qed.

Lemma firstn_all_ge {A} n (l : list A) : (length l <= n)%nat -> firstn n l = l.
Proof. revert n. induction l as [|y l IH]; intros [|n] H; simpl in *; try reflexivity; [lia|]. rewrite IH by lia. reflexivity. Qed.

(* ---------- the stable sort ---------- *)

Section Sort.
Context {A : Type}.
Variable key : A -> float.

Lemma insert_perm x l : Permutation (insert_desc key x l) (x :: l).
Proof.
  induction l as [|y r IH]; simpl; [reflexivity|].
  destruct (PrimFloat.ltb (key x) (key y)); [|reflexivity]. rewrite IH. apply perm_swap.
Qed.

Lemma sort_perm l : Permutation (sort_desc key l) l.
Proof. induction l as [|x r IH]; simpl; [reflexivity|]. rewrite insert_perm, IH. reflexivity. Qed.

Lemma sort_length l : length (sort_desc key l) = length l.
Proof. apply Permutation_length, sort_perm. Qed.

Lemma sort_in x l : In x (sort_desc key l) <-> In x l.
Proof. split; apply Permutation_in; [apply sort_perm | symmetry; apply sort_perm]. Qed.
End Sort.

(* asymmetry of the binary64 "less than", from the specification of primitive floats *)
Lemma SFcompare_antisym a b :
  SpecFloat.SFcompare b a = match SpecFloat.SFcompare a b with Some c => Some (CompOpp c) | None => None end.
Proof.
  destruct a as [sa|sa| |sa ma ea], b as [sb|sb| |sb mb eb]; simpl; try reflexivity;
    try (destruct sa; reflexivity); try (destruct sb; reflexivity); try (destruct sa, sb; reflexivity).
  assert (H : Pos.compare_cont Eq mb ma = CompOpp (Pos.compare_cont Eq ma mb)) by (rewrite Pos.compare_cont_antisym; reflexivity).
  destruct sa, sb; try reflexivity.
  - rewrite (Z.compare_antisym ea eb). destruct (ea ?= eb)%Z; simpl; try reflexivity. rewrite H. reflexivity.
  - rewrite (Z.compare_antisym ea eb). destruct (ea ?= eb)%Z; simpl; try reflexivity. rewrite H. reflexivity.
Qed.

Lemma ltb_asym x y : PrimFloat.ltb x y = true -> PrimFloat.ltb y x = false.
Proof.
  rewrite !FloatAxioms.ltb_spec. unfold SpecFloat.SFltb. rewrite (SFcompare_antisym (FloatOps.Prim2SF x) (FloatOps.Prim2SF y)).
  destruct (SpecFloat.SFcompare (FloatOps.Prim2SF x) (FloatOps.Prim2SF y)) as [[| |]|]; simpl; congruence.
Qed.

Section Sorted.
Context {A : Type}.
Variable key : A -> float.

(* consecutive elements never increase *)
Definition desc_adj (a b : A) : Prop := PrimFloat.ltb (key a) (key b) = false.

Lemma insert_sorted x l : Sorted desc_adj l -> Sorted desc_adj (insert_desc key x l).
Proof.
  induction l as [|y r IH]; simpl; intros S; [repeat constructor|].
  inversion S as [|? ? S' H]; subst.
  destruct (PrimFloat.ltb (key x) (key y)) eqn:C.
  - constructor; [apply IH; exact S'|].
    destruct r as [|z r']; simpl.
    + constructor. unfold desc_adj. apply ltb_asym. exact C.
    + destruct (PrimFloat.ltb (key x) (key z)) eqn:C2.
      * inversion H; subst. constructor. assumption.
      * constructor. unfold desc_adj. apply ltb_asym. exact C.
  - constructor; [exact S|]. constructor. exact C.
Qed.

Lemma sort_sorted l : Sorted desc_adj (sort_desc key l).
Proof. induction l as [|x r IH]; simpl; [constructor|]. apply insert_sorted. exact IH. Qed.

Lemma sorted_firstn n l : Sorted desc_adj l -> Sorted desc_adj (firstn n l).
Proof.
  revert n. induction l as [|x r IH]; intros [|n] S; simpl; try constructor.
  - inversion S; subst. auto.
  - inversion S as [|? ? S' H]; subst. destruct r as [|y r']; destruct n; simpl; constructor.
    inversion H; subst. assumption.
Qed.
End Sorted.

(* ---------- enumerate ---------- *)

Lemma enumerate_in {A} (l : list A) k i x : In (i, x) (enumerate k l) -> (k <= i)%nat /\ nth_error l (i - k) = Some x.
Proof.
  revert k. induction l as [|y l IH]; intros k; simpl; [tauto|].
  intros [H|H].
  - inversion H; subst. split; [lia|]. rewrite Nat.sub_diag. reflexivity.
  - apply IH in H. destruct H as [H1 H2]. split; [lia|].
    replace (i - k)%nat with (S (i - S k)) by lia. exact H2.
Qed.

Lemma enumerate_fst_lt {A} (l : list A) k i x : In (i, x) (enumerate k l) -> (i < k + length l)%nat.
Proof.
  revert k. induction l as [|y l IH]; intros k; simpl; [tauto|].
  intros [H|H]; [inversion H; lia | apply IH in H; lia].
Qed.

Lemma enumerate_nodup {A} (l : list A) k : NoDup (map fst (enumerate k l)).
Proof.
  revert k. induction l as [|y l IH]; intros k; simpl; constructor; [|apply IH].
  intros I. apply in_map_iff in I. destruct I as [[i x] [E I]]. simpl in E. subst i.
  apply enumerate_in in I. lia.
Qed.

Lemma enumerate_nth {A} (l : list A) k i x : nth_error l i = Some x -> In ((k + i)%nat, x) (enumerate k l).
Proof.
  revert k i. induction l as [|y l IH]; intros k i H; [destruct i; discriminate|].
  destruct i; simpl in *.
  - inversion H; subst. left. f_equal. lia.
  - right. replace (k + S i)%nat with (S k + i)%nat by lia. apply IH. exact H.
Qed.

(* a stage that keeps at most one pair per input pair, with the same index *)
Lemma flat_map_ids {A B} (f : nat * A -> list (nat * B)) l :
  (forall x y, In y (f x) -> fst y = fst x) -> (forall x, (length (f x) <= 1)%nat) ->
  NoDup (map fst l) -> NoDup (map fst (flat_map f l)) /\
  forall y, In y (flat_map f l) -> exists x, In x l /\ In y (f x).
Proof.
  intros Hf Hl. induction l as [|x l IH]; simpl; intros ND; [split; [constructor | intros y []]|].
  inversion ND as [|? ? NI ND']; subst. destruct (IH ND') as [IH1 IH2]. split.
  - rewrite map_app. specialize (Hl x). destruct (f x) as [|y [|z r]] eqn:E; simpl in *; [exact IH1| |lia].
    constructor; [|exact IH1]. intros I. apply in_map_iff in I. destruct I as [w [Ew Iw]].
    destruct (IH2 _ Iw) as [x' [Ix' Iy']]. apply NI. apply in_map_iff. exists x'. split; [|exact Ix'].
    rewrite <- (Hf x' w Iy'), Ew. apply Hf. rewrite E. left. reflexivity.
  - intros y I. apply in_app_or in I. destruct I as [I|I]; [exists x; auto|].
    destruct (IH2 _ I) as [x' [HA HB]]. exists x'. auto.
Qed.

(* ---------- candidates ---------- *)

Section Engine.
Variable E : env.
Variable cmds : list command.

Definition doc_at (i : nat) (c : command) : Prop := nth_error cmds i = Some c.

Lemma initial_scores_spec o nl terms :
  NoDup (map fst (initial_scores E cmds o nl terms)) /\
  forall i s, In (i, s) (initial_scores E cmds o nl terms) ->
    exists c, doc_at i c /\ eligible E o c = true /\
              doc_score E cmds (avg_lens E cmds) (term_boosts o nl) terms c = Some s.
Proof.
  unfold initial_scores.
  set (f := fun ic : nat * command => let '(i, c) := ic in
     if eligible E o c then match doc_score E cmds (avg_lens E cmds) (term_boosts o nl) terms c with
                            | Some s => [(i, s)] | None => [] end else []).
  destruct (flat_map_ids f (enumerate 0 cmds)) as [A B].
  - intros [i c] y. unfold f. destruct (eligible E o c); [|intros []].
    destruct (doc_score _ _ _ _ _ _); [|intros []]. intros [H|[]]. subst. reflexivity.
  - intros [i c]. unfold f. destruct (eligible E o c); [|simpl; lia]. destruct (doc_score _ _ _ _ _ _); simpl; lia.
  - apply enumerate_nodup.
  - split; [exact A|]. intros i s I. destruct (B _ I) as [[j c] [I1 I2]]. unfold f in I2.
    destruct (eligible E o c) eqn:El; [|destruct I2].
    destruct (doc_score E cmds (avg_lens E cmds) (term_boosts o nl) terms c) eqn:D; [|destruct I2].
    destruct I2 as [H|[]]. inversion H; subst. exists c. apply enumerate_in in I1. destruct I1 as [_ I1].
    rewrite Nat.sub_0_r in I1. auto.
Qed.

(* a stage that only changes scores *)
Lemma map_fst_same {B C} (g : nat * B -> nat * C) l : (forall x, fst (g x) = fst x) -> map fst (map g l) = map fst l.
Proof. intros H. rewrite map_map. apply map_ext. exact H. Qed.

Lemma collect_ids o nl sc : map fst (collect cmds o nl sc) = map fst sc.
Proof.
  unfold collect. apply map_fst_same. intros [i s]. simpl.
  destruct nl; destruct (nth_error cmds i); simpl; try reflexivity;
    repeat match goal with |- context [if ?b then _ else _] => destruct b end; reflexivity.
Qed.

Lemma sort_ids (l : list (nat * float)) : Permutation (map fst (sort_desc by_score l)) (map fst l).
Proof. apply Permutation_map. apply sort_perm. Qed.

Lemma rerank_ids o ranking rs :
  exists k, Permutation (map fst (rerank o ranking rs)) (firstn k (map fst rs)).
Proof.
  unfold rerank. eexists. rewrite sort_ids. rewrite map_fst_same.
  - rewrite map_fst_firstn. reflexivity.
  - intros [i s]. destruct (find _ _); reflexivity.
Qed.

Lemma cascade_ids n rs : Permutation (map fst (cascade n rs)) (map fst rs).
Proof. unfold cascade. rewrite sort_ids. rewrite map_fst_same; [reflexivity | intros [i s]; reflexivity]. Qed.

(* ids of a stage output are drawn, without repetition, from the ids of its input *)
Definition from_ids (out inp : list nat) : Prop := NoDup out /\ forall i, In i out -> In i inp.

Lemma from_ids_perm a b c : Permutation a b -> from_ids b c -> from_ids a c.
Proof.
  intros P [N I]. split; [eapply Permutation_NoDup; [symmetry; exact P | exact N]|].
  intros i Hi. apply I. eapply Permutation_in; eauto.
Qed.

Lemma from_ids_firstn k a c : from_ids a c -> from_ids (firstn k a) c.
Proof. intros [N I]. split; [apply nodup_firstn; exact N | intros i Hi; apply I; eapply in_firstn; eauto]. Qed.

Lemma from_ids_refl a : NoDup a -> from_ids a a.
Proof. intros N. split; auto. Qed.

(* the ids of the lexical / NLP path come from the accumulator *)
Lemma ranked_ids o nl sc :
  NoDup (map fst sc) ->
  let rs := sort_desc by_score (collect cmds o nl sc) in
  let rs1 := match nl with
             | Some n => match n_tfidf n with Some ranking => rerank o ranking rs | None => rs end
             | None => rs end in
  let rs2 := match nl with Some n => (match rs1 with [] => rs1 | _ => cascade n rs1 end) | None => rs1 end in
  from_ids (map fst (firstn (Z.to_nat (o_limit o)) rs2)) (map fst sc).
Proof.
  intros ND rs rs1 rs2.
  assert (R : from_ids (map fst rs) (map fst sc)).
  { eapply from_ids_perm; [unfold rs; apply sort_ids|]. rewrite collect_ids. apply from_ids_refl. exact ND. }
  assert (R1 : from_ids (map fst rs1) (map fst sc)).
  { unfold rs1. destruct nl as [n|]; [|exact R]. destruct (n_tfidf n) as [ranking|]; [|exact R].
    destruct (rerank_ids o ranking rs) as [k P]. eapply from_ids_perm; [exact P|]. apply from_ids_firstn. exact R. }
  assert (R2 : from_ids (map fst rs2) (map fst sc)).
  { unfold rs2. destruct nl as [n|]; [|exact R1]. destruct rs1 as [|x r] eqn:Er; [exact R1|].
    eapply from_ids_perm; [apply cascade_ids|]. exact R1. }
  rewrite map_fst_firstn. apply from_ids_firstn. exact R2.
Qed.

(* ---------- fuzzy path ---------- *)

Lemma fuzzy_spec o :
  NoDup (map fst (fuzzy_search E cmds o)) /\
  (length (fuzzy_search E cmds o) <= Z.to_nat (o_limit o))%nat /\
  forall i s, In (i, s) (fuzzy_search E cmds o) ->
    exists c raw, doc_at i c /\ eligible E o c = true /\ nth i (e_fuzzy E) None = Some raw /\
                  (o_threshold o = 0 \/ o_threshold o <= raw)%Z /\ s = fuzzy_norm raw.
Proof.
  unfold fuzzy_search.
  set (f := fun ic : nat * command => let '(i, c) := ic in
      match nth i (e_fuzzy E) None with
      | Some raw => if eligible E o c && (Z.eqb (o_threshold o) 0 || (o_threshold o <=? raw)%Z) then [(i, raw)] else []
      | None => [] end).
  destruct (flat_map_ids f (enumerate 0 cmds)) as [A B].
  - intros [i c] y. unfold f. destruct (nth i (e_fuzzy E) None); [|intros []].
    destruct (_ && _); [|intros []]. intros [H|[]]. subst. reflexivity.
  - intros [i c]. unfold f. destruct (nth i (e_fuzzy E) None); [|simpl; lia]. destruct (_ && _); simpl; lia.
  - apply enumerate_nodup.
  - set (cands := flat_map f (enumerate 0 cmds)) in *.
    set (ranked := sort_desc (fun x : nat * Z => f_of_Z (snd x)) cands).
    assert (P : Permutation ranked cands) by apply sort_perm.
    split; [|split].
    + rewrite map_fst_same by (intros [i r]; reflexivity). rewrite map_fst_firstn. apply nodup_firstn.
      eapply Permutation_NoDup; [apply Permutation_map; symmetry; exact P | exact A].
    + rewrite map_length. rewrite firstn_length. lia.
    + intros i s I. apply in_map_iff in I. destruct I as [[j raw] [Ej I]]. simpl in Ej. inversion Ej; subst.
      apply in_firstn in I. eapply Permutation_in in I; [|exact P].
      destruct (B _ I) as [[k c] [I1 I2]]. unfold f in I2.
      destruct (nth k (e_fuzzy E) None) as [raw'|] eqn:F; [|destruct I2].
      destruct (eligible E o c && (Z.eqb (o_threshold o) 0 || (o_threshold o <=? raw')%Z)) eqn:C; [|destruct I2].
      destruct I2 as [H|[]]. inversion H; subst. apply andb_true_iff in C. destruct C as [C1 C2].
      apply enumerate_in in I1. destruct I1 as [_ I1]. rewrite Nat.sub_0_r in I1.
      exists c, raw. repeat split; auto. lia.
Qed.

(* ---------- SearchUniversal ---------- *)

Definition limit_in_force (o : options) : Z := if (o_limit o <=? 0)%Z then 10%Z else o_limit o.

Lemma eff_limit_limit o : o_limit (eff_limit o) = limit_in_force o.
Proof. reflexivity. Qed.

(* every result is an entry of the searched database that passes the filters in force; no entry twice;
   at most the limit in force *)
Lemma search_universal_spec q o nl :
  let r := search_universal E cmds q o nl in
  NoDup (map fst r) /\ (length r <= Z.to_nat (limit_in_force o))%nat /\
  forall i s, In (i, s) r -> exists c, doc_at i c /\ eligible E (eff_limit o) c = true.
Proof.
  intros r. unfold r, search_universal.
  set (o' := eff_limit o). set (nl' := if o_nlp o' then nl else None).
  assert (FZ : let r := fuzzy_search E cmds o' in
     NoDup (map fst r) /\ (length r <= Z.to_nat (limit_in_force o))%nat /\
     forall i s, In (i, s) r -> exists c, doc_at i c /\ eligible E o' c = true).
  { destruct (fuzzy_spec o') as [A [B C]]. split; [exact A|]. split; [exact B|].
    intros i s I. destruct (C i s I) as [c [raw [H1 [H2 _]]]]. eauto. }
  assert (NIL : NoDup (map fst (@nil (nat * float))) /\ (length (@nil (nat * float)) <= Z.to_nat (limit_in_force o))%nat /\
     forall i s, In (i, s) (@nil (nat * float)) -> exists c, doc_at i c /\ eligible E o' c = true).
  { split; [constructor|]. split; [simpl; lia | intros i s []]. }
  destruct (query_terms E q o' nl') as [|t ts] eqn:QT.
  { destruct (o_fuzzy o'); [exact FZ | exact NIL]. }
  destruct (initial_scores E cmds o' nl' (selected_terms E cmds q o' nl')) as [|x sc] eqn:IS.
  { destruct (o_fuzzy o'); [exact FZ | exact NIL]. }
  destruct (initial_scores_spec o' nl' (selected_terms E cmds q o' nl')) as [ND SP]. rewrite IS in ND, SP.
  pose proof (ranked_ids o' nl' (x :: sc) ND) as R. cbv zeta in R. destruct R as [R1 R2].
  split; [exact R1|]. split.
  - rewrite firstn_length. change (o_limit o') with (limit_in_force o). lia.
  - intros i s I. assert (Ii : In i (map fst (x :: sc))).
    { apply R2. apply in_map_iff. exists (i, s). auto. }
    apply in_map_iff in Ii. destruct Ii as [[j s'] [Ej Ij]]. simpl in Ej. subst j.
    destruct (SP i s' Ij) as [c [H1 [H2 _]]]. eauto.
Qed.

(* results are ordered: consecutive scores never increase (index / NLP path) *)
Lemma ranked_sorted o nl sc :
  let rs := sort_desc by_score (collect cmds o nl sc) in
  let rs1 := match nl with
             | Some n => match n_tfidf n with Some ranking => rerank o ranking rs | None => rs end
             | None => rs end in
  let rs2 := match nl with Some n => (match rs1 with [] => rs1 | _ => cascade n rs1 end) | None => rs1 end in
  Sorted (desc_adj by_score) (firstn (Z.to_nat (o_limit o)) rs2).
Proof.
  intros rs rs1 rs2. apply sorted_firstn.
  assert (S0 : Sorted (desc_adj by_score) rs) by apply sort_sorted.
  assert (S1 : Sorted (desc_adj by_score) rs1).
  { unfold rs1. destruct nl as [n|]; [|exact S0]. destruct (n_tfidf n); [|exact S0]. unfold rerank. apply sort_sorted. }
  unfold rs2. destruct nl as [n|]; [|exact S1]. destruct rs1; [exact S1|]. unfold cascade. apply sort_sorted.
Qed.

(* the typo fallback is ranked by raw match quality *)
Lemma fuzzy_ranked o :
  exists ranked : list (nat * Z),
    fuzzy_search E cmds o = map (fun x => (fst x, fuzzy_norm (snd x))) ranked /\
    Sorted (desc_adj (fun x : nat * Z => f_of_Z (snd x))) ranked.
Proof.
  unfold fuzzy_search. eexists. split; [reflexivity|]. apply sorted_firstn. apply sort_sorted.
Qed.

(* ---------- C07: the fallback runs only when nothing matches ---------- *)

Definition set_fuzzy (o : options) (b : bool) : options :=
  {| o_limit := o_limit o; o_boosts := o_boosts o; o_pipeline_only := o_pipeline_only o; o_pipeline_boost := o_pipeline_boost o;
     o_fuzzy := b; o_threshold := o_threshold o; o_nlp := o_nlp o; o_terms_cap := o_terms_cap o;
     o_all_platforms := o_all_platforms o; o_platforms := o_platforms o; o_no_cross := o_no_cross o |}.

Lemma fuzzy_only_when_empty q o nl :
  search_universal E cmds q (set_fuzzy o false) nl <> [] ->
  search_universal E cmds q (set_fuzzy o true) nl = search_universal E cmds q (set_fuzzy o false) nl.
Proof.
  unfold search_universal. cbv zeta.
  set (ot := eff_limit (set_fuzzy o true)). set (of := eff_limit (set_fuzzy o false)).
  change (o_nlp ot) with (o_nlp of). change (o_limit ot) with (o_limit of).
  set (nl' := if o_nlp of then nl else None).
  change (query_terms E q ot nl') with (query_terms E q of nl').
  change (selected_terms E cmds q ot nl') with (selected_terms E cmds q of nl').
  change (initial_scores E cmds ot nl' (selected_terms E cmds q of nl')) with (initial_scores E cmds of nl' (selected_terms E cmds q of nl')).
  change (o_fuzzy of) with false. change (o_fuzzy ot) with true.
  destruct (query_terms E q of nl'); [congruence|].
  destruct (initial_scores E cmds of nl' (selected_terms E cmds q of nl')) eqn:IS; [congruence|].
  intros _. reflexivity.
Qed.

(* with no threshold, an eligible entry the matcher accepts is never left without a result *)
Lemma fuzzy_never_empty o i c raw :
  (0 < o_limit o)%Z -> o_threshold o = 0%Z -> doc_at i c -> eligible E o c = true ->
  nth i (e_fuzzy E) None = Some raw -> fuzzy_search E cmds o <> [].
Proof.
  intros L T D El F. unfold fuzzy_search.
  set (f := fun ic : nat * command => let '(i, c) := ic in
      match nth i (e_fuzzy E) None with
      | Some raw => if eligible E o c && (Z.eqb (o_threshold o) 0 || (o_threshold o <=? raw)%Z) then [(i, raw)] else []
      | None => [] end).
  assert (I : In (i, raw) (flat_map f (enumerate 0 cmds))).
  { apply in_flat_map. exists (i, c). split.
    - apply (enumerate_nth cmds 0 i c D).
    - unfold f. rewrite F, El, T. simpl. left. reflexivity. }
  set (cands := flat_map f (enumerate 0 cmds)) in *.
  intros H. apply map_eq_nil in H.
  assert (LN : length (firstn (Z.to_nat (o_limit o)) (sort_desc (fun x : nat * Z => f_of_Z (snd x)) cands)) = 0%nat) by (rewrite H; reflexivity).
  rewrite firstn_length, sort_length in LN. destruct cands; [destruct I|]. simpl in LN. lia.
Qed.

(* ---------- C20 / C06: the query enters the engine only through its tokens ---------- *)

Lemma search_depends_on_tokens q q' o nl :
  tokenize (e_stop E) q = tokenize (e_stop E) q' ->
  search_universal E cmds q o nl = search_universal E cmds q' o nl.
Proof. intros H. unfold search_universal, selected_terms, query_terms. rewrite H. reflexivity. Qed.

End Engine.

(* the tokenizer ignores letter case (ASCII) *)
Lemma lower_byte_idem b : lower_byte (lower_byte b) = lower_byte b.
Proof. unfold lower_byte, is_upper, inr. destruct ((65 <=? b)%N && (b <=? 90)%N) eqn:C; [|rewrite C; reflexivity].
  assert (C' : ((65 <=? b + 32)%N && (b + 32 <=? 90)%N) = false) by lia. rewrite C'. reflexivity. Qed.

Lemma is_alnum_lower b : is_alnum (lower_byte b) = is_alnum b.
Proof. unfold is_alnum, lower_byte, is_upper, is_lower, is_digit, inr.
  destruct ((65 <=? b)%N && (b <=? 90)%N) eqn:C; [lia | rewrite C; reflexivity]. Qed.

Lemma runs_lower cur s : runs cur (lower_ascii s) = runs cur s.
Proof.
  revert cur. induction s as [|b r IH]; intros cur; simpl; [reflexivity|].
  rewrite is_alnum_lower, lower_byte_idem. destruct (is_alnum b); [apply IH|]. destruct cur; rewrite IH; reflexivity.
Qed.

Lemma tokenize_case stop q q' : lower_ascii q = lower_ascii q' -> tokenize stop q = tokenize stop q'.
Proof. intros H. unfold tokenize. rewrite <- (runs_lower [] q), <- (runs_lower [] q'), H. reflexivity. Qed.

(* ---------- C06: NLP enhancement only appends terms ---------- *)

Lemma enhance_prefix terms enh : exists extra, enhance_terms terms enh = terms ++ extra.
Proof.
  unfold enhance_terms. revert terms. induction enh as [|e r IH]; intros terms; simpl; [exists []; rewrite app_nil_r; reflexivity|].
  destruct (mem_bytes e terms); [apply IH|]. destruct (Nat.ltb (length terms) 8); [|apply IH].
  destruct (IH (terms ++ [e])) as [x Hx]. exists ([e] ++ x). rewrite Hx, <- app_assoc. reflexivity.
Qed.

(* ---------- C02: collecting in document order makes the map's iteration order irrelevant ---------- *)

Fixpoint insert_nat (x : nat) (l : list nat) : list nat :=
  match l with [] => [x] | y :: r => if Nat.leb x y then x :: l else y :: insert_nat x r end.
Definition sort_nat (l : list nat) : list nat := fold_right insert_nat [] l.

Lemma insert_nat_perm x l : Permutation (insert_nat x l) (x :: l).
Proof. induction l as [|y r IH]; simpl; [reflexivity|]. destruct (Nat.leb x y); [reflexivity|]. rewrite IH. apply perm_swap. Qed.
Lemma sort_nat_perm l : Permutation (sort_nat l) l.
Proof. induction l as [|x r IH]; simpl; [reflexivity|]. rewrite insert_nat_perm, IH. reflexivity. Qed.

Lemma insert_nat_sorted x l : StronglySorted le l -> StronglySorted le (insert_nat x l).
Proof.
  induction l as [|y r IH]; simpl; intros S; [repeat constructor|].
  inversion S as [|? ? S' F]; subst. destruct (Nat.leb x y) eqn:C.
  - apply Nat.leb_le in C. constructor; [exact S|]. constructor; [exact C|]. eapply Forall_impl; [|exact F]. simpl; intros; lia.
  - apply Nat.leb_gt in C. constructor; [apply IH; exact S'|].
    eapply Permutation_Forall; [symmetry; apply insert_nat_perm|]. constructor; [lia | exact F].
Qed.
Lemma sort_nat_sorted l : StronglySorted le (sort_nat l).
Proof. induction l as [|x r IH]; simpl; [constructor|]. apply insert_nat_sorted. exact IH. Qed.

Lemma sorted_nat_perm_eq l1 l2 : StronglySorted le l1 -> StronglySorted le l2 -> Permutation l1 l2 -> l1 = l2.
Proof.
  revert l2. induction l1 as [|x l1 IH]; intros l2 S1 S2 P.
  - apply Permutation_nil in P. subst. reflexivity.
  - destruct l2 as [|y l2]; [apply Permutation_sym, Permutation_nil in P; discriminate|].
    inversion S1 as [|? ? S1' F1]; subst. inversion S2 as [|? ? S2' F2]; subst.
    assert (E : x = y).
    { assert (Ix : In x (y :: l2)) by (eapply Permutation_in; [exact P | left; reflexivity]).
      assert (Iy : In y (x :: l1)) by (eapply Permutation_in; [symmetry; exact P | left; reflexivity]).
      rewrite Forall_forall in F1, F2. destruct Ix as [Ix|Ix]; [auto|]. destruct Iy as [Iy|Iy]; [auto|].
      pose proof (F1 _ Iy). pose proof (F2 _ Ix). lia. }
    subst y. f_equal. apply IH; auto. eapply Permutation_cons_inv; eauto.
Qed.

(* whatever order the runtime hands out the keys of the score map in, sort.Ints gives the same list *)
Lemma collect_order_independent ord ord' : Permutation ord ord' -> sort_nat ord = sort_nat ord'.
Proof.
  intros P. apply sorted_nat_perm_eq; try apply sort_nat_sorted. rewrite !sort_nat_perm. exact P.
Qed.
