(* Proofs about Model/SearchCommand.v: what the search command hands from stage to stage. *)
From Coq Require Import List ZArith NArith Bool Lia.
From WTF Require Import Model.Validate Spec.ValidateSpec Model.Text Model.History Model.Cli Model.SearchCommand
                        Proofs.ValidateProofs Proofs.HistoryProofs Proofs.CliProofs.
Import ListNotations.

Section SearchCommandProofs.
Variable R : Type.
Variables engine recovery : list N -> Z -> list R.

(* a rejected query or limit: nothing is searched, printed or recorded *)
Lemma rejected_does_nothing d q limit now dur ctx h :
  (forall c, validate_query q <> ROk c) \/ (forall l, validate_limit d limit <> ROk l) ->
  let o := search_command R engine recovery d q limit now dur ctx h in
  ro_rejected o = true /\ ro_printed o = [] /\ ro_hist o = Some h.
Proof.
  intros H. unfold search_command.
  destruct (validate_query q) as [c|e] eqn:Q; [|simpl; auto].
  destruct (validate_limit d limit) as [l|e] eqn:L; [|simpl; auto].
  exfalso. destruct H as [H|H]; [exact (H c eq_refl) | exact (H l eq_refl)].
Qed.

Lemma load_keeps_max_positive h : 0 < max_size h -> (0 < max_size (fst (load_from h (disk h))))%Z.
Proof. intros H. exact (load_max h (disk h) H). Qed.

(* an accepted one: the text that is searched and recorded is the validated query itself - clean, and a fixed point of the
   validator -, the answer printed is the engine's (else the recovery search's) for THAT text and has at most `limit` entries
   when the engine respects the limit, and the history file afterwards ends with one entry for that text with that count *)
Lemma accepted_uses_the_validated_query d q limit now dur ctx h c l :
  (0 < max_size h)%Z ->
  validate_query q = ROk c -> validate_limit d limit = ROk l ->
  let o := search_command R engine recovery d q limit now dur ctx h in
  ro_rejected o = false /\ ro_query o = c /\
  clean_spec q c = true /\ validate_query c = ROk c /\
  ro_printed o = cli_results R l (engine c l) (recovery c l) /\
  exists h2, ro_hist o = Some (save h2) /\
    last_opt (entries h2) = Some {| h_query := c; h_time := now; h_results := Z.of_nat (length (ro_printed o));
                                    h_context := ctx; h_duration := dur |} /\
    disk (save h2) = FileDoc (FVal (entries h2)) (FVal (max_size h2)).
Proof.
  intros M Q L. unfold search_command. rewrite Q, L. cbn [ro_rejected ro_query ro_printed ro_hist].
  repeat split; [exact (validate_clean q c Q) | exact (validate_idempotent q c Q)|].
  set (e := {| h_query := c; h_time := now; h_results := _; h_context := ctx; h_duration := dur |}).
  destruct (add_some (fst (load_from h (disk h))) e (load_keeps_max_positive h M)) as [h2 [A [B _]]].
  rewrite A. exists h2. repeat split. exact B.
Qed.
End SearchCommandProofs.

(* the accepted limit (1..100, the default for 0) bounds what is printed whenever the engine respects the limit it is given *)
Lemma accepted_prints_at_most_the_limit (R : Type) (engine recovery : list N -> Z -> list R) d q limit now dur ctx h c l :
  validate_query q = ROk c -> validate_limit d limit = ROk l ->
  (length (engine c l) <= Z.to_nat l)%nat ->
  (length (ro_printed (search_command R engine recovery d q limit now dur ctx h)) <= Z.to_nat l)%nat.
Proof.
  intros Q L B. unfold search_command. rewrite Q, L. cbn [ro_printed].
  apply (@cli_results_bounded R l (engine c l) (recovery c l) B).
Qed.
