From Coq Require Import List ZArith NArith Bool Floats.
From WTF Require Import Model.Validate Model.Text Model.Platform Model.Engine Spec.Filters Proofs.EngineProofs.
Import ListNotations.

Lemma eligible_allowed E o c : eligible E o c = true -> allowed E o c /\ (o_pipeline_only o = true -> pipeline_cmd c = true).
Proof.
  unfold eligible, platform_ok, allowed, in_force. intros H. apply andb_true_iff in H. destruct H as [H1 H2]. split.
  - destruct (o_all_platforms o); [left; reflexivity|]. right.
    destruct (c_platform c) as [|p0 ps] eqn:P; [left; reflexivity|]. right.
    apply orb_true_iff in H1. destruct H1 as [H1|H1].
    + left. apply existsb_exists in H1. destruct H1 as [cur [I1 H1]]. apply existsb_exists in H1. destruct H1 as [p [I2 H1]].
      exists p, cur. split; [exact I2|]. split; [destruct (o_platforms o); exact I1 | exact H1].
    + right. apply andb_true_iff in H1. destruct H1 as [N H1]. apply negb_true_iff in N. split; [exact N|].
      apply orb_true_iff in H1. destruct H1 as [H1|H1]; [left | right; exact H1].
      unfold has_cross_tag in H1. apply existsb_exists in H1. destruct H1 as [p [I H1]]. exists p. split; [exact I | exact H1].
  - intros PO. rewrite PO in H2. simpl in H2. exact H2.
Qed.

Lemma results_filtered E cmds q o nl i s :
  In (i, s) (search_universal E cmds q o nl) ->
  exists c, nth_error cmds i = Some c /\ allowed E (eff_limit o) c /\ (o_pipeline_only o = true -> pipeline_cmd c = true).
Proof.
  intros I. destruct (search_universal_spec E cmds q o nl) as [_ [_ H]].
  destruct (H i s I) as [c [D El]]. exists c. split; [exact D|]. apply eligible_allowed in El. exact El.
Qed.
