(* Proofs about Model/Lru.v: invariants over every history of operations. *)
From Coq Require Import List ZArith NArith Bool Lia ZifyBool Sorting.Sorted.
From WTF Require Import Model.Lru.
Import ListNotations.
Open Scope Z_scope.

Local Arguments removelast : simpl never.
Local Arguments Z.of_nat : simpl never.
Local Arguments Z.gtb : simpl never.
Local Arguments Z.geb : simpl never.

Section LruProofs.
Variables K V : Type.
Variable keqb : K -> K -> bool.
Hypothesis keqb_spec : forall a b, keqb a b = true <-> a = b.

Notation lru := (lru K V).
Notation entry := (entry K V).
Notation op := (@op K V).
Notation out := (@out K V).
Notation step := (step K V keqb).
Notation lookup := (lookup K V keqb).
Notation remove := (remove K V keqb).

Lemma keqb_refl k : keqb k k = true.
Proof. apply keqb_spec; reflexivity. Qed.

Lemma keqb_false a b : keqb a b = false <-> a <> b.
Proof.
  split; intros H.
  - intros E. apply keqb_spec in E. congruence.
  - destruct (keqb a b) eqn:E; [apply keqb_spec in E; contradiction | reflexivity].
Qed.

Definition keys (l : list entry) : list K := map e_key l.

(* ---------- list lemmas about lookup / remove ---------- *)

Lemma lookup_some l k e : lookup k l = Some e -> In e l /\ e_key e = k.
Proof.
  induction l as [|x l IH]; simpl; [discriminate|].
  destruct (keqb k (e_key x)) eqn:E.
  - intros H; inversion H; subst. apply keqb_spec in E. auto.
  - intros H. destruct (IH H); auto.
Qed.

Lemma lookup_none l k : lookup k l = None <-> ~ In k (keys l).
Proof.
  induction l as [|x l IH]; simpl; [tauto|].
  destruct (keqb k (e_key x)) eqn:E.
  - apply keqb_spec in E. split; [discriminate | intros H; exfalso; apply H; auto].
  - apply keqb_false in E. rewrite IH. split; intros H; [intros [A|A]; [congruence|tauto] | tauto].
Qed.

Lemma remove_in l k e : In e (remove k l) -> In e l.
Proof.
  induction l as [|x l IH]; simpl; [tauto|].
  destruct (keqb k (e_key x)); simpl; intuition.
Qed.

Lemma remove_keys_notin l k : NoDup (keys l) -> ~ In k (keys (remove k l)).
Proof.
  induction l as [|x l IH]; simpl; [tauto|].
  intros ND. inversion ND as [|? ? Hx ND']; subst.
  destruct (keqb k (e_key x)) eqn:E.
  - apply keqb_spec in E. subst. exact Hx.
  - apply keqb_false in E. simpl. intros [A|A]; [congruence | apply IH in A; auto].
Qed.

Lemma remove_keys_subset l k x : In x (keys (remove k l)) -> In x (keys l).
Proof.
  unfold keys. rewrite !in_map_iff. intros [e [A B]]. exists e. split; [auto | eapply remove_in; eauto].
Qed.

Lemma remove_nodup l k : NoDup (keys l) -> NoDup (keys (remove k l)).
Proof.
  induction l as [|x l IH]; simpl; [auto|].
  intros ND. inversion ND as [|? ? Hx ND']; subst.
  destruct (keqb k (e_key x)); [auto|]. simpl. constructor; [|auto].
  intros A. apply Hx. eapply remove_keys_subset; eauto.
Qed.

Lemma remove_length_in l k : In k (keys l) -> S (length (remove k l)) = length l.
Proof.
  induction l as [|x l IH]; simpl; [tauto|].
  destruct (keqb k (e_key x)) eqn:E; [reflexivity|].
  apply keqb_false in E. intros [A|A]; [congruence|]. simpl. rewrite IH; auto.
Qed.

Lemma remove_notin l k : ~ In k (keys l) -> remove k l = l.
Proof.
  induction l as [|x l IH]; simpl; [auto|].
  intros H. destruct (keqb k (e_key x)) eqn:E.
  - apply keqb_spec in E. exfalso. apply H. auto.
  - rewrite IH; auto.
Qed.

Lemma remove_forall (P : entry -> Prop) l k : Forall P l -> Forall P (remove k l).
Proof.
  intros H. apply Forall_forall. intros e A. apply remove_in in A.
  rewrite Forall_forall in H. auto.
Qed.

Lemma remove_sorted (R : entry -> entry -> Prop) l k :
  StronglySorted R l -> StronglySorted R (remove k l).
Proof.
  induction l as [|x l IH]; simpl; [auto|].
  intros S. inversion S as [|? ? S' F]; subst.
  destruct (keqb k (e_key x)); [auto|].
  constructor; [auto | apply remove_forall; auto].
Qed.

Lemma removelast_in {A} (l : list A) x : In x (removelast l) -> In x l.
Proof.
  induction l as [|y l IH]; simpl; [tauto|].
  destruct l as [|z l]; [simpl; tauto|]. intros [H|H]; [auto | right; apply IH; exact H].
Qed.

Lemma removelast_length {A} (l : list A) : l <> [] -> S (length (removelast l)) = length l.
Proof.
  intros H. destruct (exists_last H) as [l' [a E]]. subst.
  rewrite removelast_last, app_length. simpl. lia.
Qed.

Lemma removelast_nodup {A} (l : list A) : NoDup l -> NoDup (removelast l).
Proof.
  destruct l as [|a l] using rev_ind; [auto|].
  rewrite removelast_last. intros H. apply NoDup_remove_1 in H. rewrite app_nil_r in H. exact H.
Qed.

Lemma keys_removelast (l : list entry) : keys (removelast l) = removelast (keys l).
Proof.
  unfold keys. destruct l as [|a l] using rev_ind; [reflexivity|].
  rewrite map_app. simpl map. rewrite !removelast_last. reflexivity.
Qed.

(* ---------- the invariant ---------- *)

Definition touch_gt (a b : entry) : Prop := (e_touch b < e_touch a)%nat.

Record Inv (s : lru) (last : Z) : Prop := {
  inv_cap : 0 < cap s;
  inv_len : Z.of_nat (length (items s)) <= cap s;
  inv_nodup : NoDup (keys (items s));
  inv_sorted : StronglySorted touch_gt (items s);
  inv_touch : Forall (fun e => (e_touch e <= tick s)%nat) (items s);
  inv_time : Forall (fun e => e_created e <= e_stored e /\ e_stored e <= last) (items s)
}.

Lemma inv_new c t last : Inv (new K V c t) last.
Proof.
  assert (C : 0 < (if c <=? 0 then default_capacity else c)).
  { destruct (c <=? 0) eqn:E; [reflexivity | lia]. }
  unfold new. constructor; cbn [cap items tick length]; try constructor; try exact C.
  change (Z.of_nat 0) with 0. lia.
Qed.

Lemma forall_time_mono (l : list entry) a b :
  a <= b -> Forall (fun e => e_created e <= e_stored e /\ e_stored e <= a) l ->
  Forall (fun e => e_created e <= e_stored e /\ e_stored e <= b) l.
Proof. intros H F. eapply Forall_impl; [|exact F]. simpl. intros e [A B]. lia. Qed.

Lemma forall_touch_lt (l : list entry) n :
  Forall (fun e => (e_touch e <= n)%nat) l -> Forall (fun e => (e_touch e < S n)%nat) l.
Proof. intros F. eapply Forall_impl; [|exact F]. simpl. intros; lia. Qed.

Lemma forall_touch_le_S (l : list entry) n :
  Forall (fun e => (e_touch e <= n)%nat) l -> Forall (fun e => (e_touch e <= S n)%nat) l.
Proof. intros F. eapply Forall_impl; [|exact F]. simpl. intros; lia. Qed.

Lemma sweep_rev_spec s now l k n :
  sweep_rev K V s now l = (k, n) ->
  exists dropped, l = dropped ++ k /\ n = Z.of_nat (length dropped) /\
    Forall (fun e => now - e_created e > ttl s) dropped /\
    (match k with [] => True | e :: _ => now - e_created e <= ttl s end).
Proof.
  revert k n. induction l as [|e l IH]; simpl; intros k n H.
  - inversion H; subst. exists []. simpl. auto.
  - destruct (now - e_created e >? ttl s) eqn:E.
    + destruct (sweep_rev K V s now l) as [k' n'] eqn:E'. inversion H; subst.
      destruct (IH _ _ eq_refl) as [d [A [B [C D]]]]. exists (e :: d). subst. simpl.
      repeat split; auto; [lia | constructor; [lia | auto]].
    + inversion H; subst. exists []. simpl. repeat split; auto; lia.
Qed.

Lemma nodup_app_l {A} (a b : list A) : NoDup (a ++ b) -> NoDup a.
Proof.
  induction a as [|x a IH]; simpl; [constructor|].
  intros H. inversion H as [|? ? Hx H']; subst. constructor; [|auto].
  intros I. apply Hx. apply in_or_app. auto.
Qed.

Lemma sorted_app_r {A} (R : A -> A -> Prop) (a b : list A) :
  StronglySorted R (a ++ b) -> StronglySorted R a.
Proof.
  induction a as [|x a IH]; simpl; [constructor|].
  intros S. inversion S as [|? ? S' F]; subst. constructor; [auto|].
  apply Forall_app in F. tauto.
Qed.

Lemma cleanup_spec s now s' n :
  cleanup K V s now = (s', n) ->
  exists kept dropped, items s = kept ++ dropped /\ items s' = kept /\ n = Z.of_nat (length dropped) /\
    cap s' = cap s /\ ttl s' = ttl s /\ hits s' = hits s /\ misses s' = misses s /\
    evictions s' = evictions s /\ tick s' = tick s /\
    Forall (fun e => 0 < ttl s /\ now - e_created e > ttl s) dropped.
Proof.
  unfold cleanup. destruct (ttl s <=? 0) eqn:E.
  - intros H; inversion H; subst. exists (items s'), []. rewrite app_nil_r. simpl. repeat split; auto.
  - destruct (sweep_rev K V s now (rev (items s))) as [k m] eqn:E'. intros H; inversion H; subst.
    destruct (sweep_rev_spec _ _ _ _ _ E') as [d [A [B [C D]]]].
    exists (rev k), (rev d). simpl.
    split; [rewrite <- rev_app_distr, <- A, rev_involutive; reflexivity|].
    split; [reflexivity|]. split; [rewrite rev_length; exact B|].
    repeat (split; [reflexivity|]).
    apply Forall_rev. eapply Forall_impl; [|exact C]. simpl. intros; lia.
Qed.

Lemma put_inv s last now k v :
  Inv s last -> last <= now -> Inv (put K V keqb (next_tick K V s) now k v) now.
Proof.
  intros [Hc Hl Hn Hs Ht Htm] Hle.
  assert (Htm' := forall_time_mono _ _ _ Hle Htm).
  assert (Htlt := forall_touch_lt _ _ Ht).
  assert (HtS := forall_touch_le_S _ _ Ht).
  unfold put. cbn [next_tick items cap tick].
  destruct (lookup k (items s)) eqn:L.
  + apply lookup_some in L. destruct L as [Lin Lk].
    assert (Hin : In k (keys (items s))) by (unfold keys; apply in_map_iff; eauto).
    constructor; simpl; auto.
    * rewrite <- (remove_length_in _ _ Hin) in Hl. cbn [length] in *. lia.
    * constructor; [rewrite Lk; apply remove_keys_notin; auto | apply remove_nodup; auto].
    * constructor; [apply remove_sorted; auto|].
      apply remove_forall. eapply Forall_impl; [|exact Htlt]. unfold touch_gt; simpl. intros; lia.
    * constructor; [simpl; lia | apply remove_forall; auto].
    * constructor; [|apply remove_forall; auto]. simpl.
      rewrite Forall_forall in Htm. apply Htm in Lin. lia.
  + apply lookup_none in L.
    set (e' := {| e_key := k; e_val := v; e_created := now; e_stored := now; e_touch := S (tick s) |}).
    assert (ND : NoDup (keys (e' :: items s))) by (simpl; constructor; auto).
    assert (SS : StronglySorted touch_gt (e' :: items s)).
    { constructor; [exact Hs|]. eapply Forall_impl; [|exact Htlt]. unfold touch_gt; simpl; intros; lia. }
    assert (FT : Forall (fun e => (e_touch e <= S (tick s))%nat) (e' :: items s)).
    { constructor; [simpl; lia | auto]. }
    assert (FM : Forall (fun e => e_created e <= e_stored e /\ e_stored e <= now) (e' :: items s)).
    { constructor; [simpl; lia | auto]. }
    assert (NE : e' :: items s <> []) by discriminate.
    pose proof (removelast_length _ NE) as RL.
    assert (LL : length (e' :: items s) = S (length (items s))) by reflexivity.
    revert ND SS FT FM NE RL LL. generalize (e' :: items s). intros l ND SS FT FM NE RL LL.
    destruct (Z.of_nat (length l) >? cap s) eqn:G.
    * unfold evict_oldest.
      constructor; cbn [bump_evict with_items cap items tick next_tick]; auto.
      -- lia.
      -- rewrite keys_removelast. apply removelast_nodup. exact ND.
      -- destruct (exists_last NE) as [l' [a E]]. rewrite E in *. rewrite removelast_last.
         eapply sorted_app_r; eauto.
      -- apply Forall_forall. intros x Hx. apply removelast_in in Hx.
         rewrite Forall_forall in FT. auto.
      -- apply Forall_forall. intros x Hx. apply removelast_in in Hx.
         rewrite Forall_forall in FM. auto.
    * constructor; cbn [with_items cap items tick next_tick]; auto. lia.
Qed.

Lemma step_inv s last now o :
  Inv s last -> last <= now -> Inv (fst (step s now o)) now.
Proof.
  intros [Hc Hl Hn Hs Ht Htm] Hle.
  assert (Htm' := forall_time_mono _ _ _ Hle Htm).
  assert (Htlt := forall_touch_lt _ _ Ht).
  assert (HtS := forall_touch_le_S _ _ Ht).
  destruct o; unfold step; simpl.
  - (* Get *)
    unfold get; simpl. destruct (lookup k (items s)) eqn:L; simpl.
    + apply lookup_some in L. destruct L as [Lin Lk].
      assert (Hin : In k (keys (items s))) by (unfold keys; apply in_map_iff; eauto).
      destruct (expired K V (next_tick K V s) now e); simpl.
      * constructor; simpl; auto.
        -- rewrite <- (remove_length_in _ _ Hin) in Hl. lia.
        -- apply remove_nodup; auto.
        -- apply remove_sorted; auto.
        -- apply remove_forall; auto.
        -- apply remove_forall; auto.
      * constructor; simpl; auto.
        -- rewrite <- (remove_length_in _ _ Hin) in Hl. simpl in Hl. lia.
        -- constructor; [rewrite Lk; apply remove_keys_notin; auto | apply remove_nodup; auto].
        -- constructor; [apply remove_sorted; auto|].
           apply remove_forall. eapply Forall_impl; [|exact Htlt]. unfold touch_gt; simpl. intros; lia.
        -- constructor; [simpl; lia | apply remove_forall; auto].
        -- constructor; [|apply remove_forall; auto]. simpl.
           rewrite Forall_forall in Htm'. apply Htm' in Lin. exact Lin.
    + constructor; simpl; auto.
  - (* Put *) eapply put_inv; eauto. constructor; auto.
  - (* Delete *)
    unfold delete; simpl. destruct (lookup k (items s)) eqn:L; simpl.
    + apply lookup_some in L. destruct L as [Lin Lk].
      assert (Hin : In k (keys (items s))) by (unfold keys; apply in_map_iff; eauto).
      constructor; simpl; auto.
      * rewrite <- (remove_length_in _ _ Hin) in Hl. lia.
      * apply remove_nodup; auto.
      * apply remove_sorted; auto.
      * apply remove_forall; auto.
      * apply remove_forall; auto.
    + constructor; simpl; auto.
  - (* Clear *) constructor; simpl; auto; try constructor. lia.
  - constructor; simpl; auto.
  - constructor; simpl; auto.
  - constructor; simpl; auto.
  - constructor; simpl; auto.
  - (* Cleanup *)
    destruct (cleanup K V (next_tick K V s) now) as [s' n] eqn:E. simpl.
    destruct (cleanup_spec _ _ _ _ E) as [kept [dropped [A [B [_ [C1 [C2 [C3 [C4 [C5 [C6 _]]]]]]]]]]].
    simpl in A, C1, C6.
    constructor; rewrite ?B, ?C1, ?C6; auto.
    + rewrite A, app_length in Hl. lia.
    + unfold keys in *. rewrite A, map_app in Hn. eapply nodup_app_l; eauto.
    + rewrite A in Hs. eapply sorted_app_r; eauto.
    + rewrite A in HtS. apply Forall_app in HtS. tauto.
    + rewrite A in Htm'. apply Forall_app in Htm'. tauto.
Qed.

(* ---------- histories ---------- *)

Definition hist := list (Z * op).

Fixpoint mono_from (t : Z) (h : hist) : Prop :=
  match h with
  | [] => True
  | (now, _) :: r => t <= now /\ mono_from now r
  end.

Fixpoint reach_from (s : lru) (h : hist) : lru :=
  match h with
  | [] => s
  | (now, o) :: r => reach_from (fst (step s now o)) r
  end.

Fixpoint last_time (t : Z) (h : hist) : Z :=
  match h with [] => t | (now, _) :: r => last_time now r end.

Lemma run_reach s h : fst (run K V keqb s h) = reach_from s h.
Proof.
  revert s. induction h as [|[now o] r IH]; intros s; simpl; [reflexivity|].
  destruct (step s now o) as [s1 x] eqn:E. specialize (IH s1).
  destruct (run K V keqb s1 r) as [s2 xs]. simpl in *. exact IH.
Qed.

Lemma reach_inv s t h : Inv s t -> mono_from t h -> Inv (reach_from s h) (last_time t h).
Proof.
  revert s t. induction h as [|[now o] r IH]; intros s t I M; simpl; [exact I|].
  destruct M as [M1 M2]. apply IH; [|exact M2]. eapply step_inv; eauto.
Qed.

Definition reach (c t : Z) (t0 : Z) (h : hist) : lru := reach_from (new K V c t) h.

Lemma mono_last t h : mono_from t h -> t <= last_time t h.
Proof.
  revert t. induction h as [|[now o] r IH]; intros t; simpl; [lia|].
  intros [A B]. specialize (IH _ B). lia.
Qed.

Lemma step_ttl_cap s now o : ttl (fst (step s now o)) = ttl s /\ cap (fst (step s now o)) = cap s.
Proof.
  destruct o; unfold step; cbn [fst]; auto.
  - unfold get. cbn [next_tick items]. destruct (lookup k (items s)); [|auto].
    destruct (expired K V (next_tick K V s) now e); auto.
  - unfold put. cbn [next_tick items cap tick]. destruct (lookup k (items s)); [auto|].
    destruct (Z.of_nat _ >? cap s); auto.
  - unfold delete. cbn [next_tick items]. destruct (lookup k (items s)); auto.
  - destruct (cleanup K V (next_tick K V s) now) as [s' n] eqn:C. cbn [fst].
    destruct (cleanup_spec _ _ _ _ C) as [? [? [_ [_ [_ [C1 [C2 _]]]]]]]. simpl in C1, C2. auto.
Qed.

Lemma reach_ttl s h : ttl (reach_from s h) = ttl s.
Proof.
  revert s. induction h as [|[now o] r IH]; intros s; simpl; [reflexivity|].
  rewrite IH. apply step_ttl_cap.
Qed.

Lemma reach_cap s h : cap (reach_from s h) = cap s.
Proof.
  revert s. induction h as [|[now o] r IH]; intros s; simpl; [reflexivity|].
  rewrite IH. apply step_ttl_cap.
Qed.

(* ---------- C12 theorems ---------- *)

(* capacity, positivity of capacity, one value per key: every reachable state *)
Lemma capacity_reachable c t t0 h :
  mono_from t0 h ->
  let s := reach c t t0 h in
  0 < cap s /\ Z.of_nat (length (items s)) <= cap s /\ NoDup (keys (items s)).
Proof.
  intros M s. destruct (reach_inv _ _ _ (inv_new c t t0) M) as [A B C _ _ _]. auto.
Qed.

(* eviction: an inserting Put on a full cache discards exactly the least recently touched entry *)
Lemma evicts_least_recent c t t0 h now k v :
  mono_from t0 h ->
  let s := reach c t t0 h in
  lookup k (items s) = None -> Z.of_nat (length (items s)) = cap s ->
  exists old victim,
    items s = old ++ [victim] /\
    items (fst (step s now (Put k v))) =
      {| e_key := k; e_val := v; e_created := now; e_stored := now; e_touch := S (tick s) |} :: old /\
    Forall (fun e => (e_touch victim < e_touch e)%nat) old /\
    evictions (fst (step s now (Put k v))) = N.succ (evictions s).
Proof.
  intros M s L F.
  destruct (reach_inv _ _ _ (inv_new c t t0) M) as [Hc Hl Hn Hs Ht Htm]. fold (reach c t t0 h) in *. fold s in Hc, Hl, Hn, Hs, Ht, Htm.
  assert (NE : items s <> []).
  { intros E. rewrite E in F. simpl in F. lia. }
  destruct (exists_last NE) as [old [victim E]].
  exists old, victim. split; [exact E|].
  assert (P : fst (step s now (Put k v)) =
     bump_evict K V (with_items K V (next_tick K V s)
       (removelast ({| e_key := k; e_val := v; e_created := now; e_stored := now; e_touch := S (tick s) |} :: items s)))).
  { unfold step. cbn [fst]. unfold put. cbn [next_tick items cap tick]. rewrite L.
    assert (G : (Z.of_nat (length ({| e_key := k; e_val := v; e_created := now; e_stored := now; e_touch := S (tick s) |} :: items s)) >? cap s) = true).
    { apply Z.gtb_lt. cbn [length]. lia. }
    rewrite G. reflexivity. }
  rewrite P. cbn [bump_evict with_items items evictions next_tick].
  split; [|split].
  - rewrite E. rewrite app_comm_cons, removelast_last. reflexivity.
  - rewrite E in Hs. clear - Hs. induction old as [|x old IH]; [constructor|].
    simpl in Hs. inversion Hs as [|? ? S' F']; subst. constructor; [|auto].
    apply Forall_app in F'. destruct F' as [_ F']. inversion F'; subst. assumption.
  - reflexivity.
Qed.

(* ---------- traces: the history with the outputs the cache gave ---------- *)

Fixpoint trace_from (s : lru) (h : hist) : list (Z * op * out) :=
  match h with
  | [] => []
  | (now, o) :: r => let '(s', x) := step s now o in (now, o, x) :: trace_from s' r
  end.

Lemma trace_app s h1 h2 :
  trace_from s (h1 ++ h2) = trace_from s h1 ++ trace_from (reach_from s h1) h2.
Proof.
  revert s. induction h1 as [|[now o] r IH]; intros s; simpl; [reflexivity|].
  destruct (step s now o) as [s' x] eqn:E. simpl. rewrite IH. reflexivity.
Qed.

Lemma reach_app s h1 h2 : reach_from s (h1 ++ h2) = reach_from (reach_from s h1) h2.
Proof. revert s. induction h1 as [|[now o] r IH]; intros s; simpl; auto. Qed.

Lemma mono_app t h1 h2 : mono_from t (h1 ++ h2) <-> mono_from t h1 /\ mono_from (last_time t h1) h2.
Proof.
  revert t. induction h1 as [|[now o] r IH]; intros t; simpl; [tauto|]. rewrite IH. tauto.
Qed.

(* value a key should hold according to the history alone (newest event first):
   the last Put, unless a Delete of the key or a Clear came after it *)
Fixpoint live_val_rev (k : K) (tr : list (Z * op * out)) : option V :=
  match tr with
  | [] => None
  | (_, Put k' v, _) :: r => if keqb k k' then Some v else live_val_rev k r
  | (_, Delete k', _) :: r => if keqb k k' then None else live_val_rev k r
  | (_, Clear, _) :: r => None
  | _ :: r => live_val_rev k r
  end.
Definition live_val (k : K) (tr : list (Z * op * out)) := live_val_rev k (rev tr).

(* time of the last Put of the key (newest first) *)
Fixpoint stored_at_rev (k : K) (tr : list (Z * op * out)) : option Z :=
  match tr with
  | [] => None
  | (now, Put k' v, _) :: r => if keqb k k' then Some now else stored_at_rev k r
  | _ :: r => stored_at_rev k r
  end.
Definition stored_at (k : K) (tr : list (Z * op * out)) := stored_at_rev k (rev tr).

(* index (1-based) of the last Put or hit Get of the key *)
Fixpoint touched_rev (k : K) (tr : list (Z * op * out)) : nat :=
  match tr with
  | [] => 0
  | (_, Put k' _, _) :: r => if keqb k k' then length tr else touched_rev k r
  | (_, Get k', OGet (Some _)) :: r => if keqb k k' then length tr else touched_rev k r
  | _ :: r => touched_rev k r
  end.
Definition touched (k : K) (tr : list (Z * op * out)) := touched_rev k (rev tr).

(* every cached entry holds the value, store time and touch index the history dictates *)
Definition Agree (s : lru) (tr : list (Z * op * out)) : Prop :=
  tick s = length tr /\
  forall e, In e (items s) ->
    live_val (e_key e) tr = Some (e_val e) /\
    stored_at (e_key e) tr = Some (e_stored e) /\
    touched (e_key e) tr = e_touch e.

Lemma in_remove_key l k e : NoDup (keys l) -> In e (remove k l) -> e_key e <> k.
Proof.
  intros ND H E. apply (remove_keys_notin l k ND). subst k. unfold keys. apply in_map. exact H.
Qed.

Lemma step_agree s last now o tr :
  Inv s last -> Agree s tr ->
  Agree (fst (step s now o)) (tr ++ [(now, o, snd (step s now o))]).
Proof.
  intros I [Tk A].
  assert (ND := inv_nodup _ _ I).
  unfold Agree, live_val, stored_at, touched in *. rewrite !rev_unit, app_length. simpl length.
  replace (length tr + 1)%nat with (S (length tr)) by lia.
  destruct o; unfold step; simpl.
  - (* Get *)
    unfold get; simpl. destruct (lookup k (items s)) eqn:L; simpl.
    + apply lookup_some in L. destruct L as [Lin Lk].
      destruct (expired K V (next_tick K V s) now e); simpl.
      * split; [lia|]. intros x Hx. pose proof (in_remove_key _ _ _ ND Hx) as NK.
        apply remove_in in Hx. auto.
      * split; [lia|]. intros x [Hx|Hx].
        -- subst x. simpl. rewrite Lk, keqb_refl. rewrite rev_length. destruct (A _ Lin) as [A1 [A2 A3]].
           rewrite Lk in *. repeat split; auto; lia.
        -- pose proof (in_remove_key _ _ _ ND Hx) as NK. apply remove_in in Hx.
           apply keqb_false in NK. rewrite NK. auto.
    + split; [lia|]. auto.
  - (* Put *)
    rewrite rev_length.
    unfold put. cbn [next_tick items cap tick]. destruct (lookup k (items s)) eqn:L.
    + apply lookup_some in L. destruct L as [Lin Lk]. cbn [with_items tick items next_tick].
      split; [lia|]. intros x [Hx|Hx].
      * subst x. simpl. rewrite Lk, keqb_refl. repeat split; auto; lia.
      * pose proof (in_remove_key _ _ _ ND Hx) as NK. apply remove_in in Hx.
        apply keqb_false in NK. rewrite NK. auto.
    + apply lookup_none in L.
      set (e' := {| e_key := k; e_val := v; e_created := now; e_stored := now; e_touch := S (tick s) |}).
      assert (Hnew : forall x, In x (e' :: items s) ->
        (if keqb (e_key x) k then Some v else live_val_rev (e_key x) (rev tr)) = Some (e_val x) /\
        (if keqb (e_key x) k then Some now else stored_at_rev (e_key x) (rev tr)) = Some (e_stored x) /\
        (if keqb (e_key x) k then S (length tr) else touched_rev (e_key x) (rev tr)) = e_touch x).
      { intros x [Hx|Hx].
        - subst x. simpl. rewrite keqb_refl. repeat split; auto; lia.
        - assert (NK : e_key x <> k) by (intros E; apply L; rewrite <- E; unfold keys; apply in_map; auto).
          apply keqb_false in NK. rewrite NK. auto. }
      destruct (Z.of_nat (length (e' :: items s)) >? cap s).
      * unfold evict_oldest. cbn [bump_evict with_items tick items next_tick].
        split; [lia|]. intros x Hx. apply Hnew. apply removelast_in in Hx. exact Hx.
      * cbn [with_items tick items next_tick]. split; [lia|]. intros x Hx. apply Hnew. exact Hx.
  - (* Delete *)
    unfold delete; simpl. destruct (lookup k (items s)) eqn:L; simpl.
    + split; [lia|]. intros x Hx. pose proof (in_remove_key _ _ _ ND Hx) as NK.
      apply remove_in in Hx. apply keqb_false in NK. rewrite NK. auto.
    + apply lookup_none in L. split; [lia|]. intros x Hx.
      assert (NK : e_key x <> k) by (intros E; apply L; rewrite <- E; unfold keys; apply in_map; auto).
      apply keqb_false in NK. rewrite NK. auto.
  - split; [lia|]. intros x [].
  - split; [lia|]. auto.
  - split; [lia|]. auto.
  - split; [lia|]. auto.
  - split; [lia|]. auto.
  - destruct (cleanup K V (next_tick K V s) now) as [s' n] eqn:E. simpl.
    destruct (cleanup_spec _ _ _ _ E) as [kept [dropped [A' [B [_ [C1 [C2 [C3 [C4 [C5 [C6 _]]]]]]]]]]].
    simpl in A', C6. rewrite C6. split; [lia|]. intros x Hx. rewrite B in Hx.
    apply A. rewrite A'. apply in_or_app. auto.
Qed.

Lemma reach_agree s t h tr :
  Inv s t -> mono_from t h -> Agree s tr ->
  Agree (reach_from s h) (tr ++ trace_from s h).
Proof.
  revert s t tr. induction h as [|[now o] r IH]; intros s t tr I M A; simpl.
  - rewrite app_nil_r. exact A.
  - destruct M as [M1 M2]. destruct (step s now o) as [s' x] eqn:E. simpl.
    pose proof (step_inv _ _ _ o I M1) as I'. pose proof (step_agree _ _ now o _ I A) as A'.
    rewrite E in I', A'. simpl in I', A'.
    specialize (IH _ _ _ I' M2 A'). rewrite <- app_assoc in IH. exact IH.
Qed.

Definition trace (c t : Z) (h : hist) := trace_from (new K V c t) h.

Lemma agree_reachable c t t0 h :
  mono_from t0 h -> Agree (reach c t t0 h) (trace c t h).
Proof.
  intros M. apply (reach_agree _ _ _ [] (inv_new c t t0) M). split; [reflexivity | intros e []].
Qed.

(* a lookup returns the value most recently stored under the key, if still present *)
Lemma get_latest c t t0 h now k v :
  mono_from t0 h ->
  snd (step (reach c t t0 h) now (Get k)) = OGet (Some v) ->
  live_val k (trace c t h) = Some v.
Proof.
  intros M. destruct (agree_reachable c t t0 h M) as [_ A].
  unfold step, get. simpl. destruct (lookup k (items (reach c t t0 h))) eqn:L; simpl; [|discriminate].
  apply lookup_some in L. destruct L as [Lin Lk].
  destruct (expired K V (next_tick K V (reach c t t0 h)) now e); simpl; [discriminate|].
  intros H. inversion H; subst. destruct (A _ Lin) as [A1 _]. exact A1.
Qed.

(* ... and never a value stored longer ago than the lifetime *)
Lemma never_stale c t t0 h now k v :
  mono_from t0 h -> last_time t0 h <= now -> 0 < t ->
  snd (step (reach c t t0 h) now (Get k)) = OGet (Some v) ->
  exists st, stored_at k (trace c t h) = Some st /\ now - st <= t.
Proof.
  intros M Hnow Ht.
  destruct (agree_reachable c t t0 h M) as [_ A].
  pose proof (reach_inv _ _ _ (inv_new c t t0) M) as I. fold (reach c t t0 h) in I.
  assert (TT : ttl (reach c t t0 h) = t) by (unfold reach; rewrite reach_ttl; reflexivity).
  unfold step, get. simpl. destruct (lookup k (items (reach c t t0 h))) eqn:L; simpl; [|discriminate].
  apply lookup_some in L. destruct L as [Lin Lk].
  unfold expired. simpl. rewrite TT.
  destruct ((t >? 0) && (now - e_created e >? t)) eqn:X; simpl; [discriminate|].
  intros _. destruct (A _ Lin) as [_ [A2 _]]. rewrite Lk in A2. exists (e_stored e). split; [exact A2|].
  pose proof (inv_time _ _ I) as Tm. rewrite Forall_forall in Tm. apply Tm in Lin.
  apply andb_false_iff in X. rewrite !Z.gtb_ltb, !Z.ltb_ge in X. lia.
Qed.

(* sweep removes only expired entries, keeps the survivors in order, and counts what it removed *)
Lemma sweep_sound c t t0 h now :
  mono_from t0 h ->
  let s := reach c t t0 h in
  exists kept dropped,
    items s = kept ++ dropped /\
    items (fst (step s now Cleanup)) = kept /\
    snd (step s now Cleanup) = OInt (Z.of_nat (length dropped)) /\
    Forall (fun e => 0 < ttl s /\ now - e_created e > ttl s) dropped.
Proof.
  intros M s. unfold step. destruct (cleanup K V (next_tick K V s) now) as [s' n] eqn:E. simpl.
  destruct (cleanup_spec _ _ _ _ E) as [kept [dropped [A [B [C [_ [_ [_ [_ [_ [_ D]]]]]]]]]]].
  exists kept, dropped. simpl in *. subst n. auto.
Qed.

(* ---------- statistics ---------- *)

(* events since the last Clear, newest first *)
Fixpoint since_clear_rev (tr : list (lru * Z * op * out)) : list (lru * Z * op * out) :=
  match tr with
  | [] => []
  | (_, _, Clear, _) as x :: r => []
  | x :: r => x :: since_clear_rev r
  end.

Definition is_hit (x : lru * Z * op * out) : bool :=
  match x with (_, _, Get _, OGet (Some _)) => true | _ => false end.
Definition is_miss (x : lru * Z * op * out) : bool :=
  match x with (_, _, Get _, OGet None) => true | _ => false end.
(* an inserting Put that found the cache full *)
Definition is_evict (x : lru * Z * op * out) : bool :=
  match x with
  | (s, _, Put k _, _) => match lookup k (items s) with
                          | None => Z.of_nat (length (items s)) >=? cap s
                          | Some _ => false end
  | _ => false end.

Definition count (f : lru * Z * op * out -> bool) l := N.of_nat (length (filter f l)).

(* trace that also remembers the state each call found *)
Fixpoint strace_from (s : lru) (h : hist) : list (lru * Z * op * out) :=
  match h with
  | [] => []
  | (now, o) :: r => let '(s', x) := step s now o in (s, now, o, x) :: strace_from s' r
  end.

Definition StatsOk (s : lru) (tr_rev : list (lru * Z * op * out)) : Prop :=
  hits s = count is_hit (since_clear_rev tr_rev) /\
  misses s = count is_miss (since_clear_rev tr_rev) /\
  evictions s = count is_evict (since_clear_rev tr_rev).

Lemma count_cons_true f x l : f x = true -> count f (x :: l) = N.succ (count f l).
Proof. intros H. unfold count. simpl. rewrite H. simpl length. lia. Qed.
Lemma count_cons_false f x l : f x = false -> count f (x :: l) = count f l.
Proof. intros H. unfold count. simpl. rewrite H. reflexivity. Qed.

Lemma step_stats s now o tr_rev :
  StatsOk s tr_rev -> StatsOk (fst (step s now o)) ((s, now, o, snd (step s now o)) :: tr_rev).
Proof.
  intros [H1 [H2 H3]]. unfold StatsOk.
  destruct o; unfold step; simpl since_clear_rev.
  - simpl. unfold get; simpl. destruct (lookup k (items s)) eqn:L; simpl.
    + destruct (expired K V (next_tick K V s) now e); simpl.
      * rewrite count_cons_false by reflexivity. rewrite count_cons_true by reflexivity.
        rewrite count_cons_false by reflexivity. rewrite H1, H2, H3. auto.
      * rewrite count_cons_true by reflexivity. rewrite count_cons_false by reflexivity.
        rewrite count_cons_false by reflexivity. rewrite H1, H2, H3. auto.
    + rewrite count_cons_false by reflexivity. rewrite count_cons_true by reflexivity.
      rewrite count_cons_false by reflexivity. rewrite H1, H2, H3. auto.
  - simpl. unfold put; simpl. destruct (lookup k (items s)) eqn:L; simpl.
    + rewrite !count_cons_false; auto. simpl. rewrite L. reflexivity.
    + destruct (Z.of_nat (S (length (items s))) >? cap s) eqn:G; simpl.
      * rewrite 2 count_cons_false by reflexivity. rewrite count_cons_true; [rewrite H1, H2, H3; auto|].
        simpl. rewrite L. apply Z.geb_le. apply Z.gtb_lt in G. lia.
      * rewrite !count_cons_false; auto. simpl. rewrite L.
        destruct (Z.of_nat (length (items s)) >=? cap s) eqn:G2; [|reflexivity].
        apply Z.geb_le in G2. rewrite Z.gtb_ltb in G. apply Z.ltb_ge in G. lia.
  - simpl. unfold delete; simpl. destruct (lookup k (items s)); simpl; rewrite !count_cons_false; auto.
  - simpl. unfold count. simpl. auto.
  - simpl. rewrite !count_cons_false; auto.
  - simpl. rewrite !count_cons_false; auto.
  - simpl. rewrite !count_cons_false; auto.
  - simpl. rewrite !count_cons_false; auto.
  - destruct (cleanup K V (next_tick K V s) now) as [s' n] eqn:E.
    destruct (cleanup_spec _ _ _ _ E) as [? [? [_ [_ [_ [_ [_ [C3 [C4 [C5 _]]]]]]]]]]. simpl in *.
    rewrite !count_cons_false; auto. rewrite C3, C4, C5. auto.
Qed.

Lemma reach_stats s h tr_rev :
  StatsOk s tr_rev -> StatsOk (reach_from s h) (rev (strace_from s h) ++ tr_rev).
Proof.
  revert s tr_rev. induction h as [|[now o] r IH]; intros s tr_rev H; simpl; [exact H|].
  pose proof (step_stats s now o tr_rev H) as H'.
  destruct (step s now o) as [s' x] eqn:E. simpl in *.
  specialize (IH _ _ H'). rewrite <- app_assoc. exact IH.
Qed.

Lemma stats_exact c t t0 h :
  let s := reach c t t0 h in
  let ev := since_clear_rev (rev (strace_from (new K V c t) h)) in
  hits s = count is_hit ev /\ misses s = count is_miss ev /\ evictions s = count is_evict ev /\
  snd (step s 0 Stats) = OStats (hits s) (misses s) (evictions s) (Z.of_nat (length (items s))) (cap s).
Proof.
  intros s ev.
  assert (S0 : StatsOk (new K V c t) []) by (unfold StatsOk, count; simpl; auto).
  pose proof (reach_stats _ h [] S0) as H. rewrite app_nil_r in H.
  destruct H as [H1 [H2 H3]]. repeat split; auto.
Qed.


(* ---------- a sweep never takes a live entry: the one-at-a-time explanation of "sweep while re-storing" ----------
   A key that is absent (never stored, deleted, or dropped by the miss that found it expired) is stored at t1; a sweep may
   run afterwards (at t2), or not at all - the two places the sweep can take in a one-at-a-time order of
   {lookup-miss; store} and {sweep} that matter; a lookup at t3, within the lifetime counted from t1, finds the value. *)
Lemma removelast_cons_keep {A} (x : A) (l : list A) : l <> [] -> removelast (x :: l) = x :: removelast l.
Proof. destruct l; [congruence | reflexivity]. Qed.

Lemma fresh_entry_survives_sweep s last t1 t2 t3 k v (sweep : bool) :
  Inv s last -> t1 <= t2 -> t2 <= t3 ->
  lookup k (items s) = None ->
  (ttl s <= 0 \/ t3 - t1 <= ttl s) ->
  let s1 := fst (step s t1 (Put k v)) in
  let s2 := if sweep then fst (step s1 t2 Cleanup) else s1 in
  snd (step s2 t3 (Get k)) = OGet (Some v).
Proof.
  intros I H12 H23 L T.
  (* the store puts a fresh entry at the front *)
  assert (P : exists rest, items (fst (step s t1 (Put k v))) =
                {| e_key := k; e_val := v; e_created := t1; e_stored := t1; e_touch := S (tick s) |} :: rest /\
                ttl (fst (step s t1 (Put k v))) = ttl s).
  { unfold step, put. cbn [fst next_tick items ttl tick cap]. rewrite L.
    destruct (Z.of_nat (length (_ :: items s)) >? cap s) eqn:C.
    - cbn [bump_evict with_items items ttl]. unfold evict_oldest.
      destruct (items s) as [|e0 r0] eqn:E.
      + exfalso. pose proof (inv_cap _ _ I). cbn [length] in C. change (Z.of_nat 1) with 1 in C. lia.
      + rewrite removelast_cons_keep by discriminate. eexists. split; reflexivity.
    - cbn [with_items items ttl]. eexists. split; reflexivity. }
  destruct P as [rest [P1 P2]].
  set (e' := {| e_key := k; e_val := v; e_created := t1; e_stored := t1; e_touch := S (tick s) |}) in *.
  (* a sweep leaves it where it is *)
  assert (Q : exists rest', items (if sweep then fst (step (fst (step s t1 (Put k v))) t2 Cleanup) else fst (step s t1 (Put k v))) = e' :: rest' /\
                            ttl (if sweep then fst (step (fst (step s t1 (Put k v))) t2 Cleanup) else fst (step s t1 (Put k v))) = ttl s).
  { remember (fst (step s t1 (Put k v))) as s1 eqn:Es1.
    destruct sweep; [|exists rest; auto].
    unfold step.
    destruct (cleanup K V (next_tick K V s1) t2) as [s' n] eqn:E. cbn [fst].
    destruct (cleanup_spec _ _ _ _ E) as [kept [dropped [A [B [_ [_ [TT [_ [_ [_ [_ D]]]]]]]]]]].
    cbn [next_tick items ttl] in A, TT, D. rewrite P1 in A. rewrite P2 in TT, D.
    destruct kept as [|x kept'].
    - exfalso. simpl in A. subst dropped. inversion D as [|? ? [D1 D2] _]; subst. cbn [e_created e'] in D2. lia.
    - simpl in A. inversion A; subst. exists kept'. rewrite B. auto. }
  destruct Q as [rest' [Q1 Q2]].
  cbv zeta.
  set (s2 := if sweep then fst (step (fst (step s t1 (Put k v))) t2 Cleanup) else fst (step s t1 (Put k v))) in *.
  unfold step, get. cbn [next_tick items]. rewrite Q1. cbn [lookup e_key e']. rewrite keqb_refl.
  unfold expired. cbn [ttl next_tick e_created e']. rewrite Q2.
  destruct ((ttl s >? 0) && (t3 - t1 >? ttl s)) eqn:X.
  - exfalso. apply andb_prop in X. destruct X as [X1 X2]. rewrite Z.gtb_ltb, Z.ltb_lt in X1, X2. lia.
  - reflexivity.
Qed.

(* the lookup that found the key absent or expired leaves it absent *)
Lemma miss_leaves_absent s last now k :
  Inv s last -> snd (step s now (Get k)) = OGet None -> lookup k (items (fst (step s now (Get k)))) = None.
Proof.
  intros I. unfold step, get. cbn [next_tick items].
  destruct (lookup k (items s)) as [e|] eqn:L.
  - destruct (expired K V (next_tick K V s) now e); cbn [fst snd]; [|discriminate]. intros _.
    cbn [bump_miss with_items items]. apply lookup_none. apply remove_keys_notin. exact (inv_nodup _ _ I).
  - cbn [fst snd bump_miss items]. intros _. exact L.
Qed.


Lemma fresh_survives_reachable c t t0 h t1 t2 t3 k v (sweep : bool) :
  mono_from t0 h ->
  let s := reach c t t0 h in
  t1 <= t2 -> t2 <= t3 -> lookup k (items s) = None -> (ttl s <= 0 \/ t3 - t1 <= ttl s) ->
  let s1 := fst (step s t1 (Put k v)) in
  let s2 := if sweep then fst (step s1 t2 Cleanup) else s1 in
  snd (step s2 t3 (Get k)) = OGet (Some v).
Proof.
  intros M s H12 H23 L T.
  pose proof (reach_inv _ _ _ (inv_new c t t0) M) as I. fold (reach c t t0 h) in I.
  exact (fresh_entry_survives_sweep _ _ t1 t2 t3 k v sweep I H12 H23 L T).
Qed.

Lemma miss_leaves_absent_reachable c t t0 h now k :
  mono_from t0 h ->
  let s := reach c t t0 h in
  snd (step s now (Get k)) = OGet None -> lookup k (items (fst (step s now (Get k)))) = None.
Proof.
  intros M s. pose proof (reach_inv _ _ _ (inv_new c t t0) M) as I. fold (reach c t t0 h) in I.
  exact (miss_leaves_absent _ _ now k I).
Qed.

End LruProofs.
