From Coq Require Import List ZArith NArith Bool Lia Floats Sorting.Sorted.
From WTF Require Import Model.Validate Model.Text Model.Engine Model.Cli Proofs.ValidateProofs Proofs.EngineProofs.
Import ListNotations.

(* no two different flags of a merged set share a shorthand *)
Definition no_clash (l : list flag) : Prop :=
  forall i j f g, (i < j)%nat -> nth_error l i = Some f -> nth_error l j = Some g ->
    f_short f <> [] -> f_short f = f_short g -> f_name f = f_name g.

Lemma shorthands_ok_sound l : shorthands_ok l = true -> no_clash l.
Proof.
  induction l as [|x r IH]; intros H i j f g Lt Ni Nj NE Eq; [destruct i; discriminate|].
  simpl in H. apply andb_true_iff in H. destruct H as [H H3]. apply andb_true_iff in H. destruct H as [_ H2].
  destruct i as [|i]; simpl in Ni.
  - inversion Ni; subst x. destruct j as [|j]; [lia|]. simpl in Nj. apply nth_error_In in Nj.
    rewrite forallb_forall in H2. specialize (H2 g Nj).
    destruct (f_short f) as [|b s] eqn:S; [congruence|].
    apply orb_true_iff in H2. destruct H2 as [H2|H2].
    + apply negb_true_iff in H2. rewrite <- Eq in H2. exfalso. revert H2. clear.
      change ((b =? b)%N && bytes_eqb s s) with (bytes_eqb (b :: s) (b :: s)).
      induction (b :: s) as [|y l IHl]; simpl; [discriminate | rewrite N.eqb_refl; exact IHl].
    + apply bytes_eqb_eq in H2. exact H2.
  - destruct j as [|j]; [lia|]. simpl in Nj. eapply (IH H3 i j); eauto. lia.
Qed.

Lemma flags_ok_sound tree : flags_ok tree = true -> forall c, In c tree -> no_clash (merged tree c).
Proof. intros H c I. unfold flags_ok in H. rewrite forallb_forall in H. apply shorthands_ok_sound. apply H. exact I. Qed.

(* printed results: never more than the limit in force, given that the engine respects it (C01) *)
Lemma cli_results_bounded {R} limit (engine recovery : list R) :
  (length engine <= Z.to_nat limit)%nat -> (length (cli_results R limit engine recovery) <= Z.to_nat limit)%nat.
Proof. intros H. unfold cli_results. destruct engine; [rewrite firstn_length; lia | exact H]. Qed.

(* a non-empty engine answer is printed as is *)
Lemma cli_results_engine {R} limit (engine recovery : list R) : engine <> [] -> cli_results R limit engine recovery = engine.
Proof. intros H. unfold cli_results. destruct engine; congruence. Qed.

(* the CLI re-sorts with a stable sort before printing: on a ranked list that is the identity *)
Lemma sort_sorted_id {A} (key : A -> float) l : Sorted (desc_adj key) l -> sort_desc key l = l.
Proof.
  induction l as [|x r IH]; intros S; [reflexivity|]. inversion S as [|? ? S' H]; subst.
  simpl. rewrite IH by exact S'. destruct r as [|y r']; [reflexivity|]. simpl.
  inversion H; subst. unfold desc_adj in *. match goal with Hx : PrimFloat.ltb _ _ = false |- _ => rewrite Hx end. reflexivity.
Qed.
