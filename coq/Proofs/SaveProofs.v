From Coq Require Import List NArith ZArith Bool Lia ZifyBool Floats.
From WTF Require Import Model.Validate Model.Text Model.Platform Model.Engine Model.Save
                        Proofs.ValidateProofs Proofs.EngineProofs Proofs.CandidateProofs.
Import ListNotations.

Definition other (e : nentry) (x : nentry) : bool := negb (bytes_eqb (n_cmd x) (n_cmd e)).

(* the saved entry is in the notebook afterwards, exactly as given *)
Lemma save_present book e : In e (save_entry book e).
Proof. induction book as [|x r IH]; simpl; [left; reflexivity|]. destruct (bytes_eqb (n_cmd x) (n_cmd e)); [left; reflexivity | right; exact IH]. Qed.

(* every earlier entry with a different command string is still there, unchanged, in its original position
   relative to the others *)
Lemma save_preserves_others book e : filter (other e) (save_entry book e) = filter (other e) book.
Proof.
  assert (Oe : other e e = false) by (unfold other; rewrite beq_refl; reflexivity).
  induction book as [|x r IH]; simpl; [rewrite Oe; reflexivity|].
  destruct (bytes_eqb (n_cmd x) (n_cmd e)) eqn:Q; simpl.
  - assert (Ox : other e x = false) by (unfold other; rewrite Q; reflexivity). rewrite Oe, Ox. reflexivity.
  - assert (Ox : other e x = true) by (unfold other; rewrite Q; reflexivity). rewrite Ox, IH. reflexivity.
Qed.

(* saving an existing command string replaces that entry in place; a new one is appended *)
Lemma save_replaces book e :
  (existsb (fun x => bytes_eqb (n_cmd x) (n_cmd e)) book = true -> length (save_entry book e) = length book) /\
  (existsb (fun x => bytes_eqb (n_cmd x) (n_cmd e)) book = false -> save_entry book e = book ++ [e]).
Proof.
  induction book as [|x r [IH1 IH2]]; simpl; [split; [discriminate | reflexivity]|].
  destruct (bytes_eqb (n_cmd x) (n_cmd e)) eqn:Q; simpl; split; intros H; try discriminate; try reflexivity.
  - rewrite IH1 by exact H. reflexivity.
  - rewrite IH2 by exact H. reflexivity.
Qed.

Lemma save_cmds book e : forall c, In c (map n_cmd (save_entry book e)) -> c = n_cmd e \/ In c (map n_cmd book).
Proof.
  induction book as [|x r IH]; simpl; intros c.
  - intros [H|[]]. left. symmetry. exact H.
  - destruct (bytes_eqb (n_cmd x) (n_cmd e)); simpl; intros [H|H]; auto.
    destruct (IH c H); auto.
Qed.

(* ... so a notebook without duplicate command strings stays one *)
Lemma save_nodup book e : NoDup (map n_cmd book) -> NoDup (map n_cmd (save_entry book e)).
Proof.
  induction book as [|x r IH]; simpl; intros ND; [constructor; [intros [] | constructor]|].
  inversion ND as [|? ? NI ND']; subst.
  destruct (bytes_eqb (n_cmd x) (n_cmd e)) eqn:Q; simpl.
  - apply bytes_eqb_eq in Q. rewrite <- Q. constructor; assumption.
  - constructor; [|apply IH; exact ND']. intros I. apply save_cmds in I. destruct I as [I|I]; [|contradiction].
    rewrite I, beq_refl in Q. discriminate.
Qed.

(* a saved command is found by the next search for one of its words: the word is indexed for it, so it is a
   candidate of any search whose selected terms contain the word *)
Lemma word_is_indexed E c t : In t (cmd_tokens E c) -> tf_any (doc_tf E c t) = true.
Proof.
  intros I. unfold tf_any, doc_tf. cbn [tf_cmd tf_desc tf_keys tf_tags].
  assert (G : (count_tok t (cmd_tokens E c) >? 0)%Z = true).
  { unfold count_tok.
    assert (H : In t (filter (bytes_eqb t) (cmd_tokens E c))) by (apply filter_In; split; [exact I | apply beq_refl]).
    destruct (filter (bytes_eqb t) (cmd_tokens E c)); [destruct H|]. cbn [length]. lia. }
  rewrite G. reflexivity.
Qed.

Lemma saved_is_candidate E cmds o terms c t :
  eligible E o c = true -> In t terms -> In t (cmd_tokens E c) ->
  PrimFloat.ltb (e_idf E (Z.of_nat (length cmds)) (df E cmds t)) (p_min_idf (e_params E)) = false ->
  candidate E cmds o terms c = true.
Proof.
  intros El It Ic Idf. unfold candidate. rewrite El. simpl. apply existsb_exists. exists t. split; [exact It|].
  unfold term_hits. rewrite (word_is_indexed E c t Ic), Idf. reflexivity.
Qed.
