(* Proofs about Model/Embedding.v for C19. *)
From Coq Require Import List NArith ZArith Bool Lia ZifyBool ZifyN ZifyNat Floats Sorting.Sorted Sorting.Permutation.
From WTF Require Import Model.Validate Model.Text Model.Engine Model.Embedding Proofs.EngineProofs.
Import ListNotations.
Open Scope N_scope.

Local Arguments N.mul : simpl never.
Local Arguments N.add : simpl never.
Local Arguments N.sub : simpl never.
Local Arguments N.div : simpl never.
Local Arguments N.ltb : simpl never.
Local Arguments N.eqb : simpl never.
Local Arguments N.of_nat : simpl never.
Local Arguments N.to_nat : simpl never.

Definition is_fuel {A} (p : pres A) : bool := match p with PErr PFuel => true | _ => false end.
Definition byte_ok (bs : bytes) : Prop := Forall (fun b => b < 256) bs.

Lemma skipn_len {A} (l : list A) n : length (skipn n l) = (length l - n)%nat.
Proof. apply skipn_length. Qed.

Lemma u16_bound b0 b1 : b0 < 256 -> b1 < 256 -> u16 b0 b1 <= 65535.
Proof. unfold u16. lia. Qed.

(* ---------- the loaders are total: they return vectors or an error, they never run out of fuel ---------- *)

Lemma wv_entries_total fuel : forall count bs acc alloc,
  (length bs < fuel)%nat -> is_fuel (fst (wv_entries fuel count bs acc alloc)) = false.
Proof.
  induction fuel as [|fuel IH]; intros count bs acc alloc H; [lia|].
  cbn [wv_entries]. destruct (count =? 0) eqn:C; [reflexivity|].
  destruct bs as [|b0 [|b1 r]]; try reflexivity.
  destruct (nlen r <? u16 b0 b1) eqn:L1; [reflexivity|].
  destruct (nlen (skipn (N.to_nat (u16 b0 b1)) r) <? 4 * dim) eqn:L2; [reflexivity|].
  apply IH. rewrite !skipn_len. simpl in H. lia.
Qed.

Lemma wv_total file : is_fuel (fst (load_word_vectors file)) = false.
Proof.
  unfold load_word_vectors. destruct file as [|b0 [|b1 [|b2 [|b3 r]]]]; try reflexivity.
  destruct (nlen r / (2 + 4 * dim) <? u32 b0 b1 b2 b3); [reflexivity|]. apply wv_entries_total. lia.
Qed.

Lemma ce_entries_total fuel : forall count bs acc alloc,
  (length bs < fuel)%nat -> is_fuel (fst (ce_entries fuel count bs acc alloc)) = false.
Proof.
  induction fuel as [|fuel IH]; intros count bs acc alloc H; [lia|].
  cbn [ce_entries]. destruct (count =? 0) eqn:C; [reflexivity|].
  destruct (nlen bs <? 4 * dim) eqn:L; [reflexivity|].
  apply IH. rewrite skipn_len. unfold nlen, dim in *. lia.
Qed.

Lemma ce_total file : is_fuel (fst (load_command_embeddings file)) = false.
Proof.
  unfold load_command_embeddings. destruct file as [|b0 [|b1 [|b2 [|b3 [|c0 [|c1 [|c2 [|c3 r]]]]]]]]; try reflexivity.
  destruct (negb (u32 c0 c1 c2 c3 =? dim)); [reflexivity|].
  destruct (nlen r / (4 * dim) <? u32 b0 b1 b2 b3); [reflexivity|]. apply ce_entries_total. lia.
Qed.

(* ---------- memory requested is proportional to the file ---------- *)

Lemma forall_skipn {A} (P : A -> Prop) n l : Forall P l -> Forall P (skipn n l).
Proof. revert n. induction l as [|x l IH]; intros [|n] F; simpl; auto. inversion F; auto. Qed.

Lemma wv_entries_alloc fuel : forall count bs acc alloc, byte_ok bs ->
  snd (wv_entries fuel count bs acc alloc) <= alloc + nlen bs + 65535 + 4 * dim.
Proof.
  induction fuel as [|fuel IH]; intros count bs acc alloc B; cbn [wv_entries].
  - destruct (count =? 0); cbn [snd]; lia.
  - destruct (count =? 0); [cbn [snd]; lia|].
    destruct bs as [|b0 [|b1 r]]; try (cbn [snd]; lia).
    inversion B as [|? ? B0 B']; subst. inversion B' as [|? ? B1 Br]; subst.
    pose proof (u16_bound b0 b1 B0 B1) as U.
    destruct (nlen r <? u16 b0 b1) eqn:L1; [cbn [snd]; lia|].
    destruct (nlen (skipn (N.to_nat (u16 b0 b1)) r) <? 4 * dim) eqn:L2; [cbn [snd]; lia|].
    eapply N.le_trans; [apply IH; repeat apply forall_skipn; exact Br|].
    unfold nlen in *. rewrite !skipn_len in *. cbn [length]. unfold dim in *. lia.
Qed.

Lemma wv_alloc file : byte_ok file -> snd (load_word_vectors file) <= 2 * nlen file + 65535 + 4 * dim.
Proof.
  intros B. unfold load_word_vectors. destruct file as [|b0 [|b1 [|b2 [|b3 r]]]]; try (cbn [snd]; lia).
  destruct (nlen r / (2 + 4 * dim) <? u32 b0 b1 b2 b3) eqn:C; [cbn [snd]; lia|].
  assert (Br : byte_ok r) by (do 4 (inversion B as [|? ? _ B']; subst; clear B; rename B' into B); exact B).
  eapply N.le_trans; [apply wv_entries_alloc; exact Br|].
  unfold nlen, map_entry_cost, dim in *. cbn [length].
  assert (u32 b0 b1 b2 b3 <= N.of_nat (length r) / 402) by lia.
  assert (402 * (N.of_nat (length r) / 402) <= N.of_nat (length r)) by (apply N.mul_div_le; lia). lia.
Qed.

Lemma ce_entries_alloc fuel : forall count bs acc alloc,
  snd (ce_entries fuel count bs acc alloc) <= alloc + nlen bs + 4 * dim.
Proof.
  induction fuel as [|fuel IH]; intros count bs acc alloc; cbn [ce_entries].
  - destruct (count =? 0); cbn [snd]; lia.
  - destruct (count =? 0); [cbn [snd]; lia|].
    destruct (nlen bs <? 4 * dim) eqn:L; [cbn [snd]; lia|].
    eapply N.le_trans; [apply IH|]. unfold nlen, dim in *. rewrite skipn_len. lia.
Qed.

Lemma ce_alloc file : snd (load_command_embeddings file) <= 2 * nlen file + 4 * dim.
Proof.
  unfold load_command_embeddings. destruct file as [|b0 [|b1 [|b2 [|b3 [|c0 [|c1 [|c2 [|c3 r]]]]]]]]; try (cbn [snd]; lia).
  destruct (negb (u32 c0 c1 c2 c3 =? dim)); [cbn [snd]; lia|].
  destruct (nlen r / (4 * dim) <? u32 b0 b1 b2 b3) eqn:C; [cbn [snd]; lia|].
  eapply N.le_trans; [apply ce_entries_alloc|]. unfold nlen, slice_header_cost, dim in *. cbn [length].
  assert (u32 b0 b1 b2 b3 <= N.of_nat (length r) / 400) by lia.
  assert (400 * (N.of_nat (length r) / 400) <= N.of_nat (length r)) by (apply N.mul_div_le; lia). lia.
Qed.

(* ---------- cosine ---------- *)

Lemma SFmul_comm prec emax x y : SpecFloat.SFmul prec emax x y = SpecFloat.SFmul prec emax y x.
Proof.
  destruct x as [sx|sx| |sx mx ex], y as [sy|sy| |sy my ey]; simpl; try reflexivity; try (rewrite xorb_comm; reflexivity).
  rewrite xorb_comm, Pos.mul_comm, Z.add_comm. reflexivity.
Qed.

Lemma mul_comm (x y : float) : (x * y = y * x)%float.
Proof. apply FloatAxioms.Prim2SF_inj. rewrite !FloatAxioms.mul_spec. apply SFmul_comm. Qed.

Lemma cos_sums_swap a b : forall d na nb,
  fold_left (fun acc xy => let '(d, na, nb) := acc in let '(x, y) := xy in (d + x * y, na + x * x, nb + y * y)%float) (combine b a) (d, nb, na) =
  (let '(d', na', nb') := fold_left (fun acc xy => let '(d, na, nb) := acc in let '(x, y) := xy in (d + x * y, na + x * x, nb + y * y)%float) (combine a b) (d, na, nb) in
   (d', nb', na')).
Proof.
  revert b. induction a as [|x a IH]; intros [|y b] d na nb; try reflexivity.
  simpl. rewrite (mul_comm y x). apply IH.
Qed.

(* cosine similarity is symmetric, bit for bit *)
Lemma cosine_symmetric a b : cosine a b = cosine b a.
Proof.
  unfold cosine. rewrite (Nat.eqb_sym (length b) (length a)).
  destruct (Nat.eqb (length a) (length b)) eqn:L; [|reflexivity].
  apply Nat.eqb_eq in L. rewrite <- L. destruct (Nat.eqb (length a) 0); [reflexivity|]. cbn [negb orb].
  unfold cos_sums. pose proof (cos_sums_swap a b 0%float 0%float 0%float) as S. rewrite S.
  destruct (fold_left _ (combine a b) (0%float, 0%float, 0%float)) as [[d na] nb].
  rewrite (orb_comm (PrimFloat.eqb nb 0) (PrimFloat.eqb na 0)). rewrite (mul_comm (PrimFloat.sqrt nb) (PrimFloat.sqrt na)). reflexivity.
Qed.

(* 0 for empty or mismatched vectors *)
Lemma cosine_zero_cases a b : length a <> length b \/ a = [] -> cosine a b = 0%float.
Proof.
  intros [H|H]; unfold cosine.
  - apply Nat.eqb_neq in H. rewrite H. reflexivity.
  - subst a. cbn [length]. rewrite orb_true_r. reflexivity.
Qed.

(* a comparable value that is not above 1 is at most 1 (and dually): from the specification of binary64 comparison *)
Lemma not_nan_sf s : PrimFloat.classify s <> NaN -> FloatOps.Prim2SF s <> SpecFloat.S754_nan.
Proof.
  intros H E. apply H. rewrite FloatAxioms.classify_spec, E. reflexivity.
Qed.

Lemma sf_nan_one : FloatOps.Prim2SF 1 <> SpecFloat.S754_nan.
Proof. vm_compute. discriminate. Qed.
Lemma sf_nan_mone : FloatOps.Prim2SF (-1) <> SpecFloat.S754_nan.
Proof. vm_compute. discriminate. Qed.

Lemma compare_some a b : a <> SpecFloat.S754_nan -> b <> SpecFloat.S754_nan -> exists c, SpecFloat.SFcompare a b = Some c.
Proof. destruct a, b; simpl; intros; try congruence; eauto. Qed.

Lemma not_lt_le x y : FloatOps.Prim2SF x <> SpecFloat.S754_nan -> FloatOps.Prim2SF y <> SpecFloat.S754_nan ->
  PrimFloat.ltb x y = false -> PrimFloat.leb y x = true.
Proof.
  intros Nx Ny. rewrite FloatAxioms.ltb_spec, FloatAxioms.leb_spec. unfold SpecFloat.SFltb, SpecFloat.SFleb.
  rewrite (SFcompare_antisym (FloatOps.Prim2SF x) (FloatOps.Prim2SF y)).
  destruct (compare_some _ _ Nx Ny) as [c E]. rewrite E. destruct c; simpl; congruence.
Qed.

(* between -1 and 1, whatever the vectors hold *)
Lemma clamp_range s : PrimFloat.leb (-1) (clamp_unit s) = true /\ PrimFloat.leb (clamp_unit s) 1 = true.
Proof.
  unfold clamp_unit. destruct (PrimFloat.classify s) eqn:C;
    try (destruct (PrimFloat.ltb 1 s) eqn:A; [split; reflexivity|];
         destruct (PrimFloat.ltb s (-1)) eqn:B; [split; reflexivity|];
         assert (N : FloatOps.Prim2SF s <> SpecFloat.S754_nan) by (apply not_nan_sf; rewrite C; discriminate);
         split; [apply not_lt_le; [exact N | exact sf_nan_mone | exact B] | apply not_lt_le; [exact sf_nan_one | exact N | exact A]]).
  split; reflexivity.
Qed.

Lemma cosine_range a b : PrimFloat.leb (-1) (cosine a b) = true /\ PrimFloat.leb (cosine a b) 1 = true.
Proof.
  unfold cosine. destruct (negb (Nat.eqb (length a) (length b)) || Nat.eqb (length a) 0); [split; reflexivity|].
  destruct (cos_sums a b) as [[d na] nb]. destruct (PrimFloat.eqb na 0 || PrimFloat.eqb nb 0); [split; reflexivity|].
  apply clamp_range.
Qed.

(* ---------- the semantic stage ---------- *)

Lemma stage_none rs : semantic_stage None rs = rs.
Proof. reflexivity. Qed.

Lemma stage_ids sims rs : Permutation (map fst (semantic_stage sims rs)) (map fst rs).
Proof.
  destruct sims as [sv|]; [|reflexivity]. unfold semantic_stage. rewrite sort_ids. rewrite map_fst_same; [reflexivity|].
  intros [i s]. destruct (nth_error sv i); [destruct (PrimFloat.leb semantic_min f)|]; reflexivity.
Qed.

Lemma stage_sorted sv rs : Sorted (desc_adj by_score) (semantic_stage (Some sv) rs).
Proof. unfold semantic_stage. apply sort_sorted. Qed.
