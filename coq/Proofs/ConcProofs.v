From Coq Require Import List String ZArith NArith Bool Lia.
From WTF Require Import Model.Lru Model.Conc.
Import ListNotations.
Close Scope string_scope.

(* under the discipline, two conflicting accesses of the call set never overlap: one of them holds the lock
   exclusively while the other holds it at all, or both are atomic, or the write sits in the dead lazy-rebuild branch *)
Definition race_free (a b : access) : Prop :=
  same_field a b = true -> (a_write a || a_write b) = true ->
  excludes (a_mode a) (a_mode b) = true \/ (a_mode a = MAtomic /\ a_mode b = MAtomic) \/ guarded_dead a = true \/ guarded_dead b = true.

Lemma mode_eqb_eq x y : mode_eqb x y = true -> x = y.
Proof. destruct x, y; simpl; congruence. Qed.

Lemma well_locked_no_race t : well_locked t = true ->
  forall a b, In a t -> In b t -> in_callset a = true -> in_callset b = true -> race_free a b.
Proof.
  unfold well_locked. intros H a b Ia Ib Ca Cb SF W.
  rewrite forallb_forall in H. assert (Fa : In a (filter in_callset t)) by (apply filter_In; auto).
  assert (Fb : In b (filter in_callset t)) by (apply filter_In; auto).
  specialize (H a Fa). rewrite forallb_forall in H. specialize (H b Fb).
  unfold compatible in H. rewrite SF, W in H. simpl in H.
  apply orb_true_iff in H. destruct H as [H|H]; [|auto].
  apply orb_true_iff in H. destruct H as [H|H]; [|auto].
  apply orb_true_iff in H. destruct H as [H|H]; [auto|].
  apply andb_true_iff in H. destruct H as [H1 H2]. right. left. split; apply mode_eqb_eq; assumption.
Qed.

Section Lin.
Variables S Op Res : Type.
Variable step : S -> Op -> S * Res.
Variable res_eqb : Res -> Res -> bool.
Notation mstate := (mstate S Op Res).
Notation mrun := (mrun S Op Res step res_eqb).
Notation mstep := (mstep S Op Res step res_eqb).

Definition ops_of (l : list (nat * Op * Res)) : list Op := map (fun x => snd (fst x)) l.
Definition ress_of (l : list (nat * Op * Res)) : list Res := map snd l.

Lemma seq_run_app s a b :
  seq_run S Op Res step s (a ++ b) =
  let '(s1, r1) := seq_run S Op Res step s a in let '(s2, r2) := seq_run S Op Res step s1 b in (s2, r1 ++ r2).
Proof.
  revert s. induction a as [|o a IH]; intros s; simpl.
  - destruct (seq_run S Op Res step s b). reflexivity.
  - destruct (step s o) as [s1 x]. rewrite IH. destruct (seq_run S Op Res step s1 a) as [s2 xs].
    destruct (seq_run S Op Res step s2 b) as [s3 ys]. reflexivity.
Qed.

(* invariant: the shared state is the result of running the linearized operations sequentially, with the recorded results *)
Definition Coherent (s0 : S) (m : mstate) : Prop :=
  seq_run S Op Res step s0 (ops_of (m_lin S Op Res m)) = (m_shared S Op Res m, ress_of (m_lin S Op Res m)).

Lemma mstep_coherent s0 m e m' : Coherent s0 m -> mstep m e = Some m' -> Coherent s0 m'.
Proof.
  unfold Coherent. intros C H. destruct e as [t o|t|t r]; simpl in H.
  - destruct (m_phase S Op Res m t); inversion H; subst; simpl; exact C.
  - destruct (m_phase S Op Res m t) as [|o|o r]; try discriminate.
    destruct (step (m_shared S Op Res m) o) as [s' r] eqn:E. inversion H; subst. simpl.
    unfold ops_of, ress_of in *. rewrite !map_app, seq_run_app, C. simpl. rewrite E. reflexivity.
  - destruct (m_phase S Op Res m t) as [|o|o r']; try discriminate.
    destruct (res_eqb r r'); inversion H; subst; simpl; exact C.
Qed.

(* every concurrent execution has a linearization - the order of its body steps - that is a run of the sequential
   object and yields exactly the results the calls returned *)
Lemma mutex_linearizable s0 es m : mrun (minit S Op Res s0) es = Some m -> Coherent s0 m.
Proof.
  assert (G : forall m0, Coherent s0 m0 -> mrun m0 es = Some m -> Coherent s0 m).
  { induction es as [|e r IH]; intros m0 C H; simpl in H; [inversion H; subst; exact C|].
    destruct (mstep m0 e) as [m1|] eqn:E; [|discriminate]. eapply IH; [eapply mstep_coherent; eauto | exact H]. }
  apply G. unfold Coherent. reflexivity.
Qed.

(* a response is only ever given for a call whose body has already run: the linearization point lies between
   invocation and response, so the linearization respects real-time order *)
Lemma ret_after_body m t r m' : mstep m (ERet Op Res t r) = Some m' -> exists o r', m_phase S Op Res m t = Finished Op Res o r' /\ res_eqb r r' = true.
Proof.
  simpl. destruct (m_phase S Op Res m t) as [|o|o r']; try discriminate.
  destruct (res_eqb r r') eqn:E; [|discriminate]. intros _. eauto.
Qed.

Lemma body_after_inv m t m' : mstep m (EBody Op Res t) = Some m' -> exists o, m_phase S Op Res m t = Invoked Op Res o.
Proof. simpl. destruct (m_phase S Op Res m t) as [|o|o r']; try discriminate. eauto. Qed.

(* threads that only read an unchanging state each compute the function of that state, whatever the interleaving *)
Lemma readers_see_alone_result (f : S -> Op -> Res) s0 es m :
  (forall s o, step s o = (s, f s o)) -> mrun (minit S Op Res s0) es = Some m ->
  m_shared S Op Res m = s0 /\ Forall (fun x => snd x = f s0 (snd (fst x))) (m_lin S Op Res m).
Proof.
  intros RO.
  assert (G : forall m0, m_shared S Op Res m0 = s0 -> Forall (fun x => snd x = f s0 (snd (fst x))) (m_lin S Op Res m0) ->
              mrun m0 es = Some m -> m_shared S Op Res m = s0 /\ Forall (fun x => snd x = f s0 (snd (fst x))) (m_lin S Op Res m)).
  { induction es as [|e r IH]; intros m0 A B H; simpl in H; [inversion H; subst; auto|].
    destruct (mstep m0 e) as [m1|] eqn:E; [|discriminate]. apply (IH m1); [| |exact H].
    - destruct e as [t o|t|t x]; simpl in E.
      + destruct (m_phase S Op Res m0 t); inversion E; subst m1; exact A.
      + destruct (m_phase S Op Res m0 t) as [|o|o x]; try discriminate. rewrite RO in E. inversion E; subst m1. exact A.
      + destruct (m_phase S Op Res m0 t) as [|o|o x']; try discriminate. destruct (res_eqb x x'); inversion E; subst m1; exact A.
    - destruct e as [t o|t|t x]; simpl in E.
      + destruct (m_phase S Op Res m0 t); inversion E; subst m1; exact B.
      + destruct (m_phase S Op Res m0 t) as [|o|o x]; try discriminate. rewrite RO in E. inversion E; subst m1. simpl.
        apply Forall_app. split; [exact B|]. constructor; [simpl; rewrite A; reflexivity | constructor].
      + destruct (m_phase S Op Res m0 t) as [|o|o x']; try discriminate. destruct (res_eqb x x'); inversion E; subst m1; exact B. }
  apply G; simpl; auto.
Qed.
End Lin.
