(* Short corollaries of the main lemmas, kept out of Props/ so that the property files hold statements only. *)
From Coq Require Import List ZArith NArith Bool Floats Sorting.Permutation.
From WTF Require Import Model.Validate Model.Text Model.Platform Model.Engine Model.Index Model.Retry
                        Proofs.EngineProofs Proofs.CandidateProofs Proofs.IndexProofs.
Import ListNotations.

Lemma ranking_is_permutation : forall (l : list (nat * float)), Permutation (sort_desc by_score l) l.
Proof. intros l. apply sort_perm. Qed.

Lemma search_same_lower : forall E cmds q q' o nl,
  lower_ascii q = lower_ascii q' -> search_universal E cmds q o nl = search_universal E cmds q' o nl.
Proof. intros E cmds q q' o nl H. apply search_depends_on_tokens. apply tokenize_case. exact H. Qed.

Lemma engine_indexes_in_range : forall E cmds q o nl i s,
  In (i, s) (search_universal E cmds q o nl) -> (i < length cmds)%nat.
Proof.
  intros E cmds q o nl i s I. destruct (search_universal_spec E cmds q o nl) as [_ [_ H]].
  destruct (H i s I) as [c [D _]]. apply nth_error_Some. congruence.
Qed.

Lemma engine_bounded_for_any_limit : forall E cmds q o nl,
  (length (search_universal E cmds q o nl) <= Z.to_nat (limit_in_force o))%nat.
Proof. intros. destruct (search_universal_spec E cmds q o nl) as [_ [H _]]. exact H. Qed.

Lemma postings_in_range : forall E cmds t p, In p (lookup_post t (build_postings E cmds)) -> (p_doc p < length cmds)%nat.
Proof.
  intros E cmds t p I. rewrite lookup_build in I. unfold doc_postings in I. apply in_flat_map in I.
  destruct I as [[i c] [I1 I2]]. simpl in I2. destruct (tf_any (doc_tf E c t)); [|destruct I2].
  destruct I2 as [I2|[]]. subst p. simpl. apply enumerate_fst_lt in I1. exact I1.
Qed.

Lemma load_classifies : forall (A : Type) (l : list A),
  classify A (AOk l) = None /\ classify A ANotExist = Some ENotFound /\ classify A AParse = Some EParse.
Proof. intros. repeat split. Qed.
