(* The expanded term list (GetEnhancedKeywords as modelled in Model/Nlp.v) has no duplicates and begins with the keywords
   extracted from the user's own text, in the user's order, whatever the hints, actions, targets and intent words are. *)
From Coq Require Import List NArith Bool.
From WTF Require Import Model.Validate Model.Text Model.Nlp Proofs.CandidateProofs.
Import ListNotations.

Lemma remove_dups_in seen l x : In x (remove_dups seen l) <-> In x l /\ ~ In x seen.
Proof.
  revert seen; induction l as [|y r IH]; intros seen; simpl; [tauto|].
  destruct (mem_bytes y seen) eqn:M.
  - apply mem_bytes_iff in M. rewrite IH. split; [tauto|]. intros [[A|A] B]; [subst; contradiction | auto].
  - assert (N : ~ In y seen) by (intro X; apply mem_bytes_iff in X; congruence).
    simpl. rewrite IH. simpl. split.
    + intros [A|[A B]]; [subst; auto | split; [auto | intro; apply B; auto]].
    + intros [[A|A] B]; [auto|]. destruct (list_eq_dec N.eq_dec y x) as [E|E]; [auto|]. right. split; [auto|]. intros [X|X]; contradiction.
Qed.

Lemma remove_dups_nodup seen l : NoDup (remove_dups seen l).
Proof.
  revert seen; induction l as [|y r IH]; intros seen; simpl; [constructor|].
  destruct (mem_bytes y seen); [apply IH|]. constructor; [|apply IH].
  intro X. apply remove_dups_in in X. destruct X as [_ X]. apply X. simpl; auto.
Qed.

(* a duplicate-free prefix none of whose elements has been seen survives unchanged, in order *)
Lemma remove_dups_prefix k : forall seen rest, NoDup k -> (forall x, In x k -> ~ In x seen) ->
  remove_dups seen (k ++ rest) = k ++ remove_dups (rev k ++ seen) rest.
Proof.
  induction k as [|x k IH]; intros seen rest ND NS; simpl; [reflexivity|].
  inversion ND as [|? ? Nx ND']; subst.
  destruct (mem_bytes x seen) eqn:M; [apply mem_bytes_iff in M; exfalso; apply (NS x); simpl; auto|].
  f_equal. rewrite IH; [rewrite <- app_assoc; reflexivity | exact ND'|].
  intros y Hy [E|E]; [subst; contradiction | apply (NS y); simpl; auto].
Qed.

Lemma keywords_nodup T words ql : NoDup (a_keywords (process_query T words ql)).
Proof. unfold process_query. destruct (classify T words [] [] []) as [[a t] k]. simpl. apply remove_dups_nodup. Qed.

Lemma enhanced_nodup A : NoDup (enhanced_keywords A).
Proof. unfold enhanced_keywords. apply remove_dups_nodup. Qed.

Lemma enhanced_begins_with_keywords A : NoDup (a_keywords A) -> exists extra, enhanced_keywords A = a_keywords A ++ extra.
Proof.
  intros ND. unfold enhanced_keywords. cbv zeta.
  match goal with |- context [if ?b then _ else _] => destruct b end.
  - rewrite <- app_assoc. rewrite remove_dups_prefix; [eexists; reflexivity | exact ND | intros x _ []].
  - rewrite remove_dups_prefix; [eexists; reflexivity | exact ND | intros x _ []].
Qed.

(* for the analysis of any query: keywords first, in order, and no term twice *)
Lemma enhanced_spec T words ql :
  let A := process_query T words ql in
  NoDup (enhanced_keywords A) /\ exists extra, enhanced_keywords A = a_keywords A ++ extra.
Proof. intros A. split; [apply enhanced_nodup | apply enhanced_begins_with_keywords, keywords_nodup]. Qed.

(* every keyword is a word the user typed or the first synonym of one *)
Lemma classify_keywords T : forall words acts tgts kws a t k, classify T words acts tgts kws = (a, t, k) ->
  forall x, In x k -> In x kws \/ In x words \/ exists w s rest, In w words /\ lookup (t_synonyms T) w = Some (s :: rest) /\ x = s.
Proof.
  induction words as [|w r IH]; intros acts tgts kws a t k E x Hx; simpl in E.
  - injection E as _ _ <-. auto.
  - destruct (mem_bytes w (t_stop T)).
    + destruct (IH _ _ _ _ _ _ E x Hx) as [H|[H|[w' [s [rest [H1 [H2 H3]]]]]]]; [auto | right; left; simpl; auto | right; right; exists w', s, rest; simpl; auto].
    + destruct (lookup (t_actions T) w).
      * destruct (IH _ _ _ _ _ _ E x Hx) as [H|[H|[w' [s [rest [H1 [H2 H3]]]]]]]; [auto | right; left; simpl; auto | right; right; exists w', s, rest; simpl; auto].
      * destruct (lookup (t_targets T) w).
        -- destruct (IH _ _ _ _ _ _ E x Hx) as [H|[H|[w' [s [rest [H1 [H2 H3]]]]]]].
           ++ apply in_app_or in H. destruct H as [H|[<-|[]]]; [auto | right; left; simpl; auto].
           ++ right; left; simpl; auto.
           ++ right; right; exists w', s, rest; simpl; auto.
        -- destruct (lookup (t_synonyms T) w) as [[|s rest]|] eqn:L.
           ++ destruct (IH _ _ _ _ _ _ E x Hx) as [H|[H|[w' [s' [rest' [H1 [H2 H3]]]]]]].
              ** apply in_app_or in H. destruct H as [H|[<-|[]]]; [auto | right; left; simpl; auto].
              ** right; left; simpl; auto.
              ** right; right; exists w', s', rest'; simpl; auto.
           ++ destruct (IH _ _ _ _ _ _ E x Hx) as [H|[H|[w' [s' [rest' [H1 [H2 H3]]]]]]].
              ** apply in_app_or in H. destruct H as [H|[<-|[<-|[]]]]; [auto | right; left; simpl; auto | right; right; exists w, s, rest; simpl; auto].
              ** right; left; simpl; auto.
              ** right; right; exists w', s', rest'; simpl; auto.
           ++ destruct (IH _ _ _ _ _ _ E x Hx) as [H|[H|[w' [s' [rest' [H1 [H2 H3]]]]]]].
              ** apply in_app_or in H. destruct H as [H|[<-|[]]]; [auto | right; left; simpl; auto].
              ** right; left; simpl; auto.
              ** right; right; exists w', s', rest'; simpl; auto.
Qed.
