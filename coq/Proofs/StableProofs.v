(* The ranking sort is stable: entries none of which ranks strictly above another keep their input order. *)
From Coq Require Import List Bool Floats.
From WTF Require Import Model.Engine.
Import ListNotations.

Section Stable.
Context {A : Type} (key : A -> float).

Lemma insert_filter_out (p : A -> bool) x l : p x = false -> filter p (insert_desc key x l) = filter p l.
Proof.
  intros Px. induction l as [|y r IH]; simpl; [rewrite Px; reflexivity|].
  destruct (PrimFloat.ltb (key x) (key y)); simpl; [rewrite IH; reflexivity | rewrite Px; reflexivity].
Qed.

Lemma insert_filter_in (p : A -> bool) x l : p x = true ->
  (forall y, In y l -> p y = true -> PrimFloat.ltb (key x) (key y) = false) ->
  filter p (insert_desc key x l) = x :: filter p l.
Proof.
  intros Px. induction l as [|y r IH]; intros H; simpl; [rewrite Px; reflexivity|].
  destruct (PrimFloat.ltb (key x) (key y)) eqn:L; simpl.
  - destruct (p y) eqn:Py.
    + rewrite (H y (or_introl eq_refl) Py) in L. discriminate.
    + apply IH. intros z Hz. apply H. right; exact Hz.
  - rewrite Px. reflexivity.
Qed.

Lemma insert_desc_in y u l0 : In y (insert_desc key u l0) -> y = u \/ In y l0.
Proof. induction l0 as [|w l0 IHl]; simpl; [intuition|]. destruct (PrimFloat.ltb (key u) (key w)); simpl; intuition. Qed.

Lemma sort_desc_in y l : In y (sort_desc key l) -> In y l.
Proof.
  induction l as [|z t IHt]; simpl; [tauto|]. intros Hy. apply insert_desc_in in Hy. destruct Hy as [->|Hy]; [left; reflexivity | right; apply IHt; exact Hy].
Qed.

Lemma sort_stable (p : A -> bool) l :
  (forall x y, In x l -> In y l -> p x = true -> p y = true -> PrimFloat.ltb (key x) (key y) = false) ->
  filter p (sort_desc key l) = filter p l.
Proof.
  induction l as [|x r IH]; intros H; simpl; [reflexivity|].
  assert (IH' : filter p (sort_desc key r) = filter p r) by (apply IH; intros a b Ha Hb; apply H; right; assumption).
  destruct (p x) eqn:Px.
  - rewrite insert_filter_in; [rewrite IH'; reflexivity | exact Px|].
    intros y Hy Py. apply H; [left; reflexivity | right; apply sort_desc_in; exact Hy | exact Px | exact Py].
  - rewrite insert_filter_out; [exact IH' | exact Px].
Qed.
End Stable.
