(* Candidate sets of Model/Engine.v: which documents can be returned, independently of scores.
   Used by C03 (index = scan), C06 (NLP never drops a lexical match) and C13 (boosts only re-rank). *)
From Coq Require Import List ZArith NArith Bool Lia ZifyBool Floats Sorting.Sorted Sorting.Permutation.
From WTF Require Import Model.Validate Model.Text Model.Platform Model.Engine Proofs.ValidateProofs Proofs.EngineProofs.
Import ListNotations.

Local Arguments Z.of_nat : simpl never.
Local Arguments Z.to_nat : simpl never.

Section Cand.
Variable E : env.
Variable cmds : list command.

(* a term counts for a document when it occurs in one of its fields and its idf passes the floor *)
Definition term_hits (c : command) (t : bytes) : bool :=
  tf_any (doc_tf E c t) &&
  negb (PrimFloat.ltb (e_idf E (Z.of_nat (length cmds)) (df E cmds t)) (p_min_idf (e_params E))).

Definition candidate (o : options) (terms : list bytes) (c : command) : bool :=
  eligible E o c && existsb (term_hits c) terms.

Lemma doc_score_some av tb terms c :
  (exists s, doc_score E cmds av tb terms c = Some s) <-> existsb (term_hits c) terms = true.
Proof.
  unfold doc_score.
  assert (G : forall acc,
     (exists s, fold_left (fun acc t =>
        let tf := doc_tf E c t in
        if tf_any tf then
          let idf := e_idf E (Z.of_nat (length cmds)) (df E cmds t) in
          if PrimFloat.ltb idf (p_min_idf (e_params E)) then acc
          else let add := ((idf * boost_of tb t) * term_bm25f (e_params E) av (doc_lens E c) tf)%float in
               Some (match acc with Some s => s + add | None => 0 + add end)%float
        else acc) terms acc = Some s) <-> ((exists s, acc = Some s) \/ existsb (term_hits c) terms = true)).
  { induction terms as [|t r IH]; intros acc; simpl.
    - split; [intros H; left; exact H | intros [H|H]; [exact H | discriminate]].
    - rewrite IH. unfold term_hits at 2. destruct (tf_any (doc_tf E c t)); simpl; [|tauto].
      destruct (PrimFloat.ltb _ _); simpl; [tauto|]. split; intros _; [right; reflexivity | left; eauto]. }
  rewrite G. split; [intros [[s H]|H]; [discriminate | exact H] | intros H; right; exact H].
Qed.

(* the accumulator's documents are exactly the candidates, in document order: scores and boosts play no role *)
Lemma initial_ids o nl terms :
  map fst (initial_scores E cmds o nl terms) =
  map fst (filter (fun ic => candidate o terms (snd ic)) (enumerate 0 cmds)).
Proof.
  unfold initial_scores, candidate. induction (enumerate 0 cmds) as [|[i c] l IH]; [reflexivity|].
  cbn [flat_map filter snd]. rewrite map_app, IH. clear IH.
  destruct (eligible E o c); cbn [andb]; [|reflexivity].
  destruct (doc_score E cmds (avg_lens E cmds) (term_boosts o nl) terms c) as [s|] eqn:D.
  - assert (H : existsb (term_hits c) terms = true) by (apply (doc_score_some (avg_lens E cmds) (term_boosts o nl)); eauto).
    rewrite H. reflexivity.
  - destruct (existsb (term_hits c) terms) eqn:H; [|reflexivity].
    apply (doc_score_some (avg_lens E cmds) (term_boosts o nl)) in H. destruct H as [s H]. congruence.
Qed.

(* ---------- at a limit at least the database size nothing is cut ---------- *)

Lemma enumerate_length {A} (l : list A) k : length (enumerate k l) = length l.
Proof. revert k. induction l as [|x l IH]; intros k; simpl; [reflexivity|]. rewrite IH. reflexivity. Qed.

Lemma initial_len o nl terms : (length (initial_scores E cmds o nl terms) <= length cmds)%nat.
Proof.
  rewrite <- (map_length fst), initial_ids, map_length.
  pose proof (filter_len (fun ic : nat * command => candidate o terms (snd ic)) (enumerate 0 cmds)) as H.
  rewrite enumerate_length in H. exact H.
Qed.

Lemma ranked_ids_all o nl sc :
  (length sc <= Z.to_nat (o_limit o))%nat ->
  let rs := sort_desc by_score (collect cmds o nl sc) in
  let rs1 := match nl with
             | Some n => match n_tfidf n with Some ranking => rerank o ranking rs | None => rs end
             | None => rs end in
  let rs2 := match nl with Some n => (match rs1 with [] => rs1 | _ => cascade n rs1 end) | None => rs1 end in
  Permutation (map fst (firstn (Z.to_nat (o_limit o)) rs2)) (map fst sc).
Proof.
  intros L rs rs1 rs2.
  assert (Lrs : length rs = length sc) by (unfold rs, collect; rewrite sort_length, map_length; reflexivity).
  assert (P0 : Permutation (map fst rs) (map fst sc)) by (unfold rs; rewrite sort_ids, collect_ids; reflexivity).
  assert (P1 : Permutation (map fst rs1) (map fst sc) /\ length rs1 = length sc).
  { unfold rs1. destruct nl as [n|]; [|auto]. destruct (n_tfidf n) as [ranking|]; [|auto].
    unfold rerank. set (lim := if (o_limit o * 5 <? 10)%Z then 10%Z else (o_limit o * 5)%Z).
    assert (F : firstn (Z.to_nat lim) rs = rs) by (apply firstn_all_ge; unfold lim; destruct (o_limit o * 5 <? 10)%Z eqn:C; lia).
    rewrite F. split.
    - rewrite sort_ids. rewrite map_fst_same; [exact P0 | intros [i s]; destruct (find _ _); reflexivity].
    - rewrite sort_length, map_length. exact Lrs. }
  destruct P1 as [P1 L1].
  assert (P2 : Permutation (map fst rs2) (map fst sc) /\ length rs2 = length sc).
  { unfold rs2. destruct nl as [n|]; [|auto]. destruct rs1 as [|x r] eqn:Er; [auto|].
    split; [rewrite cascade_ids; exact P1|]. unfold cascade. rewrite sort_length, map_length. exact L1. }
  destruct P2 as [P2 L2]. rewrite firstn_all_ge by lia. exact P2.
Qed.

End Cand.

(* ---------- term selection ---------- *)

Section Terms.
Variable E : env.
Variable cmds : list command.

Lemma mem_bytes_iff w l : mem_bytes w l = true <-> In w l.
Proof.
  unfold mem_bytes. rewrite existsb_exists. split.
  - intros [x [I H]]. apply bytes_eqb_eq in H. subst. exact I.
  - intros I. exists w. split; [exact I|]. clear. induction w as [|b w IH]; simpl; [reflexivity|]. rewrite N.eqb_refl. exact IH.
Qed.

Lemma beq_refl w : bytes_eqb w w = true.
Proof. induction w as [|b w IH]; simpl; [reflexivity|]. rewrite N.eqb_refl. exact IH. Qed.
Lemma beq_false_neq a b : bytes_eqb a b = false -> a <> b.
Proof. intros H E'. subst. rewrite beq_refl in H. discriminate. Qed.

Lemma score_terms_subset p seen l x : In x (score_terms E cmds p seen l) -> In (term_of x) (map snd l).
Proof.
  revert seen. induction l as [|[i t] r IH]; intros seen; simpl; [tauto|].
  destruct (mem_bytes t seen); [intros H; right; eapply IH; eauto|].
  destruct (df E cmds t =? 0)%Z.
  - destruct (Nat.ltb i p); [intros [H|H]; [subst; left; reflexivity | right; eapply IH; eauto] | intros H; right; eapply IH; eauto].
  - intros [H|H]; [subst; left; reflexivity | right; eapply IH; eauto].
Qed.

Lemma score_terms_known p seen l t :
  In t (map snd l) -> ~ In t seen -> df E cmds t <> 0%Z -> In t (map term_of (score_terms E cmds p seen l)).
Proof.
  revert seen. induction l as [|[i t0] r IH]; intros seen; simpl; [tauto|].
  intros I NS D. destruct (mem_bytes t0 seen) eqn:M.
  - apply mem_bytes_iff in M. destruct I as [I|I]; [subst; contradiction | apply IH; auto].
  - assert (M' : ~ In t0 seen) by (intros H; apply mem_bytes_iff in H; congruence).
    destruct (bytes_eqb t t0) eqn:Eq.
    + apply bytes_eqb_eq in Eq. subst t0. destruct (df E cmds t =? 0)%Z eqn:D0; [lia|]. simpl. left. reflexivity.
    + assert (NE : t <> t0) by (apply beq_false_neq; exact Eq).
      destruct I as [I|I]; [congruence|].
      assert (NS' : ~ In t (t0 :: seen)) by (intros [H|H]; [congruence | contradiction]).
      destruct (df E cmds t0 =? 0)%Z; [destruct (Nat.ltb i p)|]; simpl; try right; apply IH; auto.
Qed.

Lemma score_terms_len p seen l : (length (score_terms E cmds p seen l) <= length (dedup seen (map snd l)))%nat.
Proof.
  revert seen. induction l as [|[i t] r IH]; intros seen; simpl; [lia|].
  destruct (mem_bytes t seen); [apply IH|].
  destruct (df E cmds t =? 0)%Z; [destruct (Nat.ltb i p)|]; simpl; specialize (IH (t :: seen)); lia.
Qed.

Lemma index_terms_snd k l : map snd (index_terms k l) = l.
Proof. revert k. induction l as [|x r IH]; intros k; simpl; [reflexivity|]. rewrite IH. reflexivity. Qed.

Lemma score_terms_orig p seen k terms j t :
  nth_error terms j = Some t -> (k + j < p)%nat -> ~ In t seen ->
  exists x, In x (score_terms E cmds p seen (index_terms k terms)) /\ term_of x = t /\ snd x = true.
Proof.
  revert seen k j. induction terms as [|t0 r IH]; intros seen k j N L NS; [destruct j; discriminate|].
  simpl. destruct j as [|j]; simpl in N.
  - inversion N; subst t0. assert (M : mem_bytes t seen = false).
    { destruct (mem_bytes t seen) eqn:M; [apply mem_bytes_iff in M; contradiction | reflexivity]. }
    rewrite M. assert (O : Nat.ltb k p = true) by (apply Nat.ltb_lt; lia). rewrite O.
    destruct (df E cmds t =? 0)%Z; eexists; (split; [left; reflexivity | split; reflexivity]).
  - destruct (mem_bytes t0 seen) eqn:M.
    + destruct (IH seen (S k) j N ltac:(lia) NS) as [x [A B]]. exists x. auto.
    + assert (O : Nat.ltb k p = true) by (apply Nat.ltb_lt; lia). rewrite O.
      destruct (bytes_eqb t t0) eqn:Eq.
      * apply bytes_eqb_eq in Eq. subst t0.
        destruct (df E cmds t =? 0)%Z; eexists; (split; [left; reflexivity | split; reflexivity]).
      * assert (NS' : ~ In t (t0 :: seen)).
        { intros [H|H]; [|contradiction]. subst t0. apply beq_false_neq in Eq. congruence. }
        destruct (IH (t0 :: seen) (S k) j N ltac:(lia) NS') as [x [A B]].
        destruct (df E cmds t0 =? 0)%Z; exists x; (split; [right; exact A | exact B]).
Qed.

(* selected terms are query terms *)
Lemma select_subset terms cap t : In t (select_top_terms E cmds terms cap) -> In t terms.
Proof.
  unfold select_top_terms. destruct ((cap <=? 0)%Z || (Z.of_nat (length terms) <=? cap)%Z); [auto|].
  set (lst := score_terms E cmds (Nat.min 4 (length terms)) [] (index_terms 0 terms)).
  assert (S : forall x, In x lst -> In (term_of x) terms).
  { intros x I. apply score_terms_subset in I. rewrite index_terms_snd in I. exact I. }
  assert (M : forall l, (forall x, In x l -> In x lst) -> In t (map term_of l) -> In t terms).
  { intros l Hl I. apply in_map_iff in I. destruct I as [x [Ex Ix]]. subst t. apply S. apply Hl. exact Ix. }
  destruct (Z.of_nat (length lst) <=? cap)%Z; [apply M; auto|].
  assert (F1 : forall x, In x (filter (fun x : bytes * float * bool => snd x) lst) -> In x lst) by (intros x I; apply filter_In in I; tauto).
  assert (F2 : forall x, In x (firstn (Z.to_nat (cap - Z.of_nat (length (map term_of (filter (fun x : bytes * float * bool => snd x) lst)))))
                                 (sort_desc idf_of (filter (fun x : bytes * float * bool => negb (snd x)) lst))) -> In x lst).
  { intros x I. apply in_firstn in I. apply sort_in in I. apply filter_In in I. tauto. }
  destruct (_ >? 0)%Z; [|apply M; exact F1].
  intros I. apply in_app_or in I. destruct I as [I|I]; [apply (M _ F1 I) | apply (M _ F2 I)].
Qed.

(* every term the index knows is kept when the query has at most [cap] distinct terms *)
Lemma select_keeps_known terms cap t :
  (0 < cap)%Z -> (Z.of_nat (length (dedup [] terms)) <= cap)%Z -> In t terms -> df E cmds t <> 0%Z ->
  In t (select_top_terms E cmds terms cap).
Proof.
  intros C L I D. unfold select_top_terms.
  destruct ((cap <=? 0)%Z || (Z.of_nat (length terms) <=? cap)%Z); [exact I|].
  set (lst := score_terms E cmds (Nat.min 4 (length terms)) [] (index_terms 0 terms)).
  assert (LL : (length lst <= length (dedup [] terms))%nat).
  { pose proof (score_terms_len (Nat.min 4 (length terms)) [] (index_terms 0 terms)) as H. rewrite index_terms_snd in H. exact H. }
  assert (G : (Z.of_nat (length lst) <=? cap)%Z = true) by lia. rewrite G.
  apply score_terms_known; [rewrite index_terms_snd; exact I | intros [] | exact D].
Qed.

(* each of the first four query terms is retained however long the query is *)
Lemma select_keeps_first_four terms cap j t :
  nth_error terms j = Some t -> (j < 4)%nat -> In t (select_top_terms E cmds terms cap).
Proof.
  intros N J. unfold select_top_terms.
  destruct ((cap <=? 0)%Z || (Z.of_nat (length terms) <=? cap)%Z); [eapply nth_error_In; eauto|].
  set (lst := score_terms E cmds (Nat.min 4 (length terms)) [] (index_terms 0 terms)).
  assert (JL : (j < length terms)%nat) by (apply nth_error_Some; congruence).
  destruct (score_terms_orig (Nat.min 4 (length terms)) [] 0 terms j t N ltac:(lia) ltac:(intros [])) as [x [Ix [Tx Ox]]].
  fold lst in Ix.
  destruct (Z.of_nat (length lst) <=? cap)%Z; [apply in_map_iff; exists x; auto|].
  assert (O : In t (map term_of (filter (fun x : bytes * float * bool => snd x) lst))).
  { apply in_map_iff. exists x. split; [exact Tx|]. apply filter_In. auto. }
  destruct (_ >? 0)%Z; [apply in_or_app; left; exact O | exact O].
Qed.

Lemma enhance_len terms enh :
  (8 <= length terms -> enhance_terms terms enh = terms)%nat /\ (length (enhance_terms terms enh) <= Nat.max (length terms) 8)%nat.
Proof.
  unfold enhance_terms. revert terms. induction enh as [|e r IH]; intros terms; simpl; [split; [reflexivity | lia]|].
  destruct (mem_bytes e terms); [apply IH|]. destruct (Nat.ltb (length terms) 8) eqn:C; [|apply IH].
  apply Nat.ltb_lt in C. destruct (IH (terms ++ [e])) as [A B]. rewrite app_length in *. simpl in *. split; [lia | lia].
Qed.

Lemma dedup_len l : forall seen, (length (dedup seen l) <= length l)%nat.
Proof.
  induction l as [|x r IH]; intros seen; simpl; [lia|].
  destruct (mem_bytes x seen); simpl; [specialize (IH seen) | specialize (IH (x :: seen))]; lia.
Qed.

End Terms.

(* ---------- C13 and C06 at the level of whole answers ---------- *)

Section Answers.
Variable E : env.
Variable cmds : list command.

Definition drop_boosts (o : options) : options :=
  {| o_limit := o_limit o; o_boosts := []; o_pipeline_only := o_pipeline_only o; o_pipeline_boost := o_pipeline_boost o;
     o_fuzzy := o_fuzzy o; o_threshold := o_threshold o; o_nlp := o_nlp o; o_terms_cap := o_terms_cap o;
     o_all_platforms := o_all_platforms o; o_platforms := o_platforms o; o_no_cross := o_no_cross o |}.

Definition set_nlp (o : options) (b : bool) : options :=
  {| o_limit := o_limit o; o_boosts := o_boosts o; o_pipeline_only := o_pipeline_only o; o_pipeline_boost := o_pipeline_boost o;
     o_fuzzy := o_fuzzy o; o_threshold := o_threshold o; o_nlp := b; o_terms_cap := o_terms_cap o;
     o_all_platforms := o_all_platforms o; o_platforms := o_platforms o; o_no_cross := o_no_cross o |}.

Definition big_limit (o : options) : Prop := (length cmds <= Z.to_nat (limit_in_force o))%nat.

(* context boosts never add or remove a candidate: with a limit that cuts nothing, the answers
   with and without boosts contain the same commands *)
Lemma boost_same_candidates q o nl :
  big_limit o ->
  Permutation (map fst (search_universal E cmds q o nl)) (map fst (search_universal E cmds q (drop_boosts o) nl)).
Proof.
  intros B. unfold search_universal. cbv zeta.
  set (o1 := eff_limit o). set (o2 := eff_limit (drop_boosts o)).
  change (o_nlp o2) with (o_nlp o1). change (o_fuzzy o2) with (o_fuzzy o1). change (o_limit o2) with (o_limit o1).
  set (nl' := if o_nlp o1 then nl else None).
  change (query_terms E q o2 nl') with (query_terms E q o1 nl').
  change (selected_terms E cmds q o2 nl') with (selected_terms E cmds q o1 nl').
  change (fuzzy_search E cmds o2) with (fuzzy_search E cmds o1).
  destruct (query_terms E q o1 nl'); [reflexivity|].
  set (T := selected_terms E cmds q o1 nl').
  assert (I : map fst (initial_scores E cmds o1 nl' T) = map fst (initial_scores E cmds o2 nl' T)).
  { rewrite !initial_ids. reflexivity. }
  pose proof (initial_len E cmds o1 nl' T) as L1. pose proof (initial_len E cmds o2 nl' T) as L2.
  destruct (initial_scores E cmds o1 nl' T) as [|x1 s1] eqn:E1; destruct (initial_scores E cmds o2 nl' T) as [|x2 s2] eqn:E2;
    try discriminate; [reflexivity|].
  unfold big_limit in B. change (limit_in_force o) with (o_limit o1) in B.
  rewrite (ranked_ids_all cmds o1 nl' (x1 :: s1)) by lia.
  pose proof (ranked_ids_all cmds o2 nl' (x2 :: s2)) as R2. cbv zeta in R2.
  change (o_limit o2) with (o_limit o1) in R2. rewrite R2 by lia. rewrite I. reflexivity.
Qed.

(* a document that contains none of the boosted words keeps exactly its score *)
Lemma boost_local av tb tb' terms c :
  (forall t, In t terms -> tf_any (doc_tf E c t) = true -> boost_of tb t = boost_of tb' t) ->
  doc_score E cmds av tb terms c = doc_score E cmds av tb' terms c.
Proof.
  unfold doc_score. generalize (@None float). induction terms as [|t r IH]; intros acc H; simpl; [reflexivity|].
  destruct (tf_any (doc_tf E c t)) eqn:TF.
  - rewrite (H t (or_introl eq_refl) TF). apply IH. intros t' I. apply H. right. exact I.
  - apply IH. intros t' I. apply H. right. exact I.
Qed.

Lemma tf_any_df c t : In c cmds -> tf_any (doc_tf E c t) = true -> df E cmds t <> 0%Z.
Proof.
  intros I T. unfold df. assert (In c (filter (fun c => tf_any (doc_tf E c t)) cmds)) by (apply filter_In; auto).
  destruct (filter _ cmds); [contradiction|]. simpl length. lia.
Qed.

Lemma candidate_mono o terms terms' c :
  In c cmds -> (forall t, In t terms -> df E cmds t <> 0%Z -> In t terms') ->
  candidate E cmds o terms c = true -> candidate E cmds o terms' c = true.
Proof.
  intros I H. unfold candidate. intros C. apply andb_true_iff in C. destruct C as [C1 C2]. rewrite C1. simpl.
  apply existsb_exists in C2. destruct C2 as [t [It Ht]]. apply existsb_exists. exists t. split; [|exact Ht].
  apply H; [exact It|]. unfold term_hits in Ht. apply andb_true_iff in Ht. destruct Ht as [Ht _]. eapply tf_any_df; eauto.
Qed.

(* turning natural-language enhancement on never loses a lexical match: for a query of at most ten
   distinct content words (default term cap), with a limit that cuts nothing and the typo fallback off,
   every command returned with enhancement off is returned with it on *)
Lemma nlp_superset q o nl i :
  big_limit o -> o_fuzzy o = false -> (o_terms_cap o <= 0)%Z ->
  (length (dedup [] (tokenize (e_stop E) q)) <= 10)%nat ->
  In i (map fst (search_universal E cmds q (set_nlp o false) nl)) ->
  In i (map fst (search_universal E cmds q (set_nlp o true) nl)).
Proof.
  intros B F C D. unfold search_universal. cbv zeta.
  set (o0 := eff_limit (set_nlp o false)). set (o1 := eff_limit (set_nlp o true)).
  change (o_nlp o0) with false. change (o_nlp o1) with true. cbv iota.
  change (o_fuzzy o0) with (o_fuzzy o). change (o_fuzzy o1) with (o_fuzzy o). rewrite F.
  change (o_limit o0) with (limit_in_force o). change (o_limit o1) with (limit_in_force o).
  set (tok := tokenize (e_stop E) q) in *.
  change (query_terms E q o0 None) with tok.
  destruct tok as [|t0 tr] eqn:TK; [intros []|]. rewrite <- TK in *.
  set (T0 := selected_terms E cmds q o0 None).
  destruct (initial_scores E cmds o0 None T0) as [|x0 s0] eqn:I0; [intros []|].
  pose proof (initial_len E cmds o0 None T0) as L0. rewrite I0 in L0.
  unfold big_limit in B.
  pose proof (ranked_ids_all cmds o0 None (x0 :: s0)) as R0. cbv zeta in R0.
  change (o_limit o0) with (limit_in_force o) in R0. rewrite R0 by lia. clear R0.
  intros Hi.
  (* the enhanced run *)
  assert (QT : query_terms E q o1 nl = match nl with Some n => enhance_terms tok (n_enhanced n) | None => tok end).
  { unfold query_terms. fold tok. destruct nl; reflexivity. }
  set (terms1 := query_terms E q o1 nl) in *.
  assert (P1 : exists extra, terms1 = tok ++ extra).
  { rewrite QT. destruct nl as [n|]; [apply enhance_prefix | exists []; rewrite app_nil_r; reflexivity]. }
  assert (N1 : terms1 <> []) by (destruct P1 as [ex P1]; rewrite P1, TK; discriminate).
  destruct terms1 as [|u1 ur] eqn:T1E; [congruence|]. rewrite <- T1E in *.
  set (T1 := selected_terms E cmds q o1 nl).
  (* candidates of the plain run are candidates of the enhanced run *)
  assert (SUB : forall t, In t T0 -> df E cmds t <> 0%Z -> In t T1).
  { intros t It Dt. unfold T0, T1, selected_terms in *.
    change (o_terms_cap o0) with (o_terms_cap o) in It. change (o_terms_cap o1) with (o_terms_cap o).
    assert (CAP : (o_terms_cap o <=? 0)%Z = true) by lia. rewrite CAP in *.
    change (query_terms E q o0 None) with tok in It. fold terms1.
    apply select_subset in It.
    apply select_keeps_known; [lia | | | exact Dt].
    - rewrite QT. destruct nl as [n|]; [|lia].
      destruct (enhance_len tok (n_enhanced n)) as [A Bn].
      destruct (Nat.le_gt_cases 8 (length tok)) as [G|G]; [rewrite (A G); lia|].
      pose proof (dedup_len (enhance_terms tok (n_enhanced n)) []). lia.
    - destruct P1 as [ex P1]. rewrite P1. apply in_or_app. left. exact It. }
  assert (IDS : forall j, In j (map fst (initial_scores E cmds o0 None T0)) -> In j (map fst (initial_scores E cmds o1 nl T1))).
  { intros j. rewrite !initial_ids. intros Hj. apply in_map_iff in Hj. destruct Hj as [[j' c] [Ej Hj]]. simpl in Ej. subst j'.
    apply filter_In in Hj. destruct Hj as [Hj Cj]. apply in_map_iff. exists (j, c). split; [reflexivity|].
    apply filter_In. split; [exact Hj|]. simpl in *.
    apply enumerate_in in Hj. destruct Hj as [_ Hj]. apply nth_error_In in Hj.
    change (candidate E cmds o1 T1 c) with (candidate E cmds o0 T1 c).
    eapply candidate_mono; eauto. }
  rewrite I0 in IDS. specialize (IDS i Hi).
  destruct (initial_scores E cmds o1 nl T1) as [|x1 s1] eqn:I1; [destruct IDS|].
  pose proof (initial_len E cmds o1 nl T1) as L1. rewrite I1 in L1.
  pose proof (ranked_ids_all cmds o1 nl (x1 :: s1)) as R1. cbv zeta in R1.
  change (o_limit o1) with (limit_in_force o) in R1. rewrite R1 by lia. exact IDS.
Qed.

End Answers.
