(* Proofs about the transcribed typo matcher (Model/Fuzzy.v):
   - it never indexes the pattern out of range on a target without NUL bytes (the Go code's panic needs a NUL inside the
     target: it is read as "end of string");
   - every match it reports on such a target is a genuine in-order, case-insensitive occurrence of the pattern. *)
From Coq Require Import List NArith ZArith Bool Lia.
From WTF Require Import Model.Validate Model.Text Model.Fuzzy.
Import ListNotations.

Lemma eq_fold_zero n : n <> 0%N -> eq_fold 0 n = false.
Proof.
  intros H. unfold eq_fold. destruct (N.eqb_spec 0 n) as [E|E]; [congruence|]. simpl.
  replace (N.min 0 n) with 0%N by lia. reflexivity.
Qed.

Lemma eq_fold_sym a b : eq_fold a b = eq_fold b a.
Proof. unfold eq_fold. rewrite (N.eqb_sym a b), (N.max_comm a b), (N.min_comm a b). reflexivity. Qed.

(* ---- the candidate part ---- *)
Lemma cand_spec j c p st : (0 <= f_adj st)%Z ->
  let '(b, m, a) := cand j c p st in
  (0 <= a)%Z /\
  ((b = f_best st /\ m = f_mi st) \/ (eq_fold c p = true /\ m = j /\ (0 <= b)%Z /\ (f_best st < b)%Z)) /\
  (eq_fold c p = true -> (f_best st <= -1)%Z -> m = j /\ (0 <= b)%Z).
Proof.
  intros A. unfold cand. destruct (eq_fold c p) eqn:E; [|repeat split; auto; discriminate].
  set (s0 := ((if Z.eqb j 0 then 10 else 0) + (if is_lower (f_last st) && is_upper c then 20 else 0) +
              (if negb (Z.eqb j 0) && is_sep (f_last st) then 20 else 0))%Z).
  assert (S0 : (0 <= s0)%Z).
  { unfold s0. destruct (Z.eqb j 0), (is_lower (f_last st) && is_upper c), (is_sep (f_last st)); simpl; lia. }
  set (bonus := match f_matched st with [] => 0%Z | lm :: _ => if Z.eqb lm (f_last_index st) then (f_adj st * 2 + 5)%Z else 0%Z end).
  assert (B0 : (0 <= bonus)%Z).
  { unfold bonus. destruct (f_matched st) as [|lm ms]; [lia|]. destruct (Z.eqb lm (f_last_index st)); lia. }
  destruct (f_best st <? s0 + bonus)%Z eqn:L.
  - apply Z.ltb_lt in L. split; [lia|]. split; [right; repeat split; lia|]. intros _ _. split; [reflexivity | lia].
  - apply Z.ltb_ge in L. split; [lia|]. split; [left; split; reflexivity|]. intros _ H. lia.
Qed.

(* ---- no panic ---- *)
Lemma fstep_some runes j c nextc st : (f_pi st < length runes)%nat -> exists st', fstep runes j c nextc st = Some st'.
Proof.
  intros H. unfold fstep. destruct (nth_error runes (f_pi st)) as [p|] eqn:E; [|apply nth_error_None in E; lia].
  destruct (cand j c p st) as [[b m] a]. destruct (_ && _); eauto.
Qed.

Lemma trigger_end_or_more runes pi nextc :
  (pi < length runes)%nat -> (eq_fold (next_pattern_rune runes pi) nextc || N.eqb nextc 0)%bool = true ->
  nextc = 0%N \/ ((S pi < length runes)%nat /\ eq_fold (nth (S pi) runes 0%N) nextc = true).
Proof.
  intros L Hb. apply orb_prop in Hb. destruct Hb as [Hb|Hb]; [|left; apply N.eqb_eq in Hb; exact Hb].
  unfold next_pattern_rune in Hb. destruct (Nat.ltb_spec pi (length runes - 1)); [right; split; [lia | exact Hb]|].
  destruct (N.eq_dec nextc 0) as [Z|Z]; [left; exact Z|]. rewrite eq_fold_zero in Hb by exact Z. discriminate.
Qed.

Lemma fstep_pi runes j c nextc st st' : fstep runes j c nextc st = Some st' ->
  f_pi st' = f_pi st \/ (f_pi st' = S (f_pi st) /\ (nextc = 0%N \/ (S (f_pi st) < length runes)%nat)).
Proof.
  unfold fstep. destruct (nth_error runes (f_pi st)) as [p|] eqn:E; [|discriminate].
  assert (L : (f_pi st < length runes)%nat) by (apply nth_error_Some; congruence).
  destruct (cand j c p st) as [[b m] a].
  destruct ((eq_fold (next_pattern_rune runes (f_pi st)) nextc || N.eqb nextc 0) && (-1 <? m)%Z) eqn:T; intros [= <-]; simpl; [|auto].
  right. split; [reflexivity|]. apply andb_prop in T. destruct T as [T _].
  destruct (trigger_end_or_more runes (f_pi st) nextc L T) as [Z|[Z _]]; auto.
Qed.

Lemma floop_no_panic runes : forall s j st, nul_free s = true -> (s = [] \/ (f_pi st < length runes)%nat) ->
  floop runes j s st <> None.
Proof.
  induction s as [|c r IH]; intros j st NF I; simpl; [discriminate|].
  destruct I as [I|I]; [discriminate|].
  destruct (fstep_some runes j c (match r with [] => 0%N | n :: _ => n end) st I) as [st' E]. rewrite E.
  simpl in NF. apply andb_prop in NF. destruct NF as [_ NF].
  apply IH; [exact NF|].
  destruct r as [|n r']; [left; reflexivity|]. right.
  apply fstep_pi in E. destruct E as [E|[E [Z|Z]]]; [lia | | lia].
  simpl in NF. apply andb_prop in NF. destruct NF as [NF _]. subst n. discriminate.
Qed.

(* no input without a NUL byte makes the matcher panic, whatever the pattern *)
Lemma matcher_total pattern target : nul_free target = true -> pattern <> [] -> score_target pattern target <> FPanic.
Proof.
  intros NF NE. unfold score_target. destruct (floop pattern 0 target finit) eqn:E.
  - destruct (Nat.eqb _ _); discriminate.
  - exfalso. eapply floop_no_panic; [exact NF | | exact E]. right. simpl. destruct pattern; [congruence | simpl; lia].
Qed.

(* and a NUL inside the target does: the witness found in /repo (fixed there by replacing NUL before matching) *)
Example matcher_panics_on_nul : score_target [97]%N [97; 0; 98]%N = FPanic.
Proof. vm_compute. reflexivity. Qed.

Lemma matcher_panic_witness : exists pattern target, pattern <> [] /\ score_target pattern target = FPanic.
Proof. exists [97%N], [97%N; 0%N; 98%N]. split; [discriminate | exact matcher_panics_on_nul]. Qed.

(* ---- every reported match is genuine ---- *)
Definition at_pos (target : list N) (i : Z) : N := nth (Z.to_nat i) target 0%N.

(* matched indexes, most recent first: strictly decreasing, below the bound, the k-th (from the start of the pattern) an
   occurrence of the k-th pattern rune up to ASCII case *)
Fixpoint genuine_rev (pattern target : list N) (k : nat) (ms : list Z) (bound : Z) : Prop :=
  match ms with
  | [] => k = 0%nat
  | m :: r => (0 <= m < bound)%Z /\
              exists k', k = S k' /\ eq_fold (at_pos target m) (nth k' pattern 0%N) = true /\ genuine_rev pattern target k' r m
  end.

Lemma genuine_rev_weaken pattern target k ms b b' : (b <= b')%Z -> genuine_rev pattern target k ms b -> genuine_rev pattern target k ms b'.
Proof. destruct ms as [|m r]; simpl; [auto|]. intros L [[A B] H]. split; [lia | exact H]. Qed.

Section Genuine.
Variable pattern : list N.

Definition fresh (target : list N) (j : Z) (st : fstate) : Prop :=
  (0 <= f_mi st < j)%Z /\ (match f_matched st with [] => True | m :: _ => (m < f_mi st)%Z end) /\
  eq_fold (at_pos target (f_mi st)) (nth (f_pi st) pattern 0%N) = true.

Definition Inv (pre s : list N) (st : fstate) : Prop :=
  let j := Z.of_nat (length pre) in let target := (pre ++ s)%list in
  f_pi st = length (f_matched st) /\
  genuine_rev pattern target (f_pi st) (f_matched st) j /\
  (-1 <= f_best st)%Z /\ (0 <= f_adj st)%Z /\
  (((-1 < f_best st)%Z /\ fresh target j st) \/
   (f_best st = -1 /\
    ((f_matched st = [] /\ f_mi st = -1) \/
     (f_matched st <> [] /\ match s with c :: _ => eq_fold c (nth (f_pi st) pattern 0%N) = true | [] => True end)))%Z).

Lemma at_pos_here pre c r : at_pos (pre ++ c :: r) (Z.of_nat (length pre)) = c.
Proof. unfold at_pos. rewrite Nat2Z.id, app_nth2, Nat.sub_diag by lia. reflexivity. Qed.

Lemma Inv_init target : Inv [] target finit.
Proof. unfold Inv, finit; simpl. repeat split; try lia. right. split; [reflexivity|]. left. split; reflexivity. Qed.

Lemma Inv_step pre c r st st' :
  nul_free (c :: r) = true -> Inv pre (c :: r) st ->
  fstep pattern (Z.of_nat (length pre)) c (match r with [] => 0%N | n :: _ => n end) st = Some st' ->
  Inv (pre ++ [c]) r st'.
Proof.
  intros NF [Ipi [Ig [Ib [Ia Ic]]]] E. unfold fstep in E.
  destruct (nth_error pattern (f_pi st)) as [p|] eqn:Ep; [|discriminate].
  assert (Lp : (f_pi st < length pattern)%nat) by (apply nth_error_Some; congruence).
  assert (Pp : nth (f_pi st) pattern 0%N = p) by (apply nth_error_nth; exact Ep).
  set (j := Z.of_nat (length pre)) in *.
  set (target := (pre ++ c :: r)%list) in *.
  assert (T' : ((pre ++ [c]) ++ r)%list = target) by (unfold target; rewrite <- app_assoc; reflexivity).
  assert (J' : Z.of_nat (length (pre ++ [c])) = (j + 1)%Z) by (rewrite app_length; simpl; unfold j; lia).
  pose proof (cand_spec j c p st Ia) as C. destruct (cand j c p st) as [[b m] a]. destruct C as [Ca [Cbm Cfirst]].
  (* after the candidate part: either a fresh matched index, or nothing matched yet *)
  assert (Fr : ((-1 < b)%Z /\ (0 <= m < j + 1)%Z /\ (match f_matched st with [] => True | x :: _ => (x < m)%Z end) /\
                eq_fold (at_pos target m) (nth (f_pi st) pattern 0%N) = true) \/
               (b = (-1)%Z /\ m = (-1)%Z /\ f_matched st = [])).
  { destruct Ic as [[Ib1 [Fm [Fo Fe]]]|[Ib1 [[Me Mi]|[Mn Mc]]]].
    - left. destruct Cbm as [[-> ->]|[Ce [-> [B0 B1]]]].
      + repeat split; try lia; auto.
      + repeat split; try lia.
        * destruct (f_matched st) as [|x xs]; [exact I|]. simpl in Ig. destruct Ig as [[_ Xj] _]. fold j in Xj. lia.
        * unfold target, j. rewrite at_pos_here, Pp. exact Ce.
    - destruct Cbm as [[-> ->]|[Ce [-> [B0 B1]]]].
      + right. repeat split; auto.
      + left. repeat split; try lia.
        * rewrite Me. exact I.
        * unfold target, j. rewrite at_pos_here, Pp. exact Ce.
    - left. rewrite Pp in Mc. destruct (Cfirst Mc ltac:(lia)) as [-> B0]. repeat split; try lia.
      + destruct (f_matched st) as [|x xs]; [exact I|]. simpl in Ig. destruct Ig as [[_ Xj] _]. fold j in Xj. lia.
      + unfold target, j. rewrite at_pos_here, Pp. exact Mc. }
  destruct ((eq_fold (next_pattern_rune pattern (f_pi st)) (match r with [] => 0%N | n :: _ => n end) ||
             N.eqb (match r with [] => 0%N | n :: _ => n end) 0) && (-1 <? m)%Z) eqn:Tr; injection E as <-; unfold Inv; simpl; rewrite T', J'.
  - (* the best candidate is applied *)
    apply andb_prop in Tr. destruct Tr as [Tr Mpos]. apply Z.ltb_lt in Mpos.
    destruct Fr as [[B1 [Mr [Mo Me]]]|[_ [Mm _]]]; [|lia].
    split; [rewrite Ipi; reflexivity|]. split.
    { split; [lia|]. exists (f_pi st). repeat split; auto.
      destruct (f_matched st) as [|x xs] eqn:Ms.
      - simpl in Ig. simpl. exact Ig.
      - simpl in Ig |- *. destruct Ig as [[X0 Xj] H]. split; [lia | exact H]. }
    split; [lia|]. split; [exact Ca|].
    right. split; [reflexivity|]. right. split; [discriminate|].
    destruct r as [|n r']; [exact I|].
    destruct (trigger_end_or_more pattern (f_pi st) n Lp Tr) as [Z|[_ Z]].
    + exfalso. simpl in NF. apply andb_prop in NF. destruct NF as [_ NF]. simpl in NF. apply andb_prop in NF. destruct NF as [NF _].
      subst n. discriminate.
    + rewrite eq_fold_sym. exact Z.
  - (* nothing applied *)
    split; [exact Ipi|]. split; [apply (genuine_rev_weaken _ _ _ _ j); [lia | exact Ig]|].
    destruct Fr as [[B1 [Mr [Mo Me]]]|[Bm [Mm Me]]].
    + split; [lia|]. split; [exact Ca|]. left. split; [exact B1|]. unfold fresh; simpl. repeat split; try lia; auto.
    + split; [lia|]. split; [exact Ca|]. right. split; [exact Bm|]. left. split; assumption.
Qed.

Lemma Inv_loop : forall s pre st st', nul_free s = true -> Inv pre s st ->
  floop pattern (Z.of_nat (length pre)) s st = Some st' -> Inv (pre ++ s) [] st'.
Proof.
  induction s as [|c r IH]; intros pre st st' NF I E; simpl in E.
  - injection E as <-. rewrite app_nil_r. exact I.
  - destruct (fstep pattern (Z.of_nat (length pre)) c (match r with [] => 0%N | n :: _ => n end) st) as [st1|] eqn:S; [|discriminate].
    pose proof (Inv_step pre c r st st1 NF I S) as I1.
    replace (pre ++ c :: r)%list with ((pre ++ [c]) ++ r)%list by (rewrite <- app_assoc; reflexivity).
    apply (IH (pre ++ [c])%list st1 st'); [simpl in NF; apply andb_prop in NF; apply NF | exact I1|].
    rewrite app_length. simpl. replace (Z.of_nat (length pre + 1)) with (Z.of_nat (length pre) + 1)%Z by lia. exact E.
Qed.
End Genuine.

(* indexes in pattern order: strictly increasing positions of the target, the k-th holding the k-th pattern rune up to ASCII case *)
Fixpoint genuine_fwd (pattern target : list N) (k : nat) (lo : Z) (idx : list Z) : Prop :=
  match idx with
  | [] => True
  | i :: r => (lo < i < Z.of_nat (length target))%Z /\ eq_fold (at_pos target i) (nth k pattern 0%N) = true /\
              genuine_fwd pattern target (S k) i r
  end.

Lemma genuine_rev_fwd pattern target : forall ms k bound, (0 <= bound <= Z.of_nat (length target))%Z ->
  genuine_rev pattern target k ms bound ->
  forall tail, (match tail with [] => True | t :: _ => (bound <= t)%Z end) -> genuine_fwd pattern target k (bound - 1) tail ->
  genuine_fwd pattern target 0 (-1) (rev ms ++ tail).
Proof.
  induction ms as [|m r IH]; intros k bound Lb G tail Ht Gt; simpl in G.
  - subst k. simpl. destruct tail as [|t tl]; [exact I|]. simpl in Gt |- *. destruct Gt as [[A B] [C D]]. repeat split; auto; lia.
  - destruct G as [[M0 Mb] [k' [-> [Em Gr]]]]. simpl. rewrite <- app_assoc. simpl.
    apply (IH k' m ltac:(lia) Gr (m :: tail)); [lia|].
    simpl. repeat split; try lia; auto.
    destruct tail as [|t tl]; [exact I|]. simpl in Gt |- *. destruct Gt as [[A B] [C D]]. repeat split; auto; lia.
Qed.

(* every match on a NUL-free target is a genuine in-order occurrence of the whole pattern *)
Lemma matcher_genuine pattern target s idx : nul_free target = true ->
  score_target pattern target = FMatch s idx ->
  length idx = length pattern /\ genuine_fwd pattern target 0 (-1) idx.
Proof.
  intros NF. unfold score_target. destruct (floop pattern 0 target finit) as [st|] eqn:E; [|discriminate].
  destruct (Nat.eqb_spec (length (f_matched st)) (length pattern)) as [L|L]; [|discriminate]. intros [= _ <-].
  pose proof (Inv_loop pattern target [] finit st NF (Inv_init pattern target) E) as [Ipi [Ig _]]. simpl in Ig. rewrite app_nil_r in Ig.
  split; [rewrite rev_length; exact L|].
  rewrite <- (app_nil_r (rev (f_matched st))).
  apply (genuine_rev_fwd pattern target (f_matched st) (f_pi st) (Z.of_nat (length target)) ltac:(lia) Ig []); simpl; exact I.
Qed.
