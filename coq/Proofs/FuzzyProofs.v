(* The transcribed matcher never indexes the pattern out of range on a target without NUL bytes
   (the Go code's panic needs a NUL inside the target: it is read as "end of string"). *)
From Coq Require Import List NArith ZArith Bool Lia.
From WTF Require Import Model.Validate Model.Text Model.Fuzzy.
Import ListNotations.

Lemma eq_fold_zero n : n <> 0%N -> eq_fold 0 n = false.
Proof.
  intros H. unfold eq_fold. destruct (N.eqb_spec 0 n) as [E|E]; [congruence|]. simpl.
  replace (N.min 0 n) with 0%N by lia. reflexivity.
Qed.

Lemma fstep_some runes j c nextc st : (f_pi st < length runes)%nat -> exists st', fstep runes j c nextc st = Some st'.
Proof.
  intros H. unfold fstep. destruct (nth_error runes (f_pi st)) as [p|] eqn:E; [|apply nth_error_None in E; lia].
  destruct (eq_fold c p).
  - destruct (f_matched st) as [|lm ms];
      repeat match goal with |- context [if ?b then _ else _] => destruct b end; eauto.
  - repeat match goal with |- context [if ?b then _ else _] => destruct b end; eauto.
Qed.

Lemma fstep_pi runes j c nextc st st' : fstep runes j c nextc st = Some st' ->
  f_pi st' = f_pi st \/ (f_pi st' = S (f_pi st) /\ (nextc = 0%N \/ (S (f_pi st) < length runes)%nat)).
Proof.
  unfold fstep. destruct (nth_error runes (f_pi st)) as [p|] eqn:E; [|discriminate].
  assert (L : (f_pi st < length runes)%nat) by (apply nth_error_Some; congruence).
  set (nextp := if Nat.ltb (f_pi st) (length runes - 1) then nth (S (f_pi st)) runes 0%N else 0%N).
  assert (T : forall b1 mi1, ((eq_fold nextp nextc || N.eqb nextc 0) && (-1 <? mi1)%Z)%bool = b1 -> b1 = true ->
              nextc = 0%N \/ (S (f_pi st) < length runes)%nat).
  { intros b1 mi1 <- Hb. apply andb_prop in Hb. destruct Hb as [Hb _]. apply orb_prop in Hb. destruct Hb as [Hb|Hb].
    - unfold nextp in Hb. destruct (Nat.ltb_spec (f_pi st) (length runes - 1)); [right; lia|].
      destruct (N.eq_dec nextc 0) as [Z|Z]; [left; exact Z|]. rewrite eq_fold_zero in Hb by exact Z. discriminate.
    - left. apply N.eqb_eq in Hb. exact Hb. }
  destruct (eq_fold c p).
  - destruct (f_matched st) as [|lm ms].
    + destruct (f_best st <? _)%Z;
        match goal with |- context [if ?b then _ else _] => destruct b eqn:B end; intros [= <-]; simpl; auto; right; split; auto; eapply T; eauto.
    + destruct (f_best st <? _)%Z;
        match goal with |- context [if ?b then _ else _] => destruct b eqn:B end; intros [= <-]; simpl; auto; right; split; auto; eapply T; eauto.
  - match goal with |- context [if ?b then _ else _] => destruct b eqn:B end; intros [= <-]; simpl; auto; right; split; auto; eapply T; eauto.
Qed.

Lemma floop_no_panic runes : forall s j st, nul_free s = true -> (s = [] \/ (f_pi st < length runes)%nat) ->
  floop runes j s st <> None.
Proof.
  induction s as [|c r IH]; intros j st NF I; simpl; [discriminate|].
  destruct I as [I|I]; [discriminate|].
  destruct (fstep_some runes j c (match r with [] => 0%N | n :: _ => n end) st I) as [st' E]. rewrite E.
  simpl in NF. apply andb_prop in NF. destruct NF as [_ NF].
  apply IH; [exact NF|].
  destruct r as [|n r']; [left; reflexivity|]. right.
  apply fstep_pi in E. destruct E as [E|[E [Z|Z]]]; [lia | | lia].
  simpl in NF. apply andb_prop in NF. destruct NF as [NF _]. subst n. discriminate.
Qed.

(* no input without a NUL byte makes the matcher panic, whatever the pattern *)
Lemma matcher_total pattern target : nul_free target = true -> pattern <> [] -> score_target pattern target <> FPanic.
Proof.
  intros NF NE. unfold score_target. destruct (floop pattern 0 target finit) eqn:E.
  - destruct (Nat.eqb _ _); discriminate.
  - exfalso. eapply floop_no_panic; [exact NF | | exact E]. right. simpl. destruct pattern; [congruence | simpl; lia].
Qed.

(* and a NUL inside the target does: the witness found in /repo (fixed there by replacing NUL before matching) *)
Example matcher_panics_on_nul : score_target [97]%N [97; 0; 98]%N = FPanic.
Proof. vm_compute. reflexivity. Qed.

Lemma matcher_panic_witness : exists pattern target, pattern <> [] /\ score_target pattern target = FPanic.
Proof. exists [97%N], [97%N; 0%N; 98%N]. split; [discriminate | exact matcher_panics_on_nul]. Qed.
