(* The recovery search returns each entry at most once, only entries of the database, in database order, with one
   constant finite non-negative score. *)
From Coq Require Import List NArith ZArith Bool Floats Lia Sorting.Sorted.
From WTF Require Import Model.Validate Model.Text Model.Engine Model.Recovery Proofs.EngineProofs.
Import ListNotations.

Lemma enumerate_increasing {A} (l : list A) k : StronglySorted lt (map fst (enumerate k l)).
Proof.
  revert k; induction l as [|x r IH]; intros k; simpl; constructor.
  - apply IH.
  - apply Forall_forall. intros i Hi. apply in_map_iff in Hi. destruct Hi as [[j y] [<- Hj]]. simpl.
    apply enumerate_in in Hj. lia.
Qed.

Lemma filter_sorted {A} (R : A -> A -> Prop) f l : StronglySorted R l -> StronglySorted R (filter f l).
Proof.
  induction 1 as [|x l S IH F]; simpl; [constructor|]. destruct (f x); [|exact IH].
  constructor; [exact IH|]. apply Forall_forall. intros y Hy. apply filter_In in Hy. rewrite Forall_forall in F. apply F, Hy.
Qed.

Lemma map_fst_filter_enum {A} (f : nat * A -> bool) l k :
  StronglySorted lt (map fst (filter f (enumerate k l))).
Proof.
  pose proof (enumerate_increasing l k) as S.
  assert (G : forall (m : list (nat * A)), StronglySorted lt (map fst m) -> StronglySorted lt (map fst (filter f m))).
  { induction m as [|x m IH]; simpl; intros H; [constructor|]. inversion H as [|? ? S' F']; subst.
    destruct (f x); simpl; [|apply IH; exact S'].
    constructor; [apply IH; exact S'|]. apply Forall_forall. intros y Hy. apply in_map_iff in Hy. destruct Hy as [z [<- Hz]].
    apply filter_In in Hz. rewrite Forall_forall in F'. apply F'. apply in_map. apply Hz. }
  apply G, S.
Qed.

Lemma pick_ids keep s db : map fst (pick keep s db) = map fst (filter (fun ie => keep (snd ie)) (enumerate 0 db)).
Proof. unfold pick. rewrite map_map. reflexivity. Qed.

Lemma pick_sorted keep s db : StronglySorted lt (map fst (pick keep s db)).
Proof. rewrite pick_ids. apply map_fst_filter_enum. Qed.

Lemma sorted_nodup l : StronglySorted lt l -> NoDup l.
Proof.
  induction 1 as [|x l S IH F]; constructor; [|exact IH]. intro X. rewrite Forall_forall in F. specialize (F x X). lia.
Qed.

Lemma pick_member keep s db i sc : In (i, sc) (pick keep s db) -> (i < length db)%nat /\ sc = s /\
  exists e, nth_error db i = Some e /\ keep e = true.
Proof.
  unfold pick. intros H. apply in_map_iff in H. destruct H as [[j e] [E H]]. simpl in E. injection E as <- <-.
  apply filter_In in H. destruct H as [H K]. simpl in K. pose proof (enumerate_fst_lt _ _ _ _ H) as L.
  apply enumerate_in in H. destruct H as [_ H]. rewrite Nat.sub_0_r in H. simpl in L. repeat split; eauto.
Qed.

Lemma recover_cases qlc db r : recover qlc db = Some r ->
  r <> [] /\ exists keep s, r = pick keep s db /\ (s = 1%float \/ s = 0x1.999999999999ap-1%float \/ s = 0x1.3333333333333p-1%float).
Proof.
  unfold recover. destruct (basic_keyword qlc db) as [|a l] eqn:B.
  - destruct (single_word qlc db) as [[|a l]|] eqn:S.
    + destruct (partial_match qlc db) as [|a l] eqn:Pm; cbn; [discriminate|]. intros [= <-]. split; [discriminate|].
      unfold partial_match in Pm. eexists _, _. split; [symmetry; exact Pm | auto].
    + cbn. intros [= <-]. split; [discriminate|]. unfold single_word in S. destruct (fields qlc); [discriminate|]. injection S as S.
      eexists _, _. split; [symmetry; exact S | auto].
    + destruct (partial_match qlc db) as [|a l] eqn:Pm; cbn; [discriminate|]. intros [= <-]. split; [discriminate|].
      unfold partial_match in Pm. eexists _, _. split; [symmetry; exact Pm | auto].
  - cbn. intros [= <-]. split; [discriminate|]. unfold basic_keyword in B. eexists _, _. split; [symmetry; exact B | auto].
Qed.

(* C01 on the recovery path *)
Lemma recover_wellformed qlc db r : recover qlc db = Some r ->
  NoDup (map fst r) /\
  (forall i s, In (i, s) r -> (i < length db)%nat /\ PrimFloat.leb 0 s = true /\ PrimFloat.ltb s infinity = true) /\
  (forall a b, In a r -> In b r -> snd a = snd b).
Proof.
  intros H. apply recover_cases in H. destruct H as [_ [keep [s [-> Hs]]]]. split; [|split].
  - apply sorted_nodup, pick_sorted.
  - intros i sc Hi. apply pick_member in Hi. destruct Hi as [L [-> _]]. split; [exact L|].
    destruct Hs as [->|[->| ->]]; vm_compute; auto.
  - intros [i a] [j b] Ha Hb. apply pick_member in Ha. apply pick_member in Hb. simpl. destruct Ha as [_ [-> _]]. destruct Hb as [_ [-> _]]. reflexivity.
Qed.
