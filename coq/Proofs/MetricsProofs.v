(* Proofs about Model/Metrics.v for C18. *)
From Coq Require Import List ZArith NArith Bool Lia ZifyBool ZifyN Floats Sorting.Sorted Sorting.Permutation.
From WTF Require Import Model.Validate Model.Metrics Proofs.ValidateProofs.
Import ListNotations.

Local Arguments N.ltb : simpl never.
Local Arguments N.eqb : simpl never.

(* ---------- byte-string order ---------- *)

Lemma bytes_eqb_refl a : bytes_eqb a a = true.
Proof. induction a as [|x a IH]; simpl; [reflexivity|]. rewrite N.eqb_refl. exact IH. Qed.

Lemma bytes_eqb_iff a b : bytes_eqb a b = true <-> a = b.
Proof. split; [apply bytes_eqb_eq | intros; subst; apply bytes_eqb_refl]. Qed.

Lemma ltb_irrefl a : bytes_ltb a a = false.
Proof. induction a as [|x a IH]; simpl; [reflexivity|]. rewrite N.ltb_irrefl, N.eqb_refl. exact IH. Qed.

Lemma ltb_trans a b c : bytes_ltb a b = true -> bytes_ltb b c = true -> bytes_ltb a c = true.
Proof.
  revert b c. induction a as [|x a IH]; intros [|y b] [|z c]; simpl; try discriminate; auto.
  destruct (N.ltb x y) eqn:XY; destruct (N.ltb y z) eqn:YZ; intros H1 H2.
  - assert (E : N.ltb x z = true) by lia. rewrite E. reflexivity.
  - destruct (N.eqb y z) eqn:E; [|discriminate]. assert (E' : N.ltb x z = true) by lia. rewrite E'. reflexivity.
  - destruct (N.eqb x y) eqn:E; [|discriminate]. assert (E' : N.ltb x z = true) by lia. rewrite E'. reflexivity.
  - destruct (N.eqb x y) eqn:E1; [|discriminate]. destruct (N.eqb y z) eqn:E2; [|discriminate].
    assert (E3 : N.ltb x z = false) by lia. assert (E4 : N.eqb x z = true) by lia. rewrite E3, E4.
    eapply IH; eauto.
Qed.

Lemma ltb_tricho a b : bytes_ltb a b = false -> a <> b -> bytes_ltb b a = true.
Proof.
  revert b. induction a as [|x a IH]; intros [|y b]; simpl.
  { intros _ NE. congruence. }
  { discriminate. }
  { reflexivity. }
  destruct (N.ltb x y) eqn:XY; [discriminate|]. destruct (N.eqb x y) eqn:E.
  - intros H NE. assert (y = x) by lia. subst y. rewrite N.ltb_irrefl, N.eqb_refl.
    apply IH; [exact H | congruence].
  - intros _ _. assert (E' : N.ltb y x = true) by lia. rewrite E'. reflexivity.
Qed.

(* ---------- sorting the tags ---------- *)

Definition ltk (a b : bytes * bytes) : Prop := bytes_ltb (fst a) (fst b) = true.

Lemma insert_perm kv l : Permutation (insert_tag kv l) (kv :: l).
Proof.
  induction l as [|x r IH]; simpl; [reflexivity|].
  destruct (bytes_ltb (fst kv) (fst x)); [reflexivity|]. rewrite IH. apply perm_swap.
Qed.

Lemma sort_perm ord : Permutation (sort_tags ord) ord.
Proof. induction ord as [|x r IH]; simpl; [reflexivity|]. rewrite insert_perm, IH. reflexivity. Qed.

Lemma insert_sorted kv l :
  StronglySorted ltk l -> ~ In (fst kv) (map fst l) -> StronglySorted ltk (insert_tag kv l).
Proof.
  induction l as [|x r IH]; simpl; intros S NI; [repeat constructor|].
  inversion S as [|? ? S' F]; subst.
  destruct (bytes_ltb (fst kv) (fst x)) eqn:C.
  - constructor; [exact S|]. constructor; [exact C|].
    eapply Forall_impl; [|exact F]. intros z Hz. unfold ltk in *. eapply ltb_trans; eauto.
  - constructor; [apply IH; [exact S' | tauto]|].
    eapply Permutation_Forall; [symmetry; apply insert_perm|]. constructor; [|exact F].
    unfold ltk. apply ltb_tricho; [exact C | intros E; apply NI; left; symmetry; exact E].
Qed.

Lemma sort_sorted ord : NoDup (map fst ord) -> StronglySorted ltk (sort_tags ord).
Proof.
  induction ord as [|x r IH]; simpl; intros ND; [constructor|].
  inversion ND as [|? ? NI ND']; subst. apply insert_sorted; [apply IH; exact ND'|].
  intros I. apply NI. eapply Permutation_in; [apply Permutation_map; apply sort_perm | exact I].
Qed.

Lemma sorted_perm_eq l1 l2 : StronglySorted ltk l1 -> StronglySorted ltk l2 -> Permutation l1 l2 -> l1 = l2.
Proof.
  revert l2. induction l1 as [|x l1 IH]; intros l2 S1 S2 P.
  - apply Permutation_nil in P. subst. reflexivity.
  - destruct l2 as [|y l2]; [apply Permutation_sym, Permutation_nil in P; discriminate|].
    inversion S1 as [|? ? S1' F1]; subst. inversion S2 as [|? ? S2' F2]; subst.
    assert (E : x = y).
    { assert (Ix : In x (y :: l2)) by (eapply Permutation_in; [exact P | left; reflexivity]).
      assert (Iy : In y (x :: l1)) by (eapply Permutation_in; [symmetry; exact P | left; reflexivity]).
      destruct Ix as [Ix|Ix]; [auto|]. destruct Iy as [Iy|Iy]; [auto|].
      rewrite Forall_forall in F1, F2. pose proof (F1 _ Iy) as A. pose proof (F2 _ Ix) as B.
      unfold ltk in *. pose proof (ltb_trans _ _ _ A B) as C. rewrite ltb_irrefl in C. discriminate. }
    subst y. f_equal. apply IH; auto. eapply Permutation_cons_inv; eauto.
Qed.

(* the identity of a series does not depend on the order the runtime iterates the tag map in *)
Lemma id_order_independent name ord ord' :
  NoDup (map fst ord) -> Permutation ord ord' -> metric_id name ord = metric_id name ord'.
Proof.
  intros ND P. unfold metric_id. f_equal.
  apply sorted_perm_eq.
  - apply sort_sorted. exact ND.
  - apply sort_sorted. eapply Permutation_NoDup; [apply Permutation_map; exact P | exact ND].
  - rewrite !sort_perm. exact P.
Qed.

(* distinct tag sets give distinct identities: the identity determines the tags as a set *)
Lemma id_determines_tags name ord name' ord' :
  metric_id name ord = metric_id name' ord' -> name = name' /\ Permutation ord ord'.
Proof.
  unfold metric_id. intros H. inversion H as [[A B]]. split; [reflexivity|].
  rewrite <- (sort_perm ord), <- (sort_perm ord'), B. reflexivity.
Qed.

(* ---------- the key string is injective, for any prefix-free quoting ---------- *)

Section KeyInjective.
Variable q : bytes -> bytes.
Hypothesis q_prefix_free : forall a b x y, q a ++ x = q b ++ y -> a = b /\ x = y.

Lemma tags_string_inj t1 t2 : flat_map (tag_string q) t1 = flat_map (tag_string q) t2 -> t1 = t2.
Proof.
  revert t2. induction t1 as [|[k v] r IH]; intros [|[k' v'] r']; simpl; auto; try discriminate.
  unfold tag_string. simpl. intros H. inversion H as [H1]. clear H.
  rewrite <- !app_assoc in H1. apply q_prefix_free in H1. destruct H1 as [Ek H1]. subst k'.
  simpl in H1. inversion H1 as [H2].
  apply q_prefix_free in H2. destruct H2 as [Ev H2]. subst v'. f_equal. apply IH. exact H2.
Qed.

Lemma key_string_injective i j : key_string q i = key_string q j -> i = j.
Proof.
  destruct i as [n t], j as [n' t']. unfold key_string. simpl. intros H.
  apply q_prefix_free in H. destruct H as [E H]. subst n'. f_equal. apply tags_string_inj. exact H.
Qed.
End KeyInjective.

(* ---------- identity equality test ---------- *)

Lemma tags_eqb_iff a b : tags_eqb a b = true <-> a = b.
Proof.
  revert b. induction a as [|[k v] a IH]; intros [|[k' v'] b]; simpl; split; try discriminate; auto.
  - unfold tag_eqb. simpl. intros H. apply andb_true_iff in H. destruct H as [H H3].
    apply andb_true_iff in H. destruct H as [H1 H2].
    apply bytes_eqb_iff in H1, H2. apply IH in H3. subst. reflexivity.
  - intros H. inversion H; subst. unfold tag_eqb. simpl. rewrite !bytes_eqb_refl. simpl. apply IH. reflexivity.
Qed.

Lemma ident_eqb_iff a b : ident_eqb a b = true <-> a = b.
Proof.
  destruct a as [n t], b as [n' t']. unfold ident_eqb. simpl. rewrite andb_true_iff, bytes_eqb_iff, tags_eqb_iff.
  split; [intros [A B]; subst; reflexivity | intros H; inversion H; auto].
Qed.

Lemma ident_eqb_refl a : ident_eqb a a = true.
Proof. apply ident_eqb_iff. reflexivity. Qed.

Lemma ident_eqb_neq a b : a <> b -> ident_eqb a b = false.
Proof. intros H. destruct (ident_eqb a b) eqn:E; [apply ident_eqb_iff in E; contradiction | reflexivity]. Qed.

(* ---------- counters ---------- *)

Open Scope Z_scope.

Definition contrib (i : ident) (o : cop) : Z := if ident_eqb (cop_id o) i then cop_amount o else 0.
Definition count_for (i : ident) (ops : list cop) : Z := fold_right (fun o a => contrib i o + a) 0 ops.

Lemma find_update {A} (i j : ident) (f : A -> A) d (r : registry A) :
  reg_find i (reg_update j f d r) =
  if ident_eqb i j then Some (f (match reg_find j r with Some a => a | None => d end)) else reg_find i r.
Proof.
  induction r as [|[k a] r IH]; simpl.
  - destruct (ident_eqb i j); reflexivity.
  - destruct (ident_eqb j k) eqn:JK.
    + apply ident_eqb_iff in JK. subst k. simpl. destruct (ident_eqb i j); reflexivity.
    + simpl. destruct (ident_eqb i k) eqn:IK.
      * apply ident_eqb_iff in IK. subst k.
        destruct (ident_eqb i j) eqn:IJ; [|reflexivity].
        apply ident_eqb_iff in IJ. subst. rewrite ident_eqb_refl in JK. discriminate.
      * exact IH.
Qed.

Lemma cstep_value i r o : cvalue i (cstep r o) = cvalue i r + contrib i o.
Proof.
  unfold cvalue, cstep, contrib. rewrite find_update.
  destruct (ident_eqb i (cop_id o)) eqn:E.
  - apply ident_eqb_iff in E. subst i. rewrite ident_eqb_refl. destruct (reg_find (cop_id o) r); lia.
  - assert (E' : ident_eqb (cop_id o) i = false).
    { apply ident_eqb_neq. intros H. subst. rewrite ident_eqb_refl in E. discriminate. }
    rewrite E'. lia.
Qed.

Lemma crun_value_from i ops r : cvalue i (fold_left cstep ops r) = cvalue i r + count_for i ops.
Proof.
  revert r. induction ops as [|o ops IH]; intros r; simpl; [lia|]. rewrite IH, cstep_value. lia.
Qed.

(* a counter's value equals the increments applied to its identity *)
Lemma counter_exact i ops : cvalue i (crun ops) = count_for i ops.
Proof. unfold crun. rewrite crun_value_from. unfold cvalue. simpl. lia. Qed.

Lemma count_for_perm i ops ops' : Permutation ops ops' -> count_for i ops = count_for i ops'.
Proof. induction 1; simpl; lia. Qed.

(* ... whatever the interleaving of the atomic increments: only the multiset of operations matters *)
Lemma counter_interleaving i ops ops' : Permutation ops ops' -> cvalue i (crun ops) = cvalue i (crun ops').
Proof. intros P. rewrite !counter_exact. apply count_for_perm. exact P. Qed.

(* ---------- histograms ---------- *)

Definition sumZ (l : list Z) : Z := fold_right Z.add 0 l.

Lemma bump_sum v bs cs cs' : bump_bucket v bs cs = Some cs' -> sumZ cs' = sumZ cs + 1 /\ length cs' = length cs.
Proof.
  revert cs cs'. induction bs as [|b bs IH]; intros [|c cs] cs'; simpl; try discriminate.
  destruct (PrimFloat.leb v b).
  - intros H; inversion H; subst. simpl. split; [lia | reflexivity].
  - destruct (bump_bucket v bs cs) as [r|] eqn:E; [|discriminate]. intros H; inversion H; subst.
    destruct (IH _ _ E) as [A B]. simpl. split; [lia | congruence].
Qed.

Definition hist_ok (h : hist) (n : Z) : Prop := hcount h = n /\ sumZ (counts h) + overflow h = n.

Lemma observe_ok h n v : hist_ok h n -> hist_ok (observe h v) (n + 1).
Proof.
  intros [A B]. unfold observe. destruct (bump_bucket v (buckets h) (counts h)) as [cs|] eqn:E; unfold hist_ok; simpl.
  - destruct (bump_sum _ _ _ _ E) as [S _]. lia.
  - lia.
Qed.

Lemma sumZ_zero {A} (l : list A) : sumZ (map (fun _ => 0) l) = 0.
Proof. induction l; simpl; lia. Qed.

Lemma observe_all_ok vals h n : hist_ok h n -> hist_ok (fold_left observe vals h) (n + Z.of_nat (length vals)).
Proof.
  revert h n. induction vals as [|v r IH]; intros h n H; simpl length.
  - simpl. replace (n + 0) with n by lia. exact H.
  - simpl fold_left. replace (n + Z.of_nat (S (length r))) with ((n + 1) + Z.of_nat (length r)) by lia.
    apply IH. apply observe_ok. exact H.
Qed.

(* a histogram reports exactly as many observations as were made, and its buckets account for all of them *)
Lemma hist_exact bs vals :
  let h := fold_left observe vals (hist_new bs) in
  hcount h = Z.of_nat (length vals) /\ sumZ (counts h) + overflow h = Z.of_nat (length vals).
Proof.
  intros h. assert (H0 : hist_ok (hist_new bs) 0).
  { unfold hist_ok, hist_new. simpl. rewrite sumZ_zero. lia. }
  pose proof (observe_all_ok vals _ _ H0) as H. simpl in H. exact H.
Qed.

Lemma observe_sum h v : hsum (observe h v) = PrimFloat.add (hsum h) v.
Proof. unfold observe. destruct (bump_bucket v (buckets h) (counts h)); reflexivity. Qed.

(* the sum is the left-to-right float sum of the observations *)
Lemma hist_sum bs vals :
  hsum (fold_left observe vals (hist_new bs)) = fold_left PrimFloat.add vals zero.
Proof.
  assert (G : forall h, hsum (fold_left observe vals h) = fold_left PrimFloat.add vals (hsum h)).
  { induction vals as [|v r IH]; intros h; simpl; [reflexivity|]. rewrite IH, observe_sum. reflexivity. }
  rewrite G. reflexivity.
Qed.

(* percentile index is monotone in the target *)
Lemma first_reach_ge t cs : forall j z b, first_reach t z cs j = Some b -> (j <= b)%nat.
Proof.
  induction cs as [|c r IH]; intros j z b; simpl; [discriminate|].
  destruct (z + c >=? t); [intros H; inversion H; lia | intros H; apply IH in H; lia].
Qed.

Lemma first_reach_lt t cs : forall j z b, first_reach t z cs j = Some b -> (b < j + length cs)%nat.
Proof.
  induction cs as [|c r IH]; intros j z b; simpl; [discriminate|].
  destruct (z + c >=? t); [intros H; inversion H; lia | intros H; apply IH in H; lia].
Qed.

Lemma first_reach_mono t t' cs : t <= t' ->
  forall cum i b, first_reach t' cum cs i = Some b -> exists a, first_reach t cum cs i = Some a /\ (a <= b)%nat.
Proof.
  intros Ht. induction cs as [|c r IH]; intros cum i b; simpl; [discriminate|].
  destruct (cum + c >=? t') eqn:E'.
  - intros H; inversion H; subst. assert (E : (cum + c >=? t) = true) by lia. rewrite E. exists b. split; [reflexivity | lia].
  - intros H. destruct (cum + c >=? t) eqn:E.
    + exists i. split; [reflexivity|]. apply first_reach_ge in H. lia.
    + apply IH. exact H.
Qed.

Lemma first_reach_total t cs : forall cum i, t <= cum + sumZ cs -> cs <> [] -> exists a, first_reach t cum cs i = Some a.
Proof.
  induction cs as [|c r IH]; intros cum i H NE; [congruence|]. simpl in *.
  destruct (cum + c >=? t) eqn:E; [eauto|]. destruct r as [|c' r'].
  - simpl in H. lia.
  - apply IH; [simpl in *; lia | discriminate].
Qed.

(* ascending bounds: every earlier bound is <= every later one (and each is <= itself: no NaN) *)
Fixpoint asc (l : list float) : bool :=
  match l with
  | [] => true
  | x :: r => PrimFloat.leb x x && forallb (PrimFloat.leb x) r && asc r
  end.

Lemma asc_nth l d a b : asc l = true -> (a <= b < length l)%nat -> PrimFloat.leb (nth a l d) (nth b l d) = true.
Proof.
  revert a b. induction l as [|x r IH]; intros a b H L; simpl in L; [lia|].
  simpl in H. apply andb_true_iff in H. destruct H as [H H3]. apply andb_true_iff in H. destruct H as [H1 H2].
  destruct a as [|a], b as [|b]; simpl; try lia; auto.
  - rewrite forallb_forall in H2. apply H2. apply nth_In. lia.
  - apply IH; [exact H3 | lia].
Qed.

Lemma observe_len h v : length (counts h) = length (buckets h) ->
  length (counts (observe h v)) = length (buckets (observe h v)).
Proof.
  intros L. unfold observe. destruct (bump_bucket v (buckets h) (counts h)) as [cs|] eqn:E; simpl; [|exact L].
  destruct (bump_sum _ _ _ _ E) as [_ L']. congruence.
Qed.

Lemma observe_all_len vals h : length (counts h) = length (buckets h) ->
  length (counts (fold_left observe vals h)) = length (buckets (fold_left observe vals h)).
Proof. revert h. induction vals as [|v r IH]; intros h L; simpl; [exact L|]. apply IH. apply observe_len. exact L. Qed.

Definition bound_at (h : hist) (i : nat) : float := nth i (buckets h) (last_bucket h).

(* percentiles never decrease as the target grows (targets within the number of observations) *)
Lemma percentile_monotone bs vals t t' :
  let h := fold_left observe vals (hist_new bs) in
  asc (buckets h ++ [last_bucket h]) = true ->
  t <= t' <= hcount h ->
  PrimFloat.leb (percentile_at h t) (percentile_at h t') = true.
Proof.
  intros h A [Ht Ht']. destruct (hist_exact bs vals) as [C S]. fold h in C, S.
  unfold percentile_at. destruct (hcount h =? 0) eqn:Z0; [reflexivity|].
  assert (SS' : forall l o, sumZ (l ++ [o]) = sumZ l + o) by (induction l; intros; simpl; [lia | rewrite IHl; lia]).
  assert (SS : sumZ (counts h ++ [overflow h]) = hcount h) by (rewrite SS'; lia).
  assert (NE : counts h ++ [overflow h] <> []) by (destruct (counts h); discriminate).
  destruct (first_reach_total t' (counts h ++ [overflow h]) 0 0%nat) as [b Hb]; [rewrite SS'; lia | exact NE|].
  destruct (first_reach_mono t t' _ Ht _ _ _ Hb) as [a [Ha Lab]]. rewrite Ha, Hb.
  assert (LB : (b < length (counts h ++ [overflow h]))%nat) by (apply first_reach_lt in Hb; lia).
  assert (LEN : length (counts h) = length (buckets h)) by (apply observe_all_len; unfold hist_new; simpl; apply map_length).
  rewrite app_length in LB. simpl in LB.
  assert (V : forall i, (i <= length (buckets h))%nat -> nth i (buckets h) (last_bucket h) = nth i (buckets h ++ [last_bucket h]) zero).
  { intros i Hi. destruct (Nat.eq_dec i (length (buckets h))) as [E|E].
    - subst i. rewrite nth_overflow by lia. rewrite app_nth2 by lia. rewrite Nat.sub_diag. reflexivity.
    - rewrite app_nth1 by lia. apply nth_indep. lia. }
  rewrite (V a) by lia. rewrite (V b) by lia. apply asc_nth; [exact A|]. rewrite app_length. simpl. lia.
Qed.

(* ---------- the monitor's totals ---------- *)

Lemma cop_id_name o : fst (cop_id o) = match o with CInc n _ => n | CAdd n _ _ => n end.
Proof. destruct o; reflexivity. Qed.

Definition named_contrib (name : bytes) (o : cop) : Z := if bytes_eqb (fst (cop_id o)) name then cop_amount o else 0.

Lemma total_named_from name r a :
  fold_left (fun a x => if bytes_eqb (fst (fst x)) name then a + snd x else a) r a =
  a + total_named name r.
Proof.
  unfold total_named. revert a. induction r as [|x r IH]; intros a; simpl; [lia|].
  destruct (bytes_eqb (fst (fst x)) name).
  - rewrite (IH (a + snd x)), (IH (snd x)). lia.
  - rewrite (IH a). reflexivity.
Qed.

Lemma total_named_cons name (x : ident * Z) r :
  total_named name (x :: r) = (if bytes_eqb (fst (fst x)) name then snd x else 0) + total_named name r.
Proof.
  unfold total_named at 1. simpl. rewrite total_named_from. reflexivity.
Qed.

Lemma total_update name r o : total_named name (cstep r o) = total_named name r + named_contrib name o.
Proof.
  unfold cstep, named_contrib. induction r as [|[k a] r IH]; simpl.
  - rewrite total_named_cons. simpl. unfold total_named. simpl. destruct (bytes_eqb (fst (cop_id o)) name); lia.
  - destruct (ident_eqb (cop_id o) k) eqn:E.
    + apply ident_eqb_iff in E. subst k. rewrite !total_named_cons. simpl.
      destruct (bytes_eqb (fst (cop_id o)) name); lia.
    + rewrite !total_named_cons. simpl. rewrite IH. lia.
Qed.

Lemma total_run name ops r :
  total_named name (fold_left cstep ops r) = total_named name r + fold_right (fun o a => named_contrib name o + a) 0 ops.
Proof.
  revert r. induction ops as [|o ops IH]; intros r; simpl; [lia|]. rewrite IH, total_update. lia.
Qed.

Definition countb {A} (f : A -> bool) (l : list A) : Z := Z.of_nat (length (filter f l)).
Definition is_search (o : mop) := match o with MSearch _ => true | _ => false end.
Definition is_hit (o : mop) := match o with MSearch true => true | _ => false end.
Definition is_db (o : mop) := match o with MDb _ _ _ => true | _ => false end.

Lemma monitor_sum name ops :
  total_named name (mrun ops) =
  fold_right (fun o a => fold_right (fun c b => named_contrib name c + b) 0 (mop_cops o) + a) 0 ops.
Proof.
  unfold mrun, crun. rewrite total_run. unfold total_named at 1. simpl.
  induction ops as [|o ops IH]; simpl; [reflexivity|].
  rewrite fold_right_app. rewrite <- IH. clear IH.
  generalize (fold_right (fun o0 a => named_contrib name o0 + a) 0 (flat_map mop_cops ops)). intros z.
  induction (mop_cops o) as [|c r IH]; simpl; lia.
Qed.

Lemma countb_cons {A} (f : A -> bool) x l : countb f (x :: l) = (if f x then 1 else 0) + countb f l.
Proof. unfold countb. simpl. destruct (f x); simpl length; lia. Qed.

Definition mop_contrib (name : bytes) (o : mop) : Z :=
  fold_right (fun c b => named_contrib name c + b) 0 (mop_cops o).

Lemma contrib_searches o : mop_contrib n_searches_total o = if is_search o then 1 else 0.
Proof. destruct o as [[|]|op ok sw]; vm_compute; reflexivity. Qed.
Lemma contrib_hits o : mop_contrib n_cache_hits_total o = if is_hit o then 1 else 0.
Proof. destruct o as [[|]|op ok sw]; vm_compute; reflexivity. Qed.
Lemma contrib_misses o : mop_contrib n_cache_misses_total o = if is_search o then (if is_hit o then 0 else 1) else 0.
Proof. destruct o as [[|]|op ok sw]; vm_compute; reflexivity. Qed.
Lemma contrib_db o : mop_contrib n_db_ops_total o = if is_db o then 1 else 0.
Proof. destruct o as [[|]|op ok sw]; vm_compute; reflexivity. Qed.

(* per-search and per-operation totals equal the number of operations recorded *)
Lemma monitor_totals ops :
  total_named n_searches_total (mrun ops) = countb is_search ops /\
  total_named n_cache_hits_total (mrun ops) + total_named n_cache_misses_total (mrun ops) = countb is_search ops /\
  total_named n_cache_hits_total (mrun ops) = countb is_hit ops /\
  total_named n_db_ops_total (mrun ops) = countb is_db ops.
Proof.
  rewrite !monitor_sum. induction ops as [|o ops [A [B [C D]]]]; [repeat split; reflexivity|].
  rewrite !countb_cons. cbn [fold_right].
  fold (mop_contrib n_searches_total o) (mop_contrib n_cache_hits_total o)
       (mop_contrib n_cache_misses_total o) (mop_contrib n_db_ops_total o).
  rewrite contrib_searches, contrib_hits, contrib_misses, contrib_db.
  destruct o as [[|]|op ok sw]; simpl is_search; simpl is_hit; simpl is_db; cbv iota; repeat split; lia.
Qed.
