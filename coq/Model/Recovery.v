(* Model of internal/recovery SearchRecovery.RecoverFromSearchFailure (the CLI's last-resort search): three substring
   strategies tried in order, the first non-empty answer wins. Executable definitions only.
   Unicode lower-casing is an oracle: the lower-cased query and the entries' cached lower-cased fields are data. *)
From Coq Require Import List NArith ZArith Bool Floats.
From WTF Require Import Model.Validate Model.Text Model.Engine.
Import ListNotations.

Record rentry := { re_cmd_lc : bytes; re_desc_lc : bytes }.

(* strings.Fields on the (already lower-cased) query: maximal runs of non-space runes *)
Fixpoint fields_toks (cur : list tok) (ts : list tok) : list bytes :=
  match ts with
  | [] => match cur with [] => [] | _ => [flat (rev cur)] end
  | t :: r => if is_space t then (match cur with [] => fields_toks [] r | _ => flat (rev cur) :: fields_toks [] r end)
              else fields_toks (t :: cur) r
  end.
Definition fields (s : bytes) : list bytes := fields_toks [] (decode s).

Definition pick (keep : rentry -> bool) (score : float) (db : list rentry) : list (nat * float) :=
  map (fun ie => (fst ie, score)) (filter (fun ie => keep (snd ie)) (enumerate 0 db)).

Definition basic_keyword (qlc : bytes) (db : list rentry) := pick (fun e => contains (re_cmd_lc e) qlc) 1%float db.

Definition single_word (qlc : bytes) (db : list rentry) : option (list (nat * float)) :=
  match fields qlc with
  | [] => None                       (* "no words in query": the strategy fails *)
  | w :: _ => Some (pick (fun e => contains (re_cmd_lc e) w || contains (re_desc_lc e) w) 0x1.999999999999ap-1%float db)
  end.

Definition partial_match (qlc : bytes) (db : list rentry) :=
  pick (fun e => existsb (fun w => Nat.leb 2 (length w) && (contains (re_cmd_lc e) w || contains (re_desc_lc e) w)) (fields qlc))
       0x1.3333333333333p-1%float db.

(* None: every strategy came back empty (the code returns an error then) *)
Definition recover (qlc : bytes) (db : list rentry) : option (list (nat * float)) :=
  match basic_keyword qlc db with
  | (_ :: _) as r => Some r
  | [] => match single_word qlc db with
          | Some ((_ :: _) as r) => Some r
          | _ => match partial_match qlc db with
                 | (_ :: _) as r => Some r
                 | [] => None
                 end
          end
  end.
