(* Model of the inverted index of search_universal.go (BuildUniversalIndex / indexCommand /
   calculateInitialScores): the data structure the engine actually consults.
     postings : term -> list of (document, per-field term frequencies), in document order
     df t     = number of postings of t
     lens     : per-document field lengths;  avg : their averages
   Model/Engine.v recomputes the same quantities from the command texts (an exhaustive scan);
   Proofs/IndexProofs.v proves the two agree. *)
From Coq Require Import List NArith ZArith Bool Floats.
From WTF Require Import Model.Validate Model.Text Model.Platform Model.Engine.
Import ListNotations.

Record posting := { p_doc : nat; p_tf : tf4 }.
Record index := { ix_n : nat; ix_post : list (bytes * list posting); ix_lens : list tf4; ix_avg : avg4 }.

Definition tf_zero : tf4 := {| tf_cmd := 0; tf_desc := 0; tf_keys := 0; tf_tags := 0 |}.

(* inc(tok, field) of indexCommand; fields: 0 cmd, 1 desc, 2 keys, 3 tags *)
Definition bump_field (field : nat) (f : tf4) : tf4 :=
  match field with
  | O => {| tf_cmd := tf_cmd f + 1; tf_desc := tf_desc f; tf_keys := tf_keys f; tf_tags := tf_tags f |}
  | S O => {| tf_cmd := tf_cmd f; tf_desc := tf_desc f + 1; tf_keys := tf_keys f; tf_tags := tf_tags f |}
  | S (S O) => {| tf_cmd := tf_cmd f; tf_desc := tf_desc f; tf_keys := tf_keys f + 1; tf_tags := tf_tags f |}
  | _ => {| tf_cmd := tf_cmd f; tf_desc := tf_desc f; tf_keys := tf_keys f; tf_tags := tf_tags f + 1 |}
  end%Z.

Fixpoint bump_tf (field : nat) (t : bytes) (m : list (bytes * tf4)) : list (bytes * tf4) :=
  match m with
  | [] => [(t, bump_field field tf_zero)]
  | (t', f) :: r => if bytes_eqb t t' then (t', bump_field field f) :: r else (t', f) :: bump_tf field t r
  end.

Definition add_tokens (field : nat) (toks : list bytes) (m : list (bytes * tf4)) : list (bytes * tf4) :=
  fold_left (fun m t => bump_tf field t m) toks m.

(* termFreqs of indexCommand *)
Definition doc_tfmap (E : env) (c : command) : list (bytes * tf4) :=
  add_tokens 3 (tags_tokens E c) (add_tokens 2 (keys_tokens E c) (add_tokens 1 (desc_tokens E c) (add_tokens 0 (cmd_tokens E c) []))).

(* idx.postings[term] = append(idx.postings[term], posting{docID, tf}) *)
Fixpoint add_posting (t : bytes) (p : posting) (post : list (bytes * list posting)) : list (bytes * list posting) :=
  match post with
  | [] => [(t, [p])]
  | (t', l) :: r => if bytes_eqb t t' then (t', l ++ [p]) :: r else (t', l) :: add_posting t p r
  end.

Definition add_doc (i : nat) (tfm : list (bytes * tf4)) (post : list (bytes * list posting)) : list (bytes * list posting) :=
  fold_left (fun post kv => add_posting (fst kv) {| p_doc := i; p_tf := snd kv |} post) tfm post.

Definition build_postings (E : env) (cmds : list command) : list (bytes * list posting) :=
  fold_left (fun post ic => add_doc (fst ic) (doc_tfmap E (snd ic)) post) (enumerate 0 cmds) [].

Definition build_index (E : env) (cmds : list command) : index :=
  {| ix_n := length cmds; ix_post := build_postings E cmds;
     ix_lens := map (doc_lens E) cmds; ix_avg := avg_lens E cmds |}.

Fixpoint lookup_post (t : bytes) (post : list (bytes * list posting)) : list posting :=
  match post with
  | [] => []
  | (t', l) :: r => if bytes_eqb t t' then l else lookup_post t r
  end.

Definition ix_df (ix : index) (t : bytes) : Z := Z.of_nat (length (lookup_post t (ix_post ix))).

Definition find_posting (i : nat) (l : list posting) : option posting := find (fun p => Nat.eqb (p_doc p) i) l.

(* what the accumulator holds for document i after all terms were processed through the index *)
Definition ix_doc_score (E : env) (ix : index) (tb : list (bytes * float)) (terms : list bytes) (i : nat) : option float :=
  fold_left (fun acc t =>
      match find_posting i (lookup_post t (ix_post ix)) with
      | Some p =>
          let idf := e_idf E (Z.of_nat (ix_n ix)) (ix_df ix t) in
          if PrimFloat.ltb idf (p_min_idf (e_params E)) then acc
          else let add := ((idf * boost_of tb t) * term_bm25f (e_params E) (ix_avg ix) (nth i (ix_lens ix) tf_zero) (p_tf p))%float in
               Some (match acc with Some s => s + add | None => 0 + add end)%float
      | None => acc
      end) terms None.

(* calculateInitialScores over the index, collected in document order *)
Definition index_scores (E : env) (ix : index) (cmds : list command) (o : options) (nl : option nlp_info) (terms : list bytes)
  : list (nat * float) :=
  let tb := term_boosts o nl in
  flat_map (fun ic => let '(i, c) := ic in
     if eligible E o c then match ix_doc_score E ix tb terms i with Some s => [(i, s)] | None => [] end else [])
     (enumerate 0 cmds).

(* ---------- a database as a state machine: which command list each structure was built from ---------- *)

Record dbstate := {
  st_cmds : list command;        (* Database.Commands *)
  st_index_from : list command;  (* what the inverted index was built from *)
  st_tfidf_from : list command   (* what the TF-IDF searcher and the pointer map were built from *)
}.

Inductive dbop :=
| DLoad (main : list command)                          (* LoadDatabase *)
| DLoadPersonal (main personal : list command)         (* LoadDatabaseWithPersonal: main entries then notebook entries *)
| DUpdate (cmds : list command)                        (* CachedDatabase.UpdateDatabase *)
| DAppend (more : list command).                       (* direct growth of Commands *)

Definition fresh (cmds : list command) : dbstate := {| st_cmds := cmds; st_index_from := cmds; st_tfidf_from := cmds |}.

Definition db_step (s : dbstate) (o : dbop) : dbstate :=
  match o with
  | DLoad m => fresh m
  | DLoadPersonal m p => fresh (m ++ p)
  | DUpdate cs => fresh cs                               (* rebuilds the index AND the TF-IDF searcher *)
  | DAppend more => {| st_cmds := st_cmds s ++ more; st_index_from := st_index_from s; st_tfidf_from := st_tfidf_from s |}
  end.

(* SearchUniversal's lazy check: rebuild both structures when the index size differs from the command count *)
Definition before_search (s : dbstate) : dbstate :=
  if Nat.eqb (length (st_index_from s)) (length (st_cmds s)) then s else fresh (st_cmds s).

(* the HEAD-shaped update, kept to show the defect the repair removed: only the index was rebuilt *)
Definition db_step_head (s : dbstate) (o : dbop) : dbstate :=
  match o with
  | DUpdate cs => {| st_cmds := cs; st_index_from := cs; st_tfidf_from := st_tfidf_from s |}
  | _ => db_step s o
  end.
