(* Model of database.SearchUniversal (search_universal.go, cascading_boost.go, search.go:
   performFuzzySearch) over binary64 scores (Coq primitive floats = Go float64 on amd64).
   Written scan-style: term frequencies, document frequencies and lengths are recomputed from
   the command texts (Model/Index.v models the inverted index and proves it equal to this).
   Oracles (values the real code computed for this run, see [env]): math.Log inside bm25IDF,
   the NLP analysis of the query, the per-document NLP multipliers, the TF-IDF ranking and the
   raw scores of the third-party fuzzy matcher. *)
From Coq Require Import List NArith ZArith Bool Floats.
From WTF Require Import Model.Validate Model.Text Model.Platform.
Import ListNotations.

Record command := {
  c_cmd : bytes; c_desc : bytes; c_keys : list bytes; c_tags : list bytes; c_niche : bytes;
  c_platform : list bytes; c_pipeline : bool;
  c_cmd_l : bytes; c_desc_l : bytes; c_keys_l : list bytes; c_tags_l : list bytes;   (* cached lower-cased fields as held *)
  c_cmd_lc : bytes                                                                   (* strings.ToLower(Command) *)
}.

Record options := {
  o_limit : Z; o_boosts : list (bytes * float); o_pipeline_only : bool; o_pipeline_boost : float;
  o_fuzzy : bool; o_threshold : Z; o_nlp : bool; o_terms_cap : Z;
  o_all_platforms : bool; o_platforms : list bytes; o_no_cross : bool
}.

Record params := { p_k1 : float; p_b : float * float * float * float; p_w : float * float * float * float; p_min_idf : float }.

(* what the NLP stage contributes for one query (oracle unless modelled elsewhere) *)
Record nlp_info := {
  n_actions : list bytes; n_targets : list bytes; n_enhanced : list bytes;
  n_intent_boost : list float;      (* per document: calculateIntentBoost *)
  n_cooccur : list bool;            (* per document: action and target both occur in command+description *)
  n_cascade : list float;           (* per document: calculateBoostForCommand *)
  n_tfidf : option (list (Z * float))   (* TF-IDF ranking of the whole database (None: no searcher) *)
}.

Record env := {
  e_stop : list bytes;              (* stop words *)
  e_tools : list bytes;             (* recognised cross-platform tools *)
  e_host : bytes;                   (* getCurrentPlatform() *)
  e_params : params;
  e_idf : Z -> Z -> float;          (* bm25IDF(n, df): math.Log oracle *)
  e_fuzzy : list (option Z)         (* per document: raw score of the fuzzy matcher for this query, None = no match *)
}.

Definition result := list (nat * float).

(* ---------- tokens of a document ---------- *)

Definition pick (raw cached : bytes) : bytes := match cached with [] => raw | _ => cached end.
Definition pick_list (raw cached : list bytes) : bytes :=
  match cached with [] => (match raw with [] => [] | _ => join_sp raw end) | _ => join_sp cached end.

Definition cmd_tokens (E : env) (c : command) := tokenize (e_stop E) (pick (c_cmd c) (c_cmd_l c)).
Definition desc_tokens (E : env) (c : command) := tokenize (e_stop E) (pick (c_desc c) (c_desc_l c)).
Definition keys_tokens (E : env) (c : command) := tokenize (e_stop E) (pick_list (c_keys c) (c_keys_l c)).
Definition tags_tokens (E : env) (c : command) := tokenize (e_stop E) (pick_list (c_tags c) (c_tags_l c)).

Definition count_tok (t : bytes) (l : list bytes) : Z := Z.of_nat (length (filter (bytes_eqb t) l)).

Record tf4 := { tf_cmd : Z; tf_desc : Z; tf_keys : Z; tf_tags : Z }.
Definition doc_tf (E : env) (c : command) (t : bytes) : tf4 :=
  {| tf_cmd := count_tok t (cmd_tokens E c); tf_desc := count_tok t (desc_tokens E c);
     tf_keys := count_tok t (keys_tokens E c); tf_tags := count_tok t (tags_tokens E c) |}.
Definition tf_any (f : tf4) : bool := ((tf_cmd f >? 0) || (tf_desc f >? 0) || (tf_keys f >? 0) || (tf_tags f >? 0))%Z.

Definition doc_lens (E : env) (c : command) : tf4 :=
  {| tf_cmd := Z.of_nat (length (cmd_tokens E c)); tf_desc := Z.of_nat (length (desc_tokens E c));
     tf_keys := Z.of_nat (length (keys_tokens E c)); tf_tags := Z.of_nat (length (tags_tokens E c)) |}.

Definition df (E : env) (cmds : list command) (t : bytes) : Z :=
  Z.of_nat (length (filter (fun c => tf_any (doc_tf E c t)) cmds)).

Definition f_of_Z (z : Z) : float :=
  if (z <? 0)%Z then PrimFloat.opp (PrimFloat.of_uint63 (Uint63.of_Z (- z))) else PrimFloat.of_uint63 (Uint63.of_Z z).

Definition sum_lens (E : env) (cmds : list command) : tf4 :=
  fold_left (fun a c => let l := doc_lens E c in
     {| tf_cmd := tf_cmd a + tf_cmd l; tf_desc := tf_desc a + tf_desc l; tf_keys := tf_keys a + tf_keys l; tf_tags := tf_tags a + tf_tags l |}%Z)
     cmds {| tf_cmd := 0; tf_desc := 0; tf_keys := 0; tf_tags := 0 |}.

Record avg4 := { av_cmd : float; av_desc : float; av_keys : float; av_tags : float }.
Definition avg_lens (E : env) (cmds : list command) : avg4 :=
  let s := sum_lens E cmds in let n := f_of_Z (Z.of_nat (length cmds)) in
  {| av_cmd := f_of_Z (tf_cmd s) / n; av_desc := f_of_Z (tf_desc s) / n; av_keys := f_of_Z (tf_keys s) / n; av_tags := f_of_Z (tf_tags s) / n |}%float.

(* ---------- BM25F ---------- *)

Definition field_bm25 (k1 tf dl avgdl w b : float) : float :=
  let avgdl := if PrimFloat.leb avgdl 0 then 1%float else avgdl in
  let norm := ((1 - b) + b * (dl / avgdl))%float in
  let tfw := (w * tf)%float in
  ((tfw * (k1 + 1)) / (tfw + k1 * norm))%float.

Definition term_bm25f (P : params) (av : avg4) (lens tf : tf4) : float :=
  let '(b1, b2, b3, b4) := p_b P in let '(w1, w2, w3, w4) := p_w P in
  let s := 0%float in
  let s := if (tf_cmd tf >? 0)%Z then (s + field_bm25 (p_k1 P) (f_of_Z (tf_cmd tf)) (f_of_Z (tf_cmd lens)) (av_cmd av) w1 b1)%float else s in
  let s := if (tf_desc tf >? 0)%Z then (s + field_bm25 (p_k1 P) (f_of_Z (tf_desc tf)) (f_of_Z (tf_desc lens)) (av_desc av) w2 b2)%float else s in
  let s := if (tf_keys tf >? 0)%Z then (s + field_bm25 (p_k1 P) (f_of_Z (tf_keys tf)) (f_of_Z (tf_keys lens)) (av_keys av) w3 b3)%float else s in
  let s := if (tf_tags tf >? 0)%Z then (s + field_bm25 (p_k1 P) (f_of_Z (tf_tags tf)) (f_of_Z (tf_tags lens)) (av_tags av) w4 b4)%float else s in
  s.

(* ---------- filters ---------- *)

Definition pipeline_cmd (c : command) : bool := is_pipeline (c_pipeline c) (c_cmd c) (c_cmd_lc c).

Definition eligible (E : env) (o : options) (c : command) : bool :=
  platform_ok (e_tools E) (e_host E) (o_all_platforms o) (o_no_cross o) (o_platforms o) (c_platform c) (c_cmd_lc c) &&
  (negb (o_pipeline_only o) || pipeline_cmd c).

(* ---------- term selection ---------- *)

Fixpoint dedup (seen : list bytes) (l : list bytes) : list bytes :=
  match l with
  | [] => []
  | x :: r => if mem_bytes x seen then dedup seen r else x :: dedup (x :: seen) r
  end.

(* stable insertion sort, descending by key (sort.SliceStable with less = key i > key j):
   an element is inserted, from the right, before the first element that is not strictly greater;
   so equal keys keep their original order *)
Section StableSort.
Context {A : Type}.
Variable key : A -> float.
Fixpoint insert_desc (x : A) (l : list A) : list A :=
  match l with
  | [] => [x]
  | y :: r => if PrimFloat.ltb (key x) (key y) then y :: insert_desc x r else x :: l
  end.
Definition sort_desc (l : list A) : list A := fold_right insert_desc [] l.
End StableSort.

Fixpoint index_terms (i : nat) (l : list bytes) : list (nat * bytes) :=
  match l with [] => [] | x :: r => (i, x) :: index_terms (S i) r end.

(* scoreTerms: distinct terms with their idf; the first [preserve] positions are "original";
   a term unknown to the index is kept only if original *)
Fixpoint score_terms (E : env) (cmds : list command) (preserve : nat) (seen : list bytes) (l : list (nat * bytes))
  : list (bytes * float * bool) :=
  match l with
  | [] => []
  | (i, t) :: r =>
      if mem_bytes t seen then score_terms E cmds preserve seen r
      else let d := df E cmds t in
           let orig := Nat.ltb i preserve in
           if (d =? 0)%Z then (if orig then (t, 1%float, true) :: score_terms E cmds preserve (t :: seen) r
                               else score_terms E cmds preserve (t :: seen) r)
           else (t, e_idf E (Z.of_nat (length cmds)) d, orig) :: score_terms E cmds preserve (t :: seen) r
  end.

Definition term_of (x : bytes * float * bool) : bytes := fst (fst x).
Definition idf_of (x : bytes * float * bool) : float := snd (fst x).

(* selectTopTerms / filterAndSortTerms *)
Definition select_top_terms (E : env) (cmds : list command) (terms : list bytes) (cap : Z) : list bytes :=
  if (cap <=? 0)%Z || (Z.of_nat (length terms) <=? cap)%Z then terms
  else
    let lst := score_terms E cmds (Nat.min 4 (length terms)) [] (index_terms 0 terms) in
    if (Z.of_nat (length lst) <=? cap)%Z then map term_of lst
    else
      let originals := filter (fun x => snd x) lst in
      let enhanced := filter (fun x => negb (snd x)) lst in
      let out := map term_of originals in
      let remaining := (cap - Z.of_nat (length out))%Z in
      if (remaining >? 0)%Z
      then out ++ map term_of (firstn (Z.to_nat remaining) (sort_desc idf_of enhanced))
      else out.

(* ---------- per-term boosts ---------- *)

Fixpoint assoc_f (k : bytes) (l : list (bytes * float)) : option float :=
  match l with
  | [] => None
  | (k', v) :: r => if bytes_eqb k k' then Some v else assoc_f k r
  end.

Fixpoint set_min (k : bytes) (m : float) (l : list (bytes * float)) : list (bytes * float) :=
  match l with
  | [] => [(k, m)]
  | (k', v) :: r => if bytes_eqb k k' then (k', if PrimFloat.ltb v m then m else v) :: r else (k', v) :: set_min k m r
  end.

Definition term_boosts (o : options) (nl : option nlp_info) : list (bytes * float) :=
  match nl with
  | None => o_boosts o
  | Some n =>
      let b := fold_left (fun acc a => set_min a 2%float acc) (n_actions n) (o_boosts o) in
      fold_left (fun acc t => set_min t 0x1.999999999999ap+0%float acc) (n_targets n) b     (* 1.6 *)
  end.

Definition boost_of (tb : list (bytes * float)) (t : bytes) : float :=
  match assoc_f t tb with
  | Some b => if PrimFloat.ltb 0 b then b else 1%float
  | None => 1%float
  end.

(* ---------- scoring ---------- *)

(* the accumulator entry of one document: None = no selected term reached it *)
Definition doc_score (E : env) (cmds : list command) (av : avg4) (tb : list (bytes * float))
           (terms : list bytes) (c : command) : option float :=
  let n := Z.of_nat (length cmds) in
  fold_left (fun acc t =>
      let tf := doc_tf E c t in
      if tf_any tf then
        let idf := e_idf E n (df E cmds t) in
        if PrimFloat.ltb idf (p_min_idf (e_params E)) then acc
        else let add := ((idf * boost_of tb t) * term_bm25f (e_params E) av (doc_lens E c) tf)%float in
             Some (match acc with Some s => s + add | None => 0 + add end)%float
      else acc) terms None.

Fixpoint enumerate {A} (i : nat) (l : list A) : list (nat * A) :=
  match l with [] => [] | x :: r => (i, x) :: enumerate (S i) r end.

Definition initial_scores (E : env) (cmds : list command) (o : options) (nl : option nlp_info) (terms : list bytes)
  : list (nat * float) :=
  let av := avg_lens E cmds in
  let tb := term_boosts o nl in
  flat_map (fun ic => let '(i, c) := ic in
     if eligible E o c then match doc_score E cmds av tb terms c with Some s => [(i, s)] | None => [] end else [])
     (enumerate 0 cmds).

(* collectResults: intent boost, co-occurrence, pipeline boost *)
Definition collect (cmds : list command) (o : options) (nl : option nlp_info) (sc : list (nat * float)) : list (nat * float) :=
  map (fun is => let '(i, s) := is in
     let s := match nl with
              | Some n => let s := (s * nth i (n_intent_boost n) 1)%float in
                          if nth i (n_cooccur n) false then (s * 0x1.3333333333333p+0)%float else s      (* 1.2 *)
              | None => s end in
     let s := match nth_error cmds i with
              | Some c => if pipeline_cmd c && PrimFloat.ltb 0 (o_pipeline_boost o) then (s * o_pipeline_boost o)%float else s
              | None => s end in
     (i, s)) sc.

Definition by_score (x : nat * float) : float := snd x.

(* rerankWithNLP: window, blend, re-sort; the result IS the window *)
Definition rerank (o : options) (ranking : list (Z * float)) (rs : list (nat * float)) : list (nat * float) :=
  let lim := (o_limit o * 5)%Z in
  let lim := if (lim <? 10)%Z then 10%Z else lim in
  let top := firstn (Z.to_nat lim) rs in
  let sims := firstn (length top) ranking in
  let blended := map (fun is => let '(i, s) := is in
      match find (fun r => Z.eqb (fst r) (Z.of_nat i)) sims with
      | Some r => (i, (s + (snd r * 0x1.6666666666666p-2) * 100)%float)      (* sim * 0.35 * 100 *)
      | None => (i, s) end) top in
  sort_desc by_score blended.

Definition cascade (n : nlp_info) (rs : list (nat * float)) : list (nat * float) :=
  sort_desc by_score (map (fun is => (fst is, (snd is * nth (fst is) (n_cascade n) 1)%float)) rs).

(* ---------- fuzzy fallback ---------- *)

Definition fuzzy_norm (raw : Z) : float :=
  let v := (f_of_Z (raw + 100) / 100)%float in
  if PrimFloat.ltb v 0 then 0%float else if PrimFloat.ltb 1 v then 1%float else v.

Definition fuzzy_search (E : env) (cmds : list command) (o : options) : list (nat * float) :=
  let cands := flat_map (fun ic => let '(i, c) := ic in
      match nth i (e_fuzzy E) None with
      | Some raw => if eligible E o c && (Z.eqb (o_threshold o) 0 || (o_threshold o <=? raw)%Z) then [(i, raw)] else []
      | None => [] end) (enumerate 0 cmds) in
  let ranked := sort_desc (fun x => f_of_Z (snd x)) cands in
  map (fun x => (fst x, fuzzy_norm (snd x))) (firstn (Z.to_nat (o_limit o)) ranked).

(* ---------- SearchUniversal ---------- *)

Definition eff_limit (o : options) : options :=
  {| o_limit := if (o_limit o <=? 0)%Z then 10%Z else o_limit o; o_boosts := o_boosts o; o_pipeline_only := o_pipeline_only o;
     o_pipeline_boost := o_pipeline_boost o; o_fuzzy := o_fuzzy o; o_threshold := o_threshold o; o_nlp := o_nlp o;
     o_terms_cap := o_terms_cap o; o_all_platforms := o_all_platforms o; o_platforms := o_platforms o; o_no_cross := o_no_cross o |}.

(* enhanceQueryWithNLP: append enhanced keywords not already present while fewer than 8 terms *)
Definition enhance_terms (terms enh : list bytes) : list bytes :=
  fold_left (fun acc e => if mem_bytes e acc then acc else if Nat.ltb (length acc) 8 then acc ++ [e] else acc) enh terms.

Definition query_terms (E : env) (q : bytes) (o : options) (nl : option nlp_info) : list bytes :=
  let terms := tokenize (e_stop E) q in
  match nl with Some n => if o_nlp o then enhance_terms terms (n_enhanced n) else terms | None => terms end.

Definition selected_terms (E : env) (cmds : list command) (q : bytes) (o : options) (nl : option nlp_info) : list bytes :=
  let cap := if (o_terms_cap o <=? 0)%Z then 10%Z else o_terms_cap o in
  select_top_terms E cmds (query_terms E q o nl) cap.

Definition search_universal (E : env) (cmds : list command) (q : bytes) (o0 : options) (nl0 : option nlp_info) : list (nat * float) :=
  let o := eff_limit o0 in
  let nl := if o_nlp o then nl0 else None in
  let terms := query_terms E q o nl in
  match terms with
  | [] => if o_fuzzy o then fuzzy_search E cmds o else []
  | _ =>
    let terms := selected_terms E cmds q o nl in
    match initial_scores E cmds o nl terms with
    | [] => if o_fuzzy o then fuzzy_search E cmds o else []
    | sc =>
      let rs := sort_desc by_score (collect cmds o nl sc) in
      let rs := match nl with
                | Some n => match n_tfidf n with Some ranking => rerank o ranking rs | None => rs end
                | None => rs end in
      let rs := match nl with Some n => (match rs with [] => rs | _ => cascade n rs end) | None => rs end in
      firstn (Z.to_nat (o_limit o)) rs
    end
  end.
