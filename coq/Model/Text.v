(* Model of the engine tokenizer, database.normalizeAndTokenize:
     nlp.NormalizeText ([^\w\s\-.] -> ' ', \s+ -> ' ', trim)  ;  strings.ToLower  ;
     FieldsFunc(not letter, not number)  ;  drop tokens shorter than 2 bytes and stop words.
   After NormalizeText every non-ASCII rune and every invalid byte has become a space, so the
   tokens are exactly the maximal runs of ASCII letters and digits, lower-cased. *)
From Coq Require Import List NArith Bool.
From WTF Require Import Model.Validate.   (* bytes_eqb, inr *)
Import ListNotations.
Open Scope N_scope.

Definition bytes := list N.

Definition is_upper (b : N) : bool := inr 65 90 b.
Definition is_lower (b : N) : bool := inr 97 122 b.
Definition is_digit (b : N) : bool := inr 48 57 b.
Definition is_alnum (b : N) : bool := is_upper b || is_lower b || is_digit b.
Definition lower_byte (b : N) : N := if is_upper b then b + 32 else b.
Definition lower_ascii (s : bytes) : bytes := map lower_byte s.

(* maximal runs of ASCII alphanumerics, lower-cased; [cur] is the current run, reversed *)
Fixpoint runs (cur : bytes) (s : bytes) : list bytes :=
  match s with
  | [] => match cur with [] => [] | _ => [rev cur] end
  | b :: r => if is_alnum b then runs (lower_byte b :: cur) r
              else match cur with [] => runs [] r | _ => rev cur :: runs [] r end
  end.

Definition mem_bytes (w : bytes) (l : list bytes) : bool := existsb (bytes_eqb w) l.

Definition keep_token (stop : list bytes) (w : bytes) : bool :=
  (2 <=? N.of_nat (length w)) && negb (mem_bytes w stop).

Definition tokenize (stop : list bytes) (s : bytes) : list bytes :=
  filter (keep_token stop) (runs [] s).

(* strings.Join(l, " ") *)
Fixpoint join_sp (l : list bytes) : bytes :=
  match l with
  | [] => []
  | [x] => x
  | x :: r => x ++ [32] ++ join_sp r
  end.

(* strings.Contains *)
Fixpoint is_prefix (p s : bytes) : bool :=
  match p, s with
  | [], _ => true
  | x :: p', y :: s' => N.eqb x y && is_prefix p' s'
  | _ :: _, [] => false
  end.
Fixpoint contains (s sub : bytes) : bool :=
  is_prefix sub s || match s with [] => false | _ :: r => contains r sub end.

(* a Coq string literal as bytes (for the word tables and rule bases transcribed from the Go source) *)
Definition bs (s : String.string) : bytes := map (fun b => Byte.to_N b) (String.list_byte_of_string s).
