(* Model of internal/validation/validation.go: ValidateQuery, ValidateLimit — byte exact.
   Strings are lists of bytes (N < 256).  Runes are represented by their UTF-8 byte
   sequences ("tokens"), so no code-point arithmetic is needed: Go's classification
   functions used by the code (unicode.IsSpace, unicode.IsControl, the metacharacter
   class) are finite sets of byte sequences. *)
From Coq Require Import List NArith ZArith Bool.
Import ListNotations.
Open Scope N_scope.

Inductive tok := T (bs : list N) | Bad (b : N).

Definition inr (lo hi x : N) : bool := (lo <=? x) && (x <=? hi).
Definition cont (b : N) : bool := inr 128 191 b.

(* Go's utf8 acceptance ranges (RFC 3629: no overlongs, no surrogates, max U+10FFFF) *)
Definition two_ok (b0 b1 : N) : bool := inr 194 223 b0 && cont b1.
Definition three_ok (b0 b1 b2 : N) : bool :=
  ((N.eqb b0 224 && inr 160 191 b1) ||
   ((inr 225 236 b0 || inr 238 239 b0) && cont b1) ||
   (N.eqb b0 237 && inr 128 159 b1)) && cont b2.
Definition four_ok (b0 b1 b2 b3 : N) : bool :=
  ((N.eqb b0 240 && inr 144 191 b1) ||
   (inr 241 243 b0 && cont b1) ||
   (N.eqb b0 244 && inr 128 143 b1)) && cont b2 && cont b3.

(* utf8.DecodeRune applied repeatedly: an invalid or truncated sequence consumes ONE byte *)
Fixpoint decode (s : list N) : list tok :=
  match s with
  | [] => []
  | b0 :: r0 =>
    if b0 <? 128 then T [b0] :: decode r0
    else match r0 with
      | b1 :: r1 =>
        if two_ok b0 b1 then T [b0; b1] :: decode r1
        else match r1 with
          | b2 :: r2 =>
            if three_ok b0 b1 b2 then T [b0; b1; b2] :: decode r2
            else match r2 with
              | b3 :: r3 =>
                if four_ok b0 b1 b2 b3 then T [b0; b1; b2; b3] :: decode r3
                else Bad b0 :: decode r0
              | [] => Bad b0 :: decode r0
              end
          | [] => Bad b0 :: decode r0
          end
      | [] => Bad b0 :: decode r0
      end
  end.

Definition tok_bytes (t : tok) : list N := match t with T bs => bs | Bad b => [b] end.
Definition flat (ts : list tok) : list N := flat_map tok_bytes ts.

Definition bytes_eqb (a b : list N) : bool :=
  (fix go a b := match a, b with
                 | [], [] => true
                 | x :: a', y :: b' => N.eqb x y && go a' b'
                 | _, _ => false end) a b.

Definition tok_eqb (a b : tok) : bool :=
  match a, b with
  | T x, T y => bytes_eqb x y
  | Bad x, Bad y => N.eqb x y
  | _, _ => false
  end.

(* unicode.IsSpace: \t \n \v \f \r ' ' U+0085 U+00A0 U+1680 U+2000..U+200A U+2028 U+2029 U+202F U+205F U+3000 *)
Definition is_space (t : tok) : bool :=
  match t with
  | T [b] => inr 9 13 b || N.eqb b 32
  | T [b0; b1] => N.eqb b0 194 && (N.eqb b1 133 || N.eqb b1 160)
  | T [b0; b1; b2] =>
      (N.eqb b0 225 && N.eqb b1 154 && N.eqb b2 128) ||
      (N.eqb b0 226 && N.eqb b1 128 && (inr 128 138 b2 || N.eqb b2 168 || N.eqb b2 169 || N.eqb b2 175)) ||
      (N.eqb b0 226 && N.eqb b1 129 && N.eqb b2 159) ||
      (N.eqb b0 227 && N.eqb b1 128 && N.eqb b2 128)
  | _ => false
  end.

(* unicode.IsControl: U+0000..U+001F, U+007F..U+009F *)
Definition is_control (t : tok) : bool :=
  match t with
  | T [b] => (b <? 32) || N.eqb b 127
  | T [b0; b1] => N.eqb b0 194 && inr 128 159 b1
  | _ => false
  end.

(* the callback of strings.Map: control characters other than \n and \t are removed *)
Definition removable (t : tok) : bool :=
  is_control t && negb (tok_eqb t (T [10])) && negb (tok_eqb t (T [9])).

(* [<>|&;$] *)
Definition is_meta_byte (b : N) : bool :=
  N.eqb b 60 || N.eqb b 62 || N.eqb b 124 || N.eqb b 38 || N.eqb b 59 || N.eqb b 36.
Definition is_meta (t : tok) : bool := match t with T [b] => is_meta_byte b | _ => false end.

Definition SP : tok := T [32].
Definition QM : tok := T [63].

(* strings.ToValidUTF8(s, "?"): each maximal run of invalid bytes becomes one '?' *)
Fixpoint to_valid (prev_bad : bool) (ts : list tok) : list tok :=
  match ts with
  | [] => []
  | Bad _ :: r => if prev_bad then to_valid true r else QM :: to_valid true r
  | t :: r => t :: to_valid false r
  end.

(* strings.Join(strings.Fields(strings.TrimSpace(s)), " ") on runes:
   started = a non-space rune has been emitted; pending = a separator is owed *)
Fixpoint norm (started pending : bool) (ts : list tok) : list tok :=
  match ts with
  | [] => []
  | t :: r => if is_space t then norm started started r
              else (if pending then [SP; t] else [t]) ++ norm true false r
  end.

Inductive verr := EEmpty | ETooLong | EInvalidChars | ELimit.
Inductive vres (A : Type) := ROk (a : A) | RErr (e : verr).
Arguments ROk {A}. Arguments RErr {A}.

Definition max_query_length : N := 1000.

Definition cleaned_toks (q : list N) : list tok :=
  filter (fun t => negb (removable t)) (to_valid false (decode q)).

Definition validate_query (q : list N) : vres (list N) :=
  let ts := decode q in
  if forallb is_space ts then RErr EEmpty
  else if max_query_length <? N.of_nat (length q) then RErr ETooLong
  else let cl := cleaned_toks q in
       if existsb is_meta cl then RErr EInvalidChars
       else match norm false false cl with
            | [] => RErr EEmpty
            | out => ROk (flat out)
            end.

Definition validate_limit (default_limit : Z) (n : Z) : vres Z :=
  if (n <? 0)%Z then RErr ELimit
  else if (n =? 0)%Z then ROk default_limit
  else if (100 <? n)%Z then RErr ELimit
  else ROk n.
