(* Model of how the notebook and the history file are (re)written: a tiny file system holding the
   target file and a temporary file beside it; primitive steps; crash and failure injection at
   every step and at every byte of every write. *)
From Coq Require Import List NArith ZArith Bool.
From WTF Require Import Model.Validate Model.Text.
Import ListNotations.

Inductive fstep :=
| SCreateTmp | SOpenTrunc
| SWrite (to_tmp : bool) (data : bytes)
| SSync | SClose | SRename | SUnlinkTmp.

Record fs := { target : option bytes; tmp : option bytes }.

Inductive status := Done | Crashed | Failed.

(* what a fault does: the process dies / the call returns an error, after k bytes if the step is a write *)
Inductive fault := NoFault | CrashAt (step : nat) (k : nat) | FailAt (step : nat) (k : nat).

Definition append_to (o : option bytes) (d : bytes) : option bytes := Some (match o with Some x => x ++ d | None => d end).

Definition apply_step (s : fstep) (f : fs) : fs :=
  match s with
  | SCreateTmp => {| target := target f; tmp := Some [] |}
  | SOpenTrunc => {| target := Some []; tmp := tmp f |}
  | SWrite true d => {| target := target f; tmp := append_to (tmp f) d |}
  | SWrite false d => {| target := append_to (target f) d; tmp := tmp f |}
  | SSync | SClose => f
  | SRename => match tmp f with Some d => {| target := Some d; tmp := None |} | None => f end
  | SUnlinkTmp => {| target := target f; tmp := None |}
  end.

(* the part of a step that took effect before the fault: k bytes of a write, nothing otherwise *)
Definition partial_step (s : fstep) (k : nat) (f : fs) : fs :=
  match s with
  | SWrite b d => apply_step (SWrite b (firstn k d)) f
  | _ => f
  end.

(* run a program; [cleanup] is its error path (executed after a failed step, never after a crash) *)
Fixpoint run (prog cleanup : list fstep) (i : nat) (flt : fault) (f : fs) : fs * status :=
  match prog with
  | [] => (f, Done)
  | s :: r =>
      match flt with
      | CrashAt j k => if Nat.eqb i j then (partial_step s k f, Crashed) else run r cleanup (S i) flt (apply_step s f)
      | FailAt j k => if Nat.eqb i j then (fold_left (fun g c => apply_step c g) cleanup (partial_step s k f), Failed)
                      else run r cleanup (S i) flt (apply_step s f)
      | NoFault => run r cleanup (S i) flt (apply_step s f)
      end
  end.

(* temp file + rename (utils.WriteFileAtomic) *)
Definition atomic_replace (data : bytes) : list fstep := [SCreateTmp; SWrite true data; SSync; SClose; SRename].
Definition atomic_cleanup : list fstep := [SUnlinkTmp].

(* os.WriteFile: truncate and write in place (the program the code used before the repair) *)
Definition in_place (data : bytes) : list fstep := [SOpenTrunc; SWrite false data; SClose].

Definition start (old : option bytes) : fs := {| target := old; tmp := None |}.

(* shape of a recorded system-call trace, projected onto the file being written: is it the atomic program? *)
Inductive tstep := TCreateTmp | TOpenTrunc | TWriteTmp | TWriteTarget | TSync | TClose | TRename | TUnlink | TOther.

Definition tstep_eqb (a b : tstep) : bool :=
  match a, b with
  | TCreateTmp, TCreateTmp | TOpenTrunc, TOpenTrunc | TWriteTmp, TWriteTmp | TWriteTarget, TWriteTarget
  | TSync, TSync | TClose, TClose | TRename, TRename | TUnlink, TUnlink | TOther, TOther => true
  | _, _ => false
  end.

Fixpoint skip_writes (l : list tstep) : list tstep :=
  match l with TWriteTmp :: r => skip_writes r | _ => l end.

(* create-temp, one or more writes to it, (chmod = other), sync, close, rename; never a truncating open or a write to the target *)
Definition is_atomic_trace (l : list tstep) : bool :=
  negb (existsb (fun t => tstep_eqb t TOpenTrunc || tstep_eqb t TWriteTarget) l) &&
  match filter (fun t => negb (tstep_eqb t TOther)) l with
  | TCreateTmp :: TWriteTmp :: r =>
      match skip_writes r with
      | [TSync; TClose; TRename] => true
      | _ => false
      end
  | _ => false
  end.
