(* Model of the search command as a whole (internal/cli/search.go, runSearch): the composition
     validate the query and the limit -> search (engine, else recovery, cut to the limit) -> load the history file,
     add one entry for the query that was searched, save.
   The engine and the recovery search are parameters (they are Model/Engine.v and Model/Recovery.v elsewhere): this file
   is about what is handed from one stage to the next.  Executable definitions only. *)
From Coq Require Import List ZArith NArith Bool.
From WTF Require Import Model.Validate Model.Text Model.History Model.Cli.
Import ListNotations.

Section SearchCommand.
  Variable R : Type.
  Variables engine recovery : list N -> Z -> list R.   (* the answers for a query text at a limit *)

  Record run_out := { ro_rejected : bool; ro_query : list N; ro_printed : list R; ro_hist : option hstate }.

  Definition search_command (default_limit : Z) (q : list N) (limit : Z) (now dur : Z) (ctx : list N) (h : hstate) : run_out :=
    match validate_query q, validate_limit default_limit limit with
    | ROk c, ROk l =>
        let rs := cli_results R l (engine c l) (recovery c l) in
        let e := {| h_query := c; h_time := now; h_results := Z.of_nat (length rs); h_context := ctx; h_duration := dur |} in
        (* searchHistory.Load() (errors ignored), AddEntry, Save *)
        let h1 := fst (load_from h (disk h)) in
        {| ro_rejected := false; ro_query := c; ro_printed := rs;
           ro_hist := match add h1 e with Some h2 => Some (save h2) | None => None end |}
    | _, _ => {| ro_rejected := true; ro_query := []; ro_printed := []; ro_hist := Some h |}
    end.
End SearchCommand.
Arguments ro_rejected {R}. Arguments ro_query {R}. Arguments ro_printed {R}. Arguments ro_hist {R}.
