(* Transcription of github.com/sahilm/fuzzy v0.1.1 FindFromNoSort for ASCII patterns and targets (bytes < 128: one rune per
   byte, case folding and letter classes are the ASCII ones). Executable definitions only.
   [score_target] returns FPanic where the Go code indexes runes[patternIndex] out of range.
   Integers are unbounded here. In Go they are 64-bit and the adjacency bonus triples with every consecutive matched rune,
   so the library's arithmetic wraps after 39 consecutive matches; the model is compared with the library (and claimed to
   describe it) for patterns of at most 38 runes only. *)
From Coq Require Import List NArith ZArith Bool.
From WTF Require Import Model.Validate Model.Text.
Import ListNotations.

(* equalFold on ASCII runes (0 included: the "no next rune" marker) *)
Definition eq_fold (a b : N) : bool :=
  N.eqb a b ||
  (let hi := N.max a b in let lo := N.min a b in is_upper lo && N.eqb hi (lo + 32)).

Definition is_sep (b : N) : bool :=   (* "/-_ .\\" *)
  N.eqb b 47 || N.eqb b 45 || N.eqb b 95 || N.eqb b 32 || N.eqb b 46 || N.eqb b 92.

Record fstate := {
  f_pi : nat;              (* patternIndex *)
  f_best : Z;              (* bestScore *)
  f_mi : Z;                (* matchedIndex (-1: none yet; NOT reset after it is applied, as in the code) *)
  f_adj : Z;               (* currAdjacentMatchBonus *)
  f_last : N;              (* last candidate rune *)
  f_last_index : Z;        (* lastIndex *)
  f_matched : list Z;      (* MatchedIndexes, most recent first *)
  f_total : Z              (* match.Score *)
}.

Definition finit : fstate :=
  {| f_pi := 0; f_best := -1; f_mi := -1; f_adj := 0; f_last := 0; f_last_index := 0; f_matched := []; f_total := 0 |}.

Inductive fres := FPanic | FNoMatch | FMatch (score : Z) (indexes : list Z).

(* the candidate part of one iteration: rune c at position j against the current pattern rune p;
   returns the new bestScore, matchedIndex and currAdjacentMatchBonus *)
Definition cand (j : Z) (c p : N) (st : fstate) : Z * Z * Z :=
  if eq_fold c p then
    let s0 := ((if Z.eqb j 0 then 10 else 0) +
               (if is_lower (f_last st) && is_upper c then 20 else 0) +
               (if negb (Z.eqb j 0) && is_sep (f_last st) then 20 else 0))%Z in
    let bonus := match f_matched st with
                 | [] => 0%Z
                 | lastMatch :: _ => if Z.eqb lastMatch (f_last_index st) then (f_adj st * 2 + 5)%Z else 0%Z
                 end in
    let s1 := (s0 + bonus)%Z in
    let adj' := (f_adj st + bonus)%Z in
    if (f_best st <? s1)%Z then (s1, j, adj') else (f_best st, f_mi st, adj')
  else (f_best st, f_mi st, f_adj st).

Definition next_pattern_rune (runes : list N) (pi : nat) : N :=
  if Nat.ltb pi (length runes - 1) then nth (S pi) runes 0%N else 0%N.

(* one iteration of the inner loop: position j, candidate rune c, next rune nextc (0 at the end of the string) *)
Definition fstep (runes : list N) (j : Z) (c nextc : N) (st : fstate) : option fstate :=
  match nth_error runes (f_pi st) with
  | None => None                                   (* index out of range: panic *)
  | Some p =>
    let '(best1, mi1, adj1) := cand j c p st in
    if (eq_fold (next_pattern_rune runes (f_pi st)) nextc || N.eqb nextc 0) && (-1 <? mi1)%Z then
      let best2 := match f_matched st with
                   | [] => (best1 + Z.max (mi1 * -5) (-15))%Z
                   | _ => best1 end in
      Some {| f_pi := S (f_pi st); f_best := -1; f_mi := mi1; f_adj := adj1; f_last := c; f_last_index := j;
              f_matched := mi1 :: f_matched st; f_total := (f_total st + best2)%Z |}
    else Some {| f_pi := f_pi st; f_best := best1; f_mi := mi1; f_adj := adj1; f_last := c; f_last_index := j;
                 f_matched := f_matched st; f_total := f_total st |}
  end.

Fixpoint floop (runes : list N) (j : Z) (s : list N) (st : fstate) : option fstate :=
  match s with
  | [] => Some st
  | c :: r => match fstep runes j c (match r with [] => 0%N | n :: _ => n end) st with
              | None => None
              | Some st' => floop runes (j + 1) r st'
              end
  end.

Definition score_target (pattern target : list N) : fres :=
  match floop pattern 0 target finit with
  | None => FPanic
  | Some st =>
      if Nat.eqb (length (f_matched st)) (length pattern)
      then FMatch (f_total st + (Z.of_nat (length (f_matched st)) - Z.of_nat (length target)))%Z (rev (f_matched st))
      else FNoMatch
  end.

Definition ascii (s : list N) : bool := forallb (fun b => N.ltb b 128) s.
Definition nul_free (s : list N) : bool := forallb (fun b => negb (N.eqb b 0)) s.

(* FindNoSort over a list of targets: None where the pattern is empty (the code returns no matches at all) *)
Definition raw_score (pattern target : list N) : option (option Z) :=   (* None: panic; Some None: no match *)
  match pattern with
  | [] => Some None
  | _ => match score_target pattern target with
         | FPanic => None
         | FNoMatch => Some None
         | FMatch s _ => Some (Some s)
         end
  end.
