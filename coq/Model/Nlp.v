(* Model of internal/nlp: ProcessQuery (word classification, context clue, intent), getCommandHints (the rule base of
   hints.go) and GetEnhancedKeywords.  Executable definitions only.
   Inputs that stay oracles: the cleaned, lower-cased word list of the query (regexp cleaning and Unicode lower-casing) and
   the lower-cased query text; the word tables (stop words, action words, target words, synonyms) are DATA read from the
   built code through a hook on every run, so they are not transcribed here. *)
From Coq Require Import List String NArith ZArith Bool.
From WTF Require Import Model.Validate Model.Text.
Import ListNotations.
Close Scope string_scope.

Inductive intent := IGeneral | IFind | ICreate | IDelete | IModify | IView | IRun | IInstall | IConfigure.

Definition intent_eqb (a b : intent) : bool :=
  match a, b with
  | IGeneral, IGeneral | IFind, IFind | ICreate, ICreate | IDelete, IDelete | IModify, IModify | IView, IView
  | IRun, IRun | IInstall, IInstall | IConfigure, IConfigure => true
  | _, _ => false
  end.

Record tables := {
  t_stop : list bytes;
  t_actions : list (bytes * list bytes);
  t_targets : list (bytes * list bytes);
  t_synonyms : list (bytes * list bytes)
}.

Definition lookup (tab : list (bytes * list bytes)) (w : bytes) : option (list bytes) :=
  match find (fun e => bytes_eqb (fst e) w) tab with Some e => Some (snd e) | None => None end.

Record analysis := { a_actions : list bytes; a_targets : list bytes; a_keywords : list bytes; a_intent : intent }.

(* removeDuplicates: first occurrences, in order *)
Fixpoint remove_dups (seen : list bytes) (l : list bytes) : list bytes :=
  match l with
  | [] => []
  | x :: r => if mem_bytes x seen then remove_dups seen r else x :: remove_dups (x :: seen) r
  end.

(* the word loop of ProcessQuery *)
Fixpoint classify (T : tables) (words : list bytes) (acts tgts kws : list bytes) : list bytes * list bytes * list bytes :=
  match words with
  | [] => (acts, tgts, kws)
  | w :: r =>
      if mem_bytes w (t_stop T) then classify T r acts tgts kws
      else match lookup (t_actions T) w with
           | Some a => classify T r (acts ++ a) tgts kws
           | None =>
             match lookup (t_targets T) w with
             | Some t => classify T r acts (tgts ++ t) (kws ++ [w])
             | None =>
               match lookup (t_synonyms T) w with
               | Some (s :: _) => classify T r acts tgts (kws ++ [w; s])
               | _ => classify T r acts tgts (kws ++ [w])
               end
             end
           end
  end.

Definition isw (w : bytes) (names : list string) : bool := existsb (fun n => bytes_eqb w (bs n)) names.

Definition intent_of_action (a : bytes) : option intent :=
  if isw a ["find"; "search"; "locate"; "list"]%string then Some IFind
  else if isw a ["show"; "display"; "view"; "see"; "read"; "cat"]%string then Some IView
  else if isw a ["create"; "make"; "build"; "generate"; "new"]%string then Some ICreate
  else if isw a ["delete"; "remove"; "destroy"; "clean"; "clear"]%string then Some IDelete
  else if isw a ["modify"; "change"; "edit"; "update"; "alter"]%string then Some IModify
  else if isw a ["install"; "add"; "download"]%string then Some IInstall
  else if isw a ["run"; "execute"; "start"; "launch"]%string then Some IRun
  else if isw a ["configure"; "config"; "setup"; "set"]%string then Some IConfigure
  else None.

Fixpoint intent_from_actions (acts : list bytes) : intent :=
  match acts with
  | [] => IGeneral
  | a :: r => match intent_of_action a with Some i => i | None => intent_from_actions r end
  end.

Definition is_view_context (acts : list bytes) : bool :=
  let has_view := existsb (fun a => isw a ["view"; "show"; "see"; "read"; "display"]%string) acts in
  let has_clear := existsb (fun a => isw a ["clear"; "empty"; "delete"; "remove"]%string) acts in
  has_view || (negb has_clear && match acts with [] => true | _ => false end).

Fixpoint intent_from_keywords (kws acts : list bytes) : intent :=
  match kws with
  | [] => IGeneral
  | k :: r =>
      if isw k ["contents"; "content"; "inside"; "text"]%string then
        (if is_view_context acts then IView else intent_from_keywords r acts)
      else if isw k ["install"; "installation"]%string then IInstall
      else if isw k ["config"; "configuration"; "setup"]%string then IConfigure
      else if isw k ["running"; "execution"; "processes"]%string then IFind
      else if isw k ["permissions"; "permission"; "chmod"]%string then IModify
      else intent_from_keywords r acts
  end.

Definition detect_intent (acts kws : list bytes) : intent :=
  match intent_from_actions acts with
  | IGeneral => intent_from_keywords kws acts
  | i => i
  end.

Definition has_sub (s : bytes) (n : string) : bool := contains s (bs n).

(* ProcessQuery: [words] = strings.Fields(strings.ToLower(cleanQuery(query))), [qlower] = strings.ToLower(query) *)
Definition process_query (T : tables) (words : list bytes) (qlower : bytes) : analysis :=
  let '(acts, tgts, kws) := classify T words [] [] [] in
  let view_ctx := existsb (has_sub qlower) ["see"; "view"; "show"; "display"; "read"; "look"]%string in
  let without := has_sub qlower "without opening" || has_sub qlower "without editing" in
  let acts := if view_ctx && without then acts ++ map bs ["view"; "show"; "display"]%string else acts in
  {| a_actions := remove_dups [] acts; a_targets := remove_dups [] tgts; a_keywords := remove_dups [] kws;
     a_intent := detect_intent acts kws |}.

(* ---- hints.go ---- *)
Section Hints.
Variable A : analysis.

Definition hasA (n : string) : bool := mem_bytes (bs n) (a_actions A) || mem_bytes (bs n) (a_keywords A).
Definition hasT (ns : list string) : bool :=
  existsb (fun t => isw t ns) (a_targets A) || existsb (fun k => isw k ns) (a_keywords A).
Definition hasK (ns : list string) : bool := existsb (fun k => isw k ns) (a_keywords A).
Definition is_intent (i : intent) : bool := intent_eqb (a_intent A) i.
Definition when (b : bool) (l : list string) : list bytes := if b then map bs l else [].

Open Scope string_scope.
Definition directory_hints : list bytes :=
  if hasT ["directory"; "folder"; "directories"; "folders"; "dir"] || hasK ["directory"; "folder"; "directories"; "folders"; "dir"] then
    when (hasA "create" || hasA "make" || hasA "new" || hasK ["create"; "make"; "new"] || is_intent ICreate) ["mkdir"] ++
    when (hasA "delete" || hasA "remove" || is_intent IDelete) ["rmdir"; "rm"] ++
    when (hasA "list" || hasA "show" || is_intent IFind) ["ls"; "dir"]
  else [].

Definition file_hints : list bytes :=
  if negb (hasT ["file"; "files"]) && negb (hasK ["file"; "files"]) then []
  else
    when (hasA "copy") ["cp"] ++
    when (hasA "move" || hasA "rename") ["mv"] ++
    when (hasA "delete" || hasA "remove") ["rm"] ++
    when (hasA "find" || hasA "search" || hasA "locate") ["find"; "grep"] ++
    when (hasA "view" || hasA "show" || hasA "read" || hasA "see") ["cat"; "less"; "more"] ++
    when (hasA "edit" || hasK ["edit"]) ["vim"; "nano"; "vi"] ++
    when (hasA "compress" || hasA "archive" || hasA "zip") ["tar"; "zip"; "gzip"] ++
    when (hasA "extract" || hasA "unzip" || hasA "decompress") ["tar"; "unzip"; "gunzip"] ++
    when (hasA "download") ["wget"; "curl"].

Definition compression_hints : list bytes := when (hasA "compress" || hasK ["compress"]) ["tar"; "zip"; "gzip"].

Definition archive_hints : list bytes :=
  (if hasT ["archive"; "archives"] || hasK ["archive"; "archives"] then
     when (hasA "extract" || hasK ["extract"; "unpack"; "decompress"]) ["tar"; "unzip"; "gunzip"] ++
     when (hasA "create" || hasA "compress") ["tar"; "zip"] ++
     map bs ["tar"]
   else []) ++
  when (hasA "extract" || hasK ["extract"; "unzip"; "decompress"; "unpack"]) ["tar"; "unzip"; "gunzip"].

Definition download_hints : list bytes := when (hasA "download" || hasA "fetch" || hasK ["download"; "fetch"]) ["wget"; "curl"].

Definition process_hints : list bytes :=
  if hasT ["process"; "processes"; "task"; "tasks"] || hasK ["process"; "processes"] then
    when (hasA "list" || hasA "show" || is_intent IFind) ["ps"; "top"; "htop"] ++
    when (hasA "kill" || hasA "stop" || hasA "terminate") ["kill"; "pkill"]
  else [].

Definition network_hints : list bytes :=
  when (hasT ["network"; "connection"; "connections"; "port"; "ports"] || hasK ["network"; "connections"; "tools"]) ["netstat"; "ss"; "ifconfig"; "ip"].

Definition disk_hints : list bytes :=
  when (hasT ["disk"; "space"; "storage"] || hasK ["disk"; "space"; "storage"; "usage"]) ["df"; "du"].

Definition text_hints : list bytes :=
  if hasT ["text"] || hasK ["text"] then
    when (hasA "search" || hasA "find" || hasK ["search"]) ["grep"; "awk"; "sed"] ++
    when (hasA "edit" || hasK ["edit"; "editor"]) ["vim"; "nano"; "vi"] ++
    when (hasK ["processing"; "process"]) ["sed"; "awk"; "grep"; "cut"; "sort"]
  else [].

Definition editor_hints : list bytes :=
  when (hasK ["editor"] || (hasA "edit" && negb (hasT ["file"; "files"]))) ["vim"; "nano"; "vi"; "emacs"].

Definition log_hints : list bytes :=
  if hasT ["log"; "logs"] || hasK ["log"; "logs"] then
    (if hasK ["analysis"; "analyze"; "search"; "find"] then map bs ["grep"; "awk"; "tail"; "less"] else map bs ["tail"; "less"; "grep"])
  else [].

Definition find_replace_hints : list bytes := when (hasK ["replace"] || (hasA "find" && hasK ["replace"])) ["sed"; "awk"].

Definition search_hints : list bytes := when ((hasA "search" || hasK ["search"]) && hasK ["files"; "text"]) ["grep"; "find"].

Definition install_hints : list bytes :=
  if hasA "install" || hasK ["install"] || is_intent IInstall then
    (if hasT ["package"; "packages"] || hasK ["package"; "packages"] then map bs ["apt"; "yum"; "brew"; "pip"; "npm"] else map bs ["apt"; "pip"; "npm"])
  else [].

Definition permission_hints : list bytes :=
  when (hasT ["permission"; "permissions"] || hasA "chmod" || hasK ["permissions"]) ["chmod"; "chown"].

Definition remote_hints : list bytes :=
  when (hasT ["server"; "remote"] || hasA "ssh" || hasK ["remote"; "server"]) ["ssh"; "scp"; "rsync"].
Close Scope string_scope.

Definition command_hints : list bytes :=
  directory_hints ++ file_hints ++ compression_hints ++ archive_hints ++ download_hints ++ process_hints ++ network_hints ++
  disk_hints ++ text_hints ++ editor_hints ++ log_hints ++ find_replace_hints ++ search_hints ++ install_hints ++
  permission_hints ++ remote_hints.

Definition intent_keywords : list bytes :=
  match a_intent A with
  | IFind => map bs ["search"; "find"]%string
  | IView => map bs ["cat"; "view"; "show"]%string
  | ICreate => map bs ["create"; "make"]%string
  | IDelete => map bs ["delete"; "remove"]%string
  | IInstall => map bs ["install"; "setup"]%string
  | IModify => map bs ["configure"; "change"]%string
  | _ => []
  end.

(* GetEnhancedKeywords *)
Definition enhanced_keywords : list bytes :=
  let kws := a_keywords A in
  let ip := if mem_bytes (bs "ip") kws && (mem_bytes (bs "manage") kws || mem_bytes (bs "windows") kws) then [bs "ipconfig"] else [] in
  let e := kws ++ command_hints ++ ip ++ firstn 3 (a_actions A) ++ firstn 3 (a_targets A) in
  let e := if Nat.ltb (List.length e) 4 then e ++ intent_keywords else e in
  remove_dups [] e.
End Hints.
