(* Model of internal/nlp/tfidf.go: vocabulary, idf, document vectors, cosine ranking.  Executable definitions only.
   Inputs: the token list of every command and of the query (the tokenizer uses Unicode letter/number classes and
   Unicode lower-casing: an oracle), and the table logt with logt[dc] = math.Log(N / dc) (an oracle, as for BM25F).
   Everything the code gets from walking hash maps is computed here in the order the code imposes by sorting. *)
From Coq Require Import List NArith ZArith Bool Floats.
From WTF Require Import Model.Validate Model.Text Model.Engine.
Import ListNotations.

(* Go string order = byte-wise lexicographic *)
Fixpoint bytes_ltb (a b : bytes) : bool :=
  match a, b with
  | [], [] => false
  | [], _ :: _ => true
  | _ :: _, [] => false
  | x :: a', y :: b' => if N.ltb x y then true else if N.ltb y x then false else bytes_ltb a' b'
  end.

(* sorted insertion without duplicates: sort.Strings over the keys of the word-count map *)
Fixpoint insert_word (w : bytes) (l : list bytes) : list bytes :=
  match l with
  | [] => [w]
  | x :: r => if bytes_ltb w x then w :: l else if bytes_eqb w x then l else x :: insert_word w r
  end.
Definition sorted_words (ws : list bytes) : list bytes := fold_left (fun acc w => insert_word w acc) ws [].

Definition doc_count (docs : list (list bytes)) (w : bytes) : nat :=
  length (filter (fun d => mem_bytes w d) docs).

Definition max_docs (n : nat) : nat := Nat.max 1 (n * 8 / 10).

(* the vocabulary in index order *)
Definition vocabulary (docs : list (list bytes)) : list bytes :=
  let n := length docs in
  filter (fun w => let dc := doc_count docs w in Nat.leb 1 dc && Nat.leb dc (max_docs n)) (sorted_words (concat docs)).

Definition count_in (w : bytes) (d : list bytes) : nat := length (filter (bytes_eqb w) d).

Definition f_of_nat (n : nat) : float := f_of_Z (Z.of_nat n).

(* TF-IDF vector of a token list: (vocabulary index, weight), ascending index, only terms that occur *)
Definition vector (voc : list bytes) (idf : bytes -> float) (toks : list bytes) : list (nat * float) :=
  flat_map (fun iw => let '(i, w) := iw in
              let c := count_in w toks in
              if Nat.eqb c 0 then [] else [(i, (f_of_nat c / f_of_nat (length toks) * idf w)%float)])
           (enumerate 0 voc).

Definition norm (v : list (nat * float)) : float :=
  PrimFloat.sqrt (fold_left (fun acc x => (acc + snd x * snd x)%float) v 0%float).

Definition weight_at (v : list (nat * float)) (i : nat) : option float :=
  match find (fun x => Nat.eqb (fst x) i) v with Some x => Some (snd x) | None => None end.

Definition cosine (qv : list (nat * float)) (qn : float) (dv : list (nat * float)) (dn : float) : float :=
  if PrimFloat.eqb qn 0 || PrimFloat.eqb dn 0 then 0%float
  else (fold_left (fun acc x => match weight_at dv (fst x) with Some d => (acc + snd x * d)%float | None => acc end) qv 0%float
        / (qn * dn))%float.

Definition by_sim (x : nat * float) : float := snd x.

(* Search(query, limit): None = no searcher (empty database) *)
Definition tfidf_search (docs : list (list bytes)) (logt : list float) (qtoks : list bytes) (limit : Z) : list (nat * float) :=
  match qtoks with
  | [] => []
  | _ =>
    let voc := vocabulary docs in
    let idf := fun w => nth (doc_count docs w) logt nan in
    let qv := vector voc idf qtoks in
    let qn := norm qv in
    if PrimFloat.eqb qn 0 then []
    else
      let sims := flat_map (fun id => let '(i, d) := id in
                      let dv := vector voc idf d in
                      let s := cosine qv qn dv (norm dv) in
                      if PrimFloat.ltb 0x1.47ae147ae147bp-7 s then [(i, s)] else [])   (* similarity > 0.01 *)
                    (enumerate 0 docs) in
      let ranked := sort_desc by_sim sims in
      if (0 <=? limit)%Z then firstn (Z.to_nat limit) ranked else ranked
  end.
