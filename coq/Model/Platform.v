(* Model of the platform / pipeline filters of internal/database (search_universal.go, search.go).
   Platform tags are compared with ASCII case folding (strings.EqualFold / strings.ToLower on
   ASCII text; tags and platform names are ASCII in every shipped and generated database). *)
From Coq Require Import List NArith ZArith Bool.
From WTF Require Import Model.Validate Model.Text.
Import ListNotations.
Open Scope N_scope.

Definition eq_fold (a b : bytes) : bool := bytes_eqb (lower_ascii a) (lower_ascii b).

(* byte strings used by the filters *)
Definition s_cross : bytes := [99;114;111;115;115;45;112;108;97;116;102;111;114;109].  (* cross-platform *)
Definition s_windows : bytes := [119;105;110;100;111;119;115].
Definition s_macos : bytes := [109;97;99;111;115].
Definition s_linux : bytes := [108;105;110;117;120].
Definition s_darwin : bytes := [100;97;114;119;105;110].
Definition s_cmd : bytes := [99;109;100].
Definition s_powershell : bytes := [112;111;119;101;114;115;104;101;108;108].
Definition s_windows_cmd : bytes := s_windows ++ [45] ++ s_cmd.
Definition s_windows_powershell : bytes := s_windows ++ [45] ++ s_powershell.
Definition s_unix : bytes := [117;110;105;120].
Definition s_bash : bytes := [98;97;115;104].
Definition s_zsh : bytes := [122;115;104].
Definition s_pipe : bytes := [112;105;112;101].

(* checkPlatformVariant(p, current) *)
Definition platform_variant (p cur : bytes) : bool :=
  let pl := lower_ascii p in
  if bytes_eqb cur s_windows then
    bytes_eqb pl s_cmd || bytes_eqb pl s_powershell || bytes_eqb pl s_windows_cmd ||
    bytes_eqb pl s_windows_powershell || is_prefix s_windows pl
  else if bytes_eqb cur s_macos then bytes_eqb pl s_darwin || is_prefix s_macos pl
  else if bytes_eqb cur s_linux then
    bytes_eqb pl s_unix || bytes_eqb pl s_bash || bytes_eqb pl s_zsh || is_prefix s_linux pl
  else false.

(* tag p names platform cur *)
Definition platform_matches (p cur : bytes) : bool := eq_fold p cur || platform_variant p cur.

(* a platform named on the command line, in the database's vocabulary *)
Definition canonical_platform (s : bytes) : bytes :=
  let l := lower_ascii s in if bytes_eqb l s_darwin then s_macos else l.

Definition has_cross_tag (ps : list bytes) : bool := existsb (fun p => eq_fold p s_cross) ps.

(* isCrossPlatformTool: the lower-cased command line is a tool name, or starts with one followed by a space *)
Definition is_cross_tool (tools : list bytes) (cmd_lc : bytes) : bool :=
  existsb (fun t => bytes_eqb cmd_lc t || is_prefix (t ++ [32]) cmd_lc) tools.

(* isPipelineCommand *)
Definition is_pipeline (pipeline_flag : bool) (cmd cmd_lc : bytes) : bool :=
  pipeline_flag || contains cmd [124] || contains cmd_lc s_pipe || contains cmd [38; 38] || contains cmd [62; 62].

(* the platform filter: [inforce] = platforms asked for, else the host *)
Definition platform_ok (tools : list bytes) (host : bytes)
           (all_platforms no_cross : bool) (asked : list bytes)
           (tags : list bytes) (cmd_lc : bytes) : bool :=
  if all_platforms then true
  else match tags with
       | [] => true
       | _ =>
         let inforce := match asked with [] => [host] | _ => map canonical_platform asked end in
         existsb (fun cur => existsb (fun p => platform_matches p cur) tags) inforce ||
         (negb no_cross && (has_cross_tag tags || is_cross_tool tools cmd_lc))
       end.
