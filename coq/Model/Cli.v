(* Model of the CLI glue (internal/cli): cobra's flag-set merge at start-up, and the search
   command's composition  validate -> load -> search -> recover -> truncate -> record -> print. *)
From Coq Require Import List ZArith NArith Bool.
From WTF Require Import Model.Validate Model.Text.
Import ListNotations.

Record flag := { f_name : bytes; f_short : bytes; f_type : bytes }.
Record clicmd := { cm_path : list bytes; cm_local : list flag; cm_persistent : list flag }.

Fixpoint path_prefix (a b : list bytes) : bool :=
  match a, b with
  | [], _ => true
  | x :: a', y :: b' => bytes_eqb x y && path_prefix a' b'
  | _ :: _, [] => false
  end.

(* a proper ancestor in the command tree *)
Definition is_ancestor (a c : clicmd) : bool :=
  path_prefix (cm_path a) (cm_path c) && Nat.ltb (length (cm_path a)) (length (cm_path c)).

(* pflag.AddFlagSet skips a flag whose NAME is already defined *)
Fixpoint add_new (fs : list flag) (acc : list flag) : list flag :=
  match fs with
  | [] => acc
  | f :: r => if existsb (fun g => bytes_eqb (f_name g) (f_name f)) acc then add_new r acc else add_new r (acc ++ [f])
  end.

(* the flag set cobra builds when the command runs: its own flags, then the persistent flags of its ancestors *)
Definition merged (tree : list clicmd) (c : clicmd) : list flag :=
  add_new (flat_map cm_persistent (filter (fun a => is_ancestor a c) tree)) (add_new (cm_persistent c) (cm_local c)).

(* pflag.AddFlag panics when a DIFFERENT flag already owns the shorthand (or the shorthand is longer than one byte) *)
Fixpoint shorthands_ok (l : list flag) : bool :=
  match l with
  | [] => true
  | f :: r =>
      (match f_short f with [] => true | [_] => true | _ => false end) &&
      forallb (fun g => match f_short f with
                        | [] => true
                        | s => negb (bytes_eqb s (f_short g)) || bytes_eqb (f_name f) (f_name g) end) r &&
      shorthands_ok r
  end.

Definition flags_ok (tree : list clicmd) : bool := forallb (fun c => shorthands_ok (merged tree c)) tree.

(* printable (internal/cli/search.go): strings.Map over the runes of database text - a tab becomes a space,
   every other control character is dropped; an invalid byte comes out as U+FFFD (strings.Map re-encodes) *)
Definition printable (s : bytes) : bytes :=
  flat_map (fun t => match t with
                     | Bad _ => [239; 191; 189]%N
                     | T [9%N] => [32%N]
                     | T bs => if is_control t then [] else bs
                     end) (decode s).

(* encoding/json writes invalid UTF-8 bytes as U+FFFD *)
Definition json_text (s : bytes) : bytes :=
  flat_map (fun t => match t with Bad _ => [239; 191; 189]%N | T bs => bs end) (decode s).

(* ---------- the search command ---------- *)

Section Search.
Variable R : Type.
(* results printed: the engine's answer, else the first non-empty recovery strategy, cut to the limit in force *)
Definition cli_results (limit : Z) (engine recovery : list R) : list R :=
  match engine with [] => firstn (Z.to_nat limit) recovery | _ => engine end.
End Search.
