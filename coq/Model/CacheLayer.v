(* Model of the caching layer: cache.SearchCache, cache.Manager, database.CachedDatabase and the
   extra look-up of database.MonitoredDatabase, on top of Model/Lru.v.
   The engine is a parameter: a function of (commands, query, options) - which is what C02 establishes
   for the concrete engine. Keys are abstract: [key q o] stands for the SHA-256 of the JSON of
   (ASCII-lower-cased query, option fields); that hash is assumed injective on such pairs. *)
From Coq Require Import List ZArith NArith Bool.
From WTF Require Import Model.Lru.
Import ListNotations.
Open Scope Z_scope.

Section CacheLayer.
Variables D Q O K R : Type.            (* database content, query, options, cache key, one result *)
Variable keqb : K -> K -> bool.
Variable key : Q -> O -> K.
Variable engine : D -> Q -> O -> list R.

Definition default_capacity : Z := 1000.
Definition default_ttl : Z := 300000000000.   (* 5 minutes, ns *)

Record cstate := { cs_db : D; cs_cache : lru K (list R); cs_sc_enabled : bool; cs_mgr_enabled : bool }.

Definition cinit (d : D) : cstate :=
  {| cs_db := d; cs_cache := new K (list R) default_capacity default_ttl; cs_sc_enabled := true; cs_mgr_enabled := true |}.

Inductive cop :=
| CSearch (q : Q) (o : O) | CMonSearch (q : Q) (o : O)
| CInvalidate | CEnable (b : bool) | CCleanup | CUpdate (d : D) | CStats.

Inductive cout := RResults (r : list R) | RUnit | RStats (hits misses : N) (size : Z).

Definition with_cache (s : cstate) (c : lru K (list R)) : cstate :=
  {| cs_db := cs_db s; cs_cache := c; cs_sc_enabled := cs_sc_enabled s; cs_mgr_enabled := cs_mgr_enabled s |}.

(* SearchCache.Get *)
Definition sc_get (s : cstate) (now : Z) (q : Q) (o : O) : cstate * option (list R) :=
  if cs_sc_enabled s then
    let '(c, r) := step K (list R) keqb (cs_cache s) now (Get (key q o)) in
    (with_cache s c, match r with OGet x => x | _ => None end)
  else (s, None).

(* SearchCache.Put: only non-empty answers are stored *)
Definition sc_put (s : cstate) (now : Z) (q : Q) (o : O) (r : list R) : cstate :=
  match r with
  | [] => s
  | _ => if cs_sc_enabled s then with_cache s (fst (step K (list R) keqb (cs_cache s) now (Put (key q o) r))) else s
  end.

(* CachedDatabase.SearchWithOptionsAndCache *)
Definition cached_search (s : cstate) (now : Z) (q : Q) (o : O) : cstate * list R :=
  if negb (cs_mgr_enabled s) then (s, engine (cs_db s) q o)
  else let '(s1, hit) := sc_get s now q o in
       match hit with
       | Some r => (s1, r)
       | None => let r := engine (cs_db s1) q o in (sc_put s1 now q o r, r)
       end.

Definition cstep (s : cstate) (now : Z) (op : cop) : cstate * cout :=
  match op with
  | CSearch q o => let '(s', r) := cached_search s now q o in (s', RResults r)
  | CMonSearch q o =>                                   (* the monitor first asks the cache whether it will hit *)
      let '(s0, _) := sc_get s now q o in
      let '(s', r) := cached_search s0 now q o in (s', RResults r)
  | CInvalidate => (with_cache s (fst (step K (list R) keqb (cs_cache s) now Clear)), RUnit)
  | CEnable b => ({| cs_db := cs_db s; cs_cache := cs_cache s; cs_sc_enabled := b; cs_mgr_enabled := b |}, RUnit)
  | CCleanup => (with_cache s (fst (step K (list R) keqb (cs_cache s) now Cleanup)), RUnit)
  | CUpdate d =>
      ({| cs_db := d; cs_cache := fst (step K (list R) keqb (cs_cache s) now Clear);
          cs_sc_enabled := cs_sc_enabled s; cs_mgr_enabled := cs_mgr_enabled s |}, RUnit)
  | CStats => (s, RStats (hits (cs_cache s)) (misses (cs_cache s)) (Z.of_nat (length (items (cs_cache s)))))
  end.

Fixpoint crun (s : cstate) (h : list (Z * cop)) : cstate * list cout :=
  match h with
  | [] => (s, [])
  | (now, op) :: r => let '(s1, x) := cstep s now op in let '(s2, xs) := crun s1 r in (s2, x :: xs)
  end.

End CacheLayer.

Arguments cs_db {D K R}. Arguments cs_cache {D K R}. Arguments cs_sc_enabled {D K R}. Arguments cs_mgr_enabled {D K R}.
