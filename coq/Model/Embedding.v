(* Model of internal/embedding: the two binary loaders (with an account of the memory they request,
   as a function of header fields), cosine similarity over binary64, and the semantic stage of
   SearchUniversal (applySemanticBoost) with the similarity vector as an input. *)
From Coq Require Import List NArith ZArith Bool Floats.
From WTF Require Import Model.Validate Model.Text Model.Engine.
Import ListNotations.
Open Scope N_scope.

Definition dim : N := 100.

Definition u16 (b0 b1 : N) : N := b0 + 256 * b1.
Definition u32 (b0 b1 b2 b3 : N) : N := b0 + 256 * (b1 + 256 * (b2 + 256 * b3)).

Inductive perr := PShort (what : nat) | PTooMany | PDimension | PFuel.
Inductive pres (A : Type) := POk (a : A) | PErr (e : perr).
Arguments POk {A}. Arguments PErr {A}.

Definition nlen {A} (l : list A) : N := N.of_nat (length l).

(* --- word vectors: [vocab:u32] then per word [len:u16][word][dim * f32] ---
   returns the words with their raw vectors, and the bytes requested from the allocator *)
Fixpoint wv_entries (fuel : nat) (count : N) (bs : bytes) (acc : list (bytes * bytes)) (alloc : N)
  : pres (list (bytes * bytes)) * N :=
  if count =? 0 then (POk (rev acc), alloc)
  else match fuel with
  | O => (PErr PFuel, alloc)
  | S fuel' =>
    match bs with
    | b0 :: b1 :: r =>
        let wl := u16 b0 b1 in
        let alloc1 := alloc + wl in                                   (* make([]byte, wordLen) *)
        if nlen r <? wl then (PErr (PShort 2), alloc1)
        else let word := firstn (N.to_nat wl) r in
             let r2 := skipn (N.to_nat wl) r in
             let alloc2 := alloc1 + 4 * dim in                        (* make([]float32, dim) *)
             if nlen r2 <? 4 * dim then (PErr (PShort 3), alloc2)
             else wv_entries fuel' (count - 1) (skipn (N.to_nat (4 * dim)) r2) ((word, firstn (N.to_nat (4 * dim)) r2) :: acc) alloc2
    | _ => (PErr (PShort 1), alloc)
    end
  end.

Definition map_entry_cost : N := 48.

Definition load_word_vectors (file : bytes) : pres (list (bytes * bytes)) * N :=
  match file with
  | b0 :: b1 :: b2 :: b3 :: r =>
      let vocab := u32 b0 b1 b2 b3 in
      (* each entry occupies at least 2 + 4*dim bytes: a count the file cannot hold is rejected before anything is sized from it *)
      if nlen r / (2 + 4 * dim) <? vocab then (PErr PTooMany, 0)
      else wv_entries (S (length r)) vocab r [] (map_entry_cost * vocab)   (* make(map, vocab) *)
  | _ => (PErr (PShort 0), 0)
  end.

(* --- command embeddings: [n:u32][dim:u32] then n * [dim * f32] --- *)
Fixpoint ce_entries (fuel : nat) (count : N) (bs : bytes) (acc : list bytes) (alloc : N) : pres (list bytes) * N :=
  if count =? 0 then (POk (rev acc), alloc)
  else match fuel with
  | O => (PErr PFuel, alloc)
  | S fuel' =>
      let alloc1 := alloc + 4 * dim in
      if nlen bs <? 4 * dim then (PErr (PShort 3), alloc1)
      else ce_entries fuel' (count - 1) (skipn (N.to_nat (4 * dim)) bs) (firstn (N.to_nat (4 * dim)) bs :: acc) alloc1
  end.

Definition slice_header_cost : N := 24.

Definition load_command_embeddings (file : bytes) : pres (list bytes) * N :=
  match file with
  | b0 :: b1 :: b2 :: b3 :: c0 :: c1 :: c2 :: c3 :: r =>
      let n := u32 b0 b1 b2 b3 in let d := u32 c0 c1 c2 c3 in
      if negb (d =? dim) then (PErr PDimension, 0)
      else if nlen r / (4 * dim) <? n then (PErr PTooMany, 0)
      else ce_entries (S (length r)) n r [] (slice_header_cost * n)
  | _ => (PErr (PShort 0), 0)
  end.

(* --- cosine similarity (vectors given as the exact binary64 values of their float32 components) --- *)
Definition cos_sums (a b : list float) : float * float * float :=
  fold_left (fun acc xy => let '(d, na, nb) := acc in let '(x, y) := xy in
               (d + x * y, na + x * x, nb + y * y)%float) (combine a b) (0, 0, 0)%float.

Definition clamp_unit (s : float) : float :=
  match PrimFloat.classify s with
  | NaN => 0%float
  | _ => if PrimFloat.ltb 1 s then 1%float else if PrimFloat.ltb s (-1) then (-1)%float else s
  end.

Definition cosine (a b : list float) : float :=
  if negb (Nat.eqb (length a) (length b)) || Nat.eqb (length a) 0 then 0%float
  else let '(d, na, nb) := cos_sums a b in
       if PrimFloat.eqb na 0 || PrimFloat.eqb nb 0 then 0%float
       else clamp_unit (d / (PrimFloat.sqrt na * PrimFloat.sqrt nb))%float.

(* --- the semantic stage: sims = one similarity per document (None: no index, or no embedding for the query) --- *)
Definition semantic_alpha : float := 0x1.3333333333333p-2%float.     (* 0.3 *)
Definition semantic_min : float := 0x1.999999999999ap-4%float.       (* 0.1 *)

Definition semantic_stage (sims : option (list float)) (rs : list (nat * float)) : list (nat * float) :=
  match sims with
  | None => rs
  | Some sv =>
      sort_desc by_score
        (map (fun is => let '(i, s) := is in
               match nth_error sv i with
               | Some sim => if PrimFloat.leb semantic_min sim then (i, (s * (1 + semantic_alpha * sim))%float) else (i, s)
               | None => (i, s)
               end) rs)
  end.
