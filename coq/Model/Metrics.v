(* Model of internal/metrics: series identity (metricKey), counters, histograms, and the
   performance monitor's bookkeeping.  Executable definitions only.
   A Go map of tags is an association list in the order the runtime happened to iterate it
   ([ord]); the code sorts the tag names, so the identity does not depend on that order. *)
From Coq Require Import List ZArith NArith Bool Floats.
From WTF Require Import Model.Validate.   (* bytes_eqb *)
Import ListNotations.

Definition bytes := list N.
Definition tagmap := list (bytes * bytes).

Fixpoint bytes_ltb (a b : bytes) : bool :=
  match a, b with
  | [], [] => false
  | [], _ :: _ => true
  | _ :: _, [] => false
  | x :: a', y :: b' => if N.ltb x y then true else if N.eqb x y then bytes_ltb a' b' else false
  end.

(* sort.Strings on the tag names (names are distinct: they are map keys) *)
Fixpoint insert_tag (kv : bytes * bytes) (l : tagmap) : tagmap :=
  match l with
  | [] => [kv]
  | x :: r => if bytes_ltb (fst kv) (fst x) then kv :: l else x :: insert_tag kv r
  end.
Definition sort_tags (ord : tagmap) : tagmap := fold_right insert_tag [] ord.

(* identity of a series: name and tag set *)
Definition ident := (bytes * tagmap)%type.
Definition metric_id (name : bytes) (ord : tagmap) : ident := (name, sort_tags ord).

Definition tag_eqb (a b : bytes * bytes) : bool := bytes_eqb (fst a) (fst b) && bytes_eqb (snd a) (snd b).
Fixpoint tags_eqb (a b : tagmap) : bool :=
  match a, b with
  | [], [] => true
  | x :: a', y :: b' => tag_eqb x y && tags_eqb a' b'
  | _, _ => false
  end.
Definition ident_eqb (a b : ident) : bool := bytes_eqb (fst a) (fst b) && tags_eqb (snd a) (snd b).

(* the string the code builds from an identity, for an abstract quoting function q
   (strconv.Quote): q name, then for each tag in name order  ":" q k "=" q v *)
Section KeyString.
Variable q : bytes -> bytes.
Definition tag_string (kv : bytes * bytes) : bytes := [58%N] ++ q (fst kv) ++ [61%N] ++ q (snd kv).
Definition key_string (i : ident) : bytes := q (fst i) ++ flat_map tag_string (snd i).
End KeyString.

(* ---------- counters ---------- *)

Definition registry (A : Type) := list (ident * A).

Fixpoint reg_find {A} (i : ident) (r : registry A) : option A :=
  match r with
  | [] => None
  | (j, a) :: r' => if ident_eqb i j then Some a else reg_find i r'
  end.

Fixpoint reg_update {A} (i : ident) (f : A -> A) (dflt : A) (r : registry A) : registry A :=
  match r with
  | [] => [(i, f dflt)]                      (* getOrCreate: a new series, then the update *)
  | (j, a) :: r' => if ident_eqb i j then (j, f a) :: r' else (j, a) :: reg_update i f dflt r'
  end.

Inductive cop := CInc (name : bytes) (ord : tagmap) | CAdd (name : bytes) (ord : tagmap) (v : Z).

Definition cop_id (o : cop) : ident :=
  match o with CInc n t => metric_id n t | CAdd n t _ => metric_id n t end.
Definition cop_amount (o : cop) : Z := match o with CInc _ _ => 1%Z | CAdd _ _ v => v end.

Definition cstep (r : registry Z) (o : cop) : registry Z :=
  reg_update (cop_id o) (fun x => (x + cop_amount o)%Z) 0%Z r.

Definition crun (ops : list cop) : registry Z := fold_left cstep ops [].
Definition cvalue (i : ident) (r : registry Z) : Z := match reg_find i r with Some v => v | None => 0%Z end.

(* ---------- histograms ---------- *)

Record hist := { buckets : list float; counts : list Z; overflow : Z; hsum : float; hcount : Z }.

Definition hist_new (bs : list float) : hist :=
  {| buckets := bs; counts := map (fun _ => 0%Z) bs; overflow := 0; hsum := zero; hcount := 0 |}.

(* first bucket with value <= bound gets the observation; otherwise the overflow bucket *)
Fixpoint bump_bucket (v : float) (bs : list float) (cs : list Z) : option (list Z) :=
  match bs, cs with
  | b :: bs', c :: cs' => if PrimFloat.leb v b then Some ((c + 1)%Z :: cs')
                          else match bump_bucket v bs' cs' with Some r => Some (c :: r) | None => None end
  | _, _ => None
  end.

Definition observe (h : hist) (v : float) : hist :=
  match bump_bucket v (buckets h) (counts h) with
  | Some cs => {| buckets := buckets h; counts := cs; overflow := overflow h;
                  hsum := PrimFloat.add (hsum h) v; hcount := (hcount h + 1)%Z |}
  | None => {| buckets := buckets h; counts := counts h; overflow := (overflow h + 1)%Z;
               hsum := PrimFloat.add (hsum h) v; hcount := (hcount h + 1)%Z |}
  end.

(* Go's float64 -> int64 conversion for finite values in range: truncation toward zero *)
Definition trunc_float (f : float) : Z :=
  match FloatOps.Prim2SF f with
  | SpecFloat.S754_finite s m e =>
      let mag := match e with
                 | Z0 => Zpos m
                 | Zpos p => (Zpos m * 2 ^ Zpos p)%Z
                 | Zneg p => (Zpos m / 2 ^ Zpos p)%Z
                 end in
      if s then (- mag)%Z else mag
  | _ => 0%Z
  end.

Definition f_of_Z (z : Z) : float :=
  if (z <? 0)%Z then PrimFloat.opp (PrimFloat.of_uint63 (Uint63.of_Z (- z)))
  else PrimFloat.of_uint63 (Uint63.of_Z z).

Definition pct_target (h : hist) (p : float) : Z :=
  trunc_float (PrimFloat.div (PrimFloat.mul (f_of_Z (hcount h)) p) (f_of_Z 100)).

(* index of the first bucket whose cumulative count reaches the target (None: never reached) *)
Fixpoint first_reach (target cum : Z) (cs : list Z) (i : nat) : option nat :=
  match cs with
  | [] => None
  | c :: r => if (cum + c >=? target)%Z then Some i else first_reach target (cum + c) r (S i)
  end.

Definition last_bucket (h : hist) : float := last (buckets h) zero.

Definition percentile_at (h : hist) (target : Z) : float :=
  if (hcount h =? 0)%Z then zero
  else match first_reach target 0 (counts h ++ [overflow h]) 0 with
       | Some i => nth i (buckets h) (last_bucket h)     (* overflow bucket: the last bound *)
       | None => zero
       end.

Definition percentile (h : hist) (p : float) : float := percentile_at h (pct_target h p).

(* ---------- the performance monitor's counters ---------- *)

Definition b_true : bytes := [116; 114; 117; 101]%N.
Definition b_false : bytes := [102; 97; 108; 115; 101]%N.
Definition b_of_bool (b : bool) := if b then b_true else b_false.

(* names as byte strings *)
Definition n_searches_total : bytes := [115;101;97;114;99;104;101;115;95;116;111;116;97;108]%N.
Definition n_cache_hit : bytes := [99;97;99;104;101;95;104;105;116]%N.
Definition n_cache_hits_total : bytes := [99;97;99;104;101;95;104;105;116;115;95;116;111;116;97;108]%N.
Definition n_cache_misses_total : bytes := [99;97;99;104;101;95;109;105;115;115;101;115;95;116;111;116;97;108]%N.
Definition n_db_ops_total : bytes :=
  [100;97;116;97;98;97;115;101;95;111;112;101;114;97;116;105;111;110;115;95;116;111;116;97;108]%N.
Definition n_operation : bytes := [111;112;101;114;97;116;105;111;110]%N.
Definition n_success : bytes := [115;117;99;99;101;115;115]%N.

Inductive mop :=
| MSearch (cache_hit : bool)
| MDb (operation : bytes) (success : bool) (ord_swapped : bool).  (* which tag the runtime iterates first *)

Definition mop_cops (o : mop) : list cop :=
  match o with
  | MSearch hit =>
      [CInc n_searches_total [(n_cache_hit, b_of_bool hit)];
       CInc (if hit then n_cache_hits_total else n_cache_misses_total) []]
  | MDb op ok sw =>
      let t1 := (n_operation, op) in let t2 := (n_success, b_of_bool ok) in
      [CInc n_db_ops_total (if sw then [t2; t1] else [t1; t2])]
  end.

Definition mrun (ops : list mop) : registry Z := crun (flat_map mop_cops ops).

Definition total_named (name : bytes) (r : registry Z) : Z :=
  fold_left (fun a x => if bytes_eqb (fst (fst x)) name then (a + snd x)%Z else a) r 0%Z.
