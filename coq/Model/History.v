(* Model of internal/history/history.go (SearchHistory).  Executable definitions only.
   The JSON codec is not modelled: a file is its decoded structure (what json.Unmarshal
   would see), see [hfile].  Go slice-bounds checks are explicit ([APanic]). *)
From Coq Require Import List ZArith NArith Bool Floats Uint63.
From WTF Require Import Model.Validate.   (* bytes_eqb *)
Import ListNotations.
Open Scope Z_scope.

Definition bytes := list N.

Record hentry := { h_query : bytes; h_time : Z; h_results : Z; h_context : bytes; h_duration : Z }.

(* a field of the JSON document: absent, null, a value of the right type, or anything else *)
Inductive fopt (A : Type) := FAbsent | FNull | FVal (a : A) | FWrong.
Arguments FAbsent {A}. Arguments FNull {A}. Arguments FVal {A}. Arguments FWrong {A}.

Inductive hfile :=
| FileMissing | FileEmpty | FileGarbage            (* no file / zero bytes / not JSON (or not an object) *)
| FileDoc (e : fopt (list hentry)) (m : fopt Z).   (* a JSON object with its "entries" and "max_size" fields *)

Record hstate := { entries : list hentry; max_size : Z; disk : hfile }.

Definition default_size : Z := 100.

Definition hnew (m : Z) : hstate :=
  {| entries := []; max_size := if m <=? 0 then default_size else m; disk := FileMissing |}.

Inductive hop :=
| HAdd (e : hentry) | HSave | HLoad | HLoadFile (f : hfile) | HClear
| HRecent (limit : Z) | HTop (limit : Z) | HStats.

Inductive hout :=
| AUnit | APanic | AErr (failed : bool)
| ARecent (qs : list bytes)
| ATop (l : list (bytes * Z * Z))                    (* query, count, last used *)
| AStats (total unique : Z) (oldest newest : Z) (avg_results avg_duration : float).

Definition last_opt {A} (l : list A) : option A :=
  match rev l with [] => None | x :: _ => Some x end.

(* AddEntry *)
Definition add (s : hstate) (e : hentry) : option hstate :=
  match last_opt (entries s) with
  | Some l =>
      if bytes_eqb (h_query l) (h_query e)
      then Some {| entries := removelast (entries s) ++ [e]; max_size := max_size s; disk := disk s |}
      else
        let l' := entries s ++ [e] in
        let n := Z.of_nat (length l') in
        if n >? max_size s
        then (* sh.Entries[len-MaxSize:] : panics when the low bound exceeds len *)
             if max_size s <? 0 then None
             else Some {| entries := skipn (Z.to_nat (n - max_size s)) l'; max_size := max_size s; disk := disk s |}
        else Some {| entries := l'; max_size := max_size s; disk := disk s |}
  | None =>
      let l' := entries s ++ [e] in
      let n := Z.of_nat (length l') in
      if n >? max_size s
      then if max_size s <? 0 then None
           else Some {| entries := skipn (Z.to_nat (n - max_size s)) l'; max_size := max_size s; disk := disk s |}
      else Some {| entries := l'; max_size := max_size s; disk := disk s |}
  end.

Definition save (s : hstate) : hstate :=
  {| entries := entries s; max_size := max_size s; disk := FileDoc (FVal (entries s)) (FVal (max_size s)) |}.

(* Load: decode into a fresh value; on success take the file's entries, and its maximum when positive *)
Definition load_from (s : hstate) (f : hfile) : hstate * bool :=
  match f with
  | FileMissing | FileEmpty => (s, false)
  | FileGarbage => (s, true)
  | FileDoc FWrong _ | FileDoc _ FWrong => (s, true)
  | FileDoc e m =>
      let es := match e with FVal l => l | _ => [] end in
      let mx := match m with FVal z => if z >? 0 then z else max_size s | _ => max_size s end in
      ({| entries := es; max_size := mx; disk := disk s |}, false)
  end.

Definition clear (s : hstate) : hstate :=
  save {| entries := []; max_size := max_size s; disk := disk s |}.

(* GetRecentQueries: distinct queries, newest first, at most limit *)
Definition mem_bytes (q : bytes) (l : list bytes) : bool := existsb (bytes_eqb q) l.

Fixpoint recent_aux (limit : nat) (seen : list bytes) (l : list hentry) : list bytes :=
  match limit with
  | O => []
  | S k => match l with
           | [] => []
           | e :: r => if mem_bytes (h_query e) seen then recent_aux limit seen r
                       else h_query e :: recent_aux k (h_query e :: seen) r
           end
  end.

Definition eff_limit (limit : Z) : nat := Z.to_nat (if limit <=? 0 then 10 else limit).

Definition recent (s : hstate) (limit : Z) : list bytes :=
  recent_aux (eff_limit limit) [] (rev (entries s)).

(* GetTopQueries: frequency and last use per distinct query (first-occurrence order), then
   sorted by count descending, then last use descending (insertion sort, stable) *)
Fixpoint bump (q : bytes) (t : Z) (acc : list (bytes * Z * Z)) : list (bytes * Z * Z) :=
  match acc with
  | [] => [(q, 1, if t >? 0 then t else 0)]   (* lastSeen starts at the zero time *)
  | (q', c, l) :: r => if bytes_eqb q q' then (q', c + 1, if t >? l then t else l) :: r
                       else (q', c, l) :: bump q t r
  end.

Definition freq_table (l : list hentry) : list (bytes * Z * Z) :=
  fold_left (fun acc e => bump (h_query e) (h_time e) acc) l [].

Definition top_before (a b : bytes * Z * Z) : bool :=
  let '(_, ca, la) := a in let '(_, cb, lb) := b in
  if ca =? cb then la >? lb else ca >? cb.

Fixpoint insert_top (x : bytes * Z * Z) (l : list (bytes * Z * Z)) :=
  match l with
  | [] => [x]
  | y :: r => if top_before y x || negb (top_before x y) then y :: insert_top x r else x :: l
  end.

Definition sort_top (l : list (bytes * Z * Z)) := fold_left (fun acc x => insert_top x acc) l [].

Definition top_all (s : hstate) := sort_top (freq_table (entries s)).
Definition top (s : hstate) (limit : Z) := firstn (eff_limit limit) (top_all s).

(* GetStats *)
Definition f_of_Z (z : Z) : float := if z <? 0 then PrimFloat.opp (PrimFloat.of_uint63 (Uint63.of_Z (- z)))
                                     else PrimFloat.of_uint63 (Uint63.of_Z z).

Fixpoint distinct (seen : list bytes) (l : list hentry) : Z :=
  match l with
  | [] => 0
  | e :: r => if mem_bytes (h_query e) seen then distinct seen r else 1 + distinct (h_query e :: seen) r
  end.

Definition sumZ (f : hentry -> Z) (l : list hentry) : Z := fold_left (fun a e => a + f e) l 0.

Definition stats (s : hstate) : hout :=
  match entries s with
  | [] => AStats 0 0 0 0 zero zero
  | e0 :: _ =>
      let n := Z.of_nat (length (entries s)) in
      let newest := match last_opt (entries s) with Some l => h_time l | None => 0 end in
      let td := sumZ h_duration (entries s) in
      AStats n (distinct [] (entries s)) (h_time e0) newest
             (PrimFloat.div (f_of_Z (sumZ h_results (entries s))) (f_of_Z n))
             (if td >? 0 then PrimFloat.div (f_of_Z td) (f_of_Z n) else zero)
  end.

Definition hstep (s : hstate) (o : hop) : option hstate * hout :=
  match o with
  | HAdd e => match add s e with Some s' => (Some s', AUnit) | None => (None, APanic) end
  | HSave => (Some (save s), AErr false)
  | HLoad => let '(s', b) := load_from s (disk s) in (Some s', AErr b)
  | HLoadFile f =>
      let s1 := {| entries := entries s; max_size := max_size s; disk := f |} in
      let '(s', b) := load_from s1 f in (Some s', AErr b)
  | HClear => (Some (clear s), AErr false)
  | HRecent k => (Some s, ARecent (recent s k))
  | HTop k => (Some s, ATop (top s k))
  | HStats => (Some s, stats s)
  end.

(* run a history; a panic ends it *)
Fixpoint hrun (s : hstate) (ops : list hop) : option hstate :=
  match ops with
  | [] => Some s
  | o :: r => match fst (hstep s o) with Some s' => hrun s' r | None => None end
  end.
