(* Model of internal/cache/lru_cache.go (LRUCache).  Executable definitions only.
   The Go map + container/list pair is one list, front = most recently used.
   Ghost fields (not in the Go struct; never read by the model's control flow):
     e_stored : time of the last Put on this key,
     e_touch  : index (step counter) of the last Put or hit-Get on this key. *)
From Coq Require Import List ZArith NArith Bool.
Import ListNotations.
Open Scope Z_scope.

Section Lru.
Variables K V : Type.
Variable keqb : K -> K -> bool.

Record entry := { e_key : K; e_val : V; e_created : Z; e_stored : Z; e_touch : nat }.

Record lru := { cap : Z; ttl : Z; items : list entry;
                hits : N; misses : N; evictions : N; tick : nat }.

Definition default_capacity : Z := 100.

Definition new (c t : Z) : lru :=
  {| cap := if c <=? 0 then default_capacity else c; ttl := t; items := [];
     hits := 0; misses := 0; evictions := 0; tick := 0 |}.

Fixpoint lookup (k : K) (l : list entry) : option entry :=
  match l with
  | [] => None
  | e :: r => if keqb k (e_key e) then Some e else lookup k r
  end.

Fixpoint remove (k : K) (l : list entry) : list entry :=
  match l with
  | [] => []
  | e :: r => if keqb k (e_key e) then r else e :: remove k r
  end.

Definition expired (s : lru) (now : Z) (e : entry) : bool :=
  (ttl s >? 0) && (now - e_created e >? ttl s).

Inductive op := Get (k : K) | Put (k : K) (v : V) | Delete (k : K) | Clear
              | Size | Capacity | Stats | Keys | Cleanup.

Inductive out := OGet (r : option V) | OUnit | OBool (b : bool) | OInt (n : Z)
               | OStats (h m e : N) (size capacity : Z) | OKeys (ks : list K).

Definition with_items (s : lru) (l : list entry) : lru :=
  {| cap := cap s; ttl := ttl s; items := l; hits := hits s; misses := misses s;
     evictions := evictions s; tick := tick s |}.

Definition bump_hit (s : lru) : lru :=
  {| cap := cap s; ttl := ttl s; items := items s; hits := N.succ (hits s); misses := misses s;
     evictions := evictions s; tick := tick s |}.
Definition bump_miss (s : lru) : lru :=
  {| cap := cap s; ttl := ttl s; items := items s; hits := hits s; misses := N.succ (misses s);
     evictions := evictions s; tick := tick s |}.
Definition bump_evict (s : lru) : lru :=
  {| cap := cap s; ttl := ttl s; items := items s; hits := hits s; misses := misses s;
     evictions := N.succ (evictions s); tick := tick s |}.
Definition next_tick (s : lru) : lru :=
  {| cap := cap s; ttl := ttl s; items := items s; hits := hits s; misses := misses s;
     evictions := evictions s; tick := S (tick s) |}.

Definition get (s : lru) (now : Z) (k : K) : lru * option V :=
  match lookup k (items s) with
  | None => (bump_miss s, None)
  | Some e =>
      if expired s now e then (bump_miss (with_items s (remove k (items s))), None)
      else
        let e' := {| e_key := e_key e; e_val := e_val e; e_created := e_created e;
                     e_stored := e_stored e; e_touch := tick s |} in
        (bump_hit (with_items s (e' :: remove k (items s))), Some (e_val e))
  end.

(* drop the last element (evictList.Back()) *)
Definition evict_oldest (l : list entry) : list entry := removelast l.

Definition put (s : lru) (now : Z) (k : K) (v : V) : lru :=
  match lookup k (items s) with
  | Some e =>
      let e' := {| e_key := e_key e; e_val := v; e_created := e_created e;
                   e_stored := now; e_touch := tick s |} in
      with_items s (e' :: remove k (items s))
  | None =>
      let e' := {| e_key := k; e_val := v; e_created := now; e_stored := now; e_touch := tick s |} in
      let l := e' :: items s in
      if Z.of_nat (length l) >? cap s
      then bump_evict (with_items s (evict_oldest l))
      else with_items s l
  end.

Definition delete (s : lru) (k : K) : lru * bool :=
  match lookup k (items s) with
  | Some _ => (with_items s (remove k (items s)), true)
  | None => (s, false)
  end.

Definition clear (s : lru) : lru :=
  {| cap := cap s; ttl := ttl s; items := []; hits := 0; misses := 0; evictions := 0; tick := tick s |}.

(* Walk from the cold end while entries are expired; stop at the first live one.
   [sweep_rev] works on the reversed list (cold end first) and returns (kept_rev, removed). *)
Fixpoint sweep_rev (s : lru) (now : Z) (l : list entry) : list entry * Z :=
  match l with
  | [] => ([], 0)
  | e :: r => if now - e_created e >? ttl s
              then let '(k, n) := sweep_rev s now r in (k, n + 1)
              else (l, 0)
  end.

Definition cleanup (s : lru) (now : Z) : lru * Z :=
  if ttl s <=? 0 then (s, 0)
  else let '(k, n) := sweep_rev s now (rev (items s)) in (with_items s (rev k), n).

Definition step (s : lru) (now : Z) (o : op) : lru * out :=
  let s := next_tick s in
  match o with
  | Get k => let '(s', r) := get s now k in (s', OGet r)
  | Put k v => (put s now k v, OUnit)
  | Delete k => let '(s', b) := delete s k in (s', OBool b)
  | Clear => (clear s, OUnit)
  | Size => (s, OInt (Z.of_nat (length (items s))))
  | Capacity => (s, OInt (cap s))
  | Stats => (s, OStats (hits s) (misses s) (evictions s) (Z.of_nat (length (items s))) (cap s))
  | Keys => (s, OKeys (map e_key (items s)))
  | Cleanup => let '(s', n) := cleanup s now in (s', OInt n)
  end.

(* run a time-stamped history, collecting outputs *)
Fixpoint run (s : lru) (h : list (Z * op)) : lru * list out :=
  match h with
  | [] => (s, [])
  | (now, o) :: r => let '(s1, x) := step s now o in
                     let '(s2, xs) := run s1 r in (s2, x :: xs)
  end.

End Lru.

Arguments Get {K V}. Arguments Put {K V}. Arguments Delete {K V}. Arguments Clear {K V}.
Arguments Size {K V}. Arguments Capacity {K V}. Arguments Stats {K V}. Arguments Keys {K V}.
Arguments Cleanup {K V}.
Arguments OGet {K V}. Arguments OUnit {K V}. Arguments OBool {K V}. Arguments OInt {K V}.
Arguments OStats {K V}. Arguments OKeys {K V}.
Arguments e_key {K V}. Arguments e_val {K V}. Arguments e_created {K V}.
Arguments e_stored {K V}. Arguments e_touch {K V}.
Arguments cap {K V}. Arguments ttl {K V}. Arguments items {K V}. Arguments hits {K V}.
Arguments misses {K V}. Arguments evictions {K V}. Arguments tick {K V}.
