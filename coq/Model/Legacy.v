(* Model of Database.SearchWithPipelineOptions (internal/database/search.go), the scan search behind `wtf pipeline`:
   the frame around the per-command scorer.  calculateScore (a long table of word / category heuristics) is an oracle: its
   value for each command, for the word list  strings.Fields(strings.ToLower(query))  and the context boosts, enters as
   [score].  Everything the search does with those numbers is modelled: the pipeline-only filter, the pipeline boost, the
   "score > 0" gate, the stable descending sort, the default limit and the cut.  Executable definitions only. *)
From Coq Require Import List ZArith Bool Floats.
From WTF Require Import Model.Validate Model.Text Model.Platform Model.Engine.
Import ListNotations.

Section Legacy.
  Variable score : nat -> float.

  (* the scan: document order, one entry per command that passes the gate *)
  Definition pipeline_entry (pipeline_only : bool) (boost : float) (ic : nat * command) : list (nat * float) :=
    let '(i, c) := ic in
    if pipeline_only && negb (pipeline_cmd c) then []
    else
      let s0 := score i in
      let s := if pipeline_cmd c && PrimFloat.ltb 0 boost then (s0 * boost)%float else s0 in
      if PrimFloat.ltb 0 s then [(i, s)] else [].

  Definition pipeline_candidates (cmds : list command) (pipeline_only : bool) (boost : float) : list (nat * float) :=
    flat_map (pipeline_entry pipeline_only boost) (enumerate 0 cmds).

  (* constants.DefaultSearchLimit of the legacy entry points *)
  Definition legacy_limit (l : Z) : Z := if (l <=? 0)%Z then 5%Z else l.

  (* sortAndLimitResults *)
  Definition pipeline_search (cmds : list command) (pipeline_only : bool) (boost : float) (limit : Z) : list (nat * float) :=
    firstn (Z.to_nat (legacy_limit limit)) (sort_desc by_score (pipeline_candidates cmds pipeline_only boost)).
End Legacy.

(* the query reaches the scorer only as its word list: [wscore words i] is calculateScore of command i for these words *)
Definition pipeline_search_words (wscore : list bytes -> nat -> float) (words : list bytes)
           (cmds : list command) (pipeline_only : bool) (boost : float) (limit : Z) : list (nat * float) :=
  pipeline_search (wscore words) cmds pipeline_only boost limit.

(* ---- the word list: strings.Fields(strings.ToLower(query)), for ASCII queries ---- *)
Definition is_sp (b : N) : bool := N.eqb b 32 || (N.leb 9 b && N.leb b 13).

Fixpoint fields_acc (cur : bytes) (s : bytes) : list bytes :=
  match s with
  | [] => match cur with [] => [] | _ => [rev cur] end
  | b :: r => if is_sp b then match cur with [] => fields_acc [] r | _ => rev cur :: fields_acc [] r end
              else fields_acc (b :: cur) r
  end.

Definition ascii_fields (s : bytes) : list bytes := fields_acc [] s.
Definition legacy_words (q : bytes) : list bytes := ascii_fields (lower_ascii q).
