(* Model of internal/recovery: LoadDatabaseWithFallback, loadWithRetry, shouldRetry, calculateDelay,
   and database.LoadDatabaseWithPersonal.  The outcome of every file access is an input. *)
From Coq Require Import List ZArith NArith Bool QArith Qround.
From WTF Require Import Model.Validate Model.Text.
Import ListNotations.

(* what reading and decoding one file gives *)
Inductive access (A : Type) := AOk (cmds : list A) | ANotExist | APermission | AOtherRead | AParse.
Arguments AOk {A}. Arguments ANotExist {A}. Arguments APermission {A}. Arguments AOtherRead {A}. Arguments AParse {A}.

Inductive lerr := ENotFound | EPermission | EParse | EOther.

Section Retry.
Variable A : Type.

Definition classify (a : access A) : option lerr :=
  match a with AOk _ => None | ANotExist => Some ENotFound | APermission => Some EPermission | AParse => Some EParse | AOtherRead => Some EOther end.

(* LoadDatabaseWithPersonal: a missing notebook is tolerated, any other notebook failure is reported *)
Definition load_with_personal (main personal : access A) : list A + lerr :=
  match main with
  | AOk m => match personal with
             | AOk p => Datatypes.inl (m ++ p)
             | ANotExist => Datatypes.inl m
             | APermission => Datatypes.inr EPermission | AParse => Datatypes.inr EParse | AOtherRead => Datatypes.inr EOther
             end
  | ANotExist => Datatypes.inr ENotFound | APermission => Datatypes.inr EPermission | AParse => Datatypes.inr EParse | AOtherRead => Datatypes.inr EOther
  end.

(* shouldRetry: a missing or permission-denied file is not worth retrying *)
Definition should_retry (e : lerr) : bool := match e with ENotFound | EPermission => false | _ => true end.

Record rcfg := { r_attempts : Z; r_base : Q; r_max : Q; r_factor : Q }.

(* calculateDelay(attempt): base * factor^(attempt-1), capped *)
(* a wait is never negative and never above the configured maximum (a negative maximum means no wait) *)
Definition clampQ (d cap : Q) : Q :=
  let d0 := if Qle_bool 0%Q d then d else 0%Q in
  if Qle_bool d0 cap then d0 else (if Qle_bool 0%Q cap then cap else 0%Q).

Definition delay (c : rcfg) (attempt : nat) : Q :=
  clampQ (r_base c * Qpower (r_factor c) (Z.of_nat (attempt - 1)))%Q (r_max c).

(* the retry loop: [faults n] = outcome of attempt n (1-based) for (main, personal);
   returns the result, the number of attempts made, and the waits slept between them *)
Fixpoint retry_loop (c : rcfg) (faults : nat -> access A * access A) (attempt remaining : nat) : (list A + lerr) * nat * list Q :=
  let '(m, p) := faults attempt in
  match load_with_personal m p with
  | Datatypes.inl db => (Datatypes.inl db, attempt, [])
  | Datatypes.inr e =>
      if should_retry e then
        match remaining with
        | O => (Datatypes.inr e, attempt, [])
        | S r => let '(res, n, ws) := retry_loop c faults (S attempt) r in (res, n, delay c attempt :: ws)
        end
      else (Datatypes.inr e, attempt, [])
  end.

(* the number of attempts is at least one, whatever the configuration says *)
Definition attempts_of (c : rcfg) : nat := Z.to_nat (Z.max 1 (r_attempts c)).

Definition load_with_retry (c : rcfg) (faults : nat -> access A * access A) := retry_loop c faults 1 (attempts_of c - 1).

(* the fallback ladder: embedded database (always available, non-empty), then backup, then minimal *)
Variable embedded : list A.

Definition load_with_fallback (c : rcfg) (faults : nat -> access A * access A) : list A * nat * list Q :=
  let '(res, n, ws) := load_with_retry c faults in
  match res with Datatypes.inl db => (db, n, ws) | Datatypes.inr _ => (embedded, n, ws) end.

End Retry.
