(* Model of `wtf save` / `wtf save-pipeline` (internal/cli/save.go, pipeline.go): the notebook as a list of
   entries; the YAML codec is an oracle (decode (encode book) = book is what the harness tests). *)
From Coq Require Import List NArith ZArith Bool String Ascii Decimal DecimalString.
From WTF Require Import Model.Validate Model.Text.
Import ListNotations.
Local Open Scope string_scope.

Record nentry := { n_cmd : bytes; n_desc : bytes; n_keys : list bytes; n_tags : list bytes; n_niche : bytes; n_platforms : list bytes; n_pipeline : bool }.

(* saveToPersonalDatabase: replace the first entry with the same command string in place, else append *)
Fixpoint save_entry (book : list nentry) (e : nentry) : list nentry :=
  match book with
  | [] => [e]
  | x :: r => if bytes_eqb (n_cmd x) (n_cmd e) then e :: r else x :: save_entry r e
  end.

Definition bytes_of_string (s : string) : bytes := map (fun b => Byte.to_N b) (list_byte_of_string s).
Definition dec_bytes (n : nat) : bytes := bytes_of_string (NilEmpty.string_of_uint (Nat.to_uint n)).

Definition count_byte (b : N) (s : bytes) : nat := List.length (filter (N.eqb b) s).

(* save-pipeline: derived description and keywords *)
Definition pipeline_entry (name cmd : bytes) (desc : option bytes) (keys : list bytes) (niche : bytes) (platforms : list bytes) : nentry :=
  let steps := S (count_byte 124 cmd) in
  let d := match desc with
           | Some d => d
           | None => (name ++ bytes_of_string " - " ++ dec_bytes steps ++ bytes_of_string "-step pipeline")%list end in
  let has (w : string) := contains cmd (bytes_of_string w) in
  let auto := ([bytes_of_string "pipeline"; bytes_of_string "workflow"] ++
               (if has "grep" then [bytes_of_string "search"; bytes_of_string "filter"] else []) ++
               (if has "awk" || has "sed" then [bytes_of_string "text"; bytes_of_string "processing"] else []) ++
               (if has "sort" then [bytes_of_string "sort"; bytes_of_string "order"] else []) ++
               (if has "find" then [bytes_of_string "find"; bytes_of_string "search"] else []))%list in
  {| n_cmd := cmd; n_desc := d; n_keys := (auto ++ keys)%list; n_tags := []; n_niche := niche; n_platforms := platforms; n_pipeline := true |}.
