(* Model of internal/context/analyzer.go: project-type detection from a directory listing, Makefile targets, boost map.
   Executable definitions only.  The listing is the list of entry names in the order os.ReadDir returns them;
   package.json parsing (encoding/json) is an oracle: the script names enter as data. *)
From Coq Require Import List String NArith ZArith Bool Floats Ascii.
From WTF Require Import Model.Validate Model.Text.
Import ListNotations.
Close Scope string_scope.


Fixpoint has_suffix_rev (rsuf rs : bytes) : bool :=
  match rsuf, rs with
  | [], _ => true
  | a :: p, b :: q => N.eqb a b && has_suffix_rev p q
  | _ :: _, [] => false
  end.
Definition has_suffix (s suf : bytes) : bool := has_suffix_rev (rev suf) (rev s).

Definition is_name (f : bytes) (n : string) : bool := bytes_eqb f (bs n).
Definition one_of (f : bytes) (ns : list string) : bool := existsb (is_name f) ns.
Definition ends (f : bytes) (n : string) : bool := has_suffix f (bs n).
Definition has (f : bytes) (n : string) : bool := contains f (bs n).

Definition ptype := bytes.
Definition P (n : string) : ptype := bs n.

(* analyzeFile: the checks in the order the code runs them; each appends to ProjectTypes *)
Definition types_of_file (f : bytes) : list ptype :=
  (if is_name f ".git" then [P "git"] else []) ++
  (if one_of f ["Dockerfile"; "docker-compose.yml"; "docker-compose.yaml"]%string then [P "docker"] else []) ++
  (if one_of f ["package.json"; "node_modules"; "yarn.lock"; "pnpm-lock.yaml"]%string then [P "node"]
   else if one_of f ["webpack.config.js"; "webpack.config.ts"]%string then [P "webpack"]
   else if one_of f ["vite.config.js"; "vite.config.ts"]%string then [P "vite"] else []) ++
  (if one_of f ["requirements.txt"; "setup.py"; "pyproject.toml"; "Pipfile"]%string then [P "python"] else []) ++
  (if one_of f ["go.mod"; "go.sum"]%string then [P "go"] else []) ++
  (if one_of f ["Cargo.toml"; "Cargo.lock"]%string then [P "rust"] else []) ++
  (if one_of f ["pom.xml"; "build.gradle"; "build.gradle.kts"]%string then [P "java"] else []) ++
  (if ends f ".csproj" || ends f ".vbproj" || ends f ".fsproj" then [P "dotnet"]
   else if one_of f ["global.json"; "nuget.config"]%string then [P "dotnet"] else []) ++
  (if one_of f ["Gemfile"; "Rakefile"]%string then [P "ruby"] else []) ++
  (if one_of f ["composer.json"; "composer.lock"]%string then [P "php"] else []) ++
  (if is_name f "CMakeLists.txt" then [P "c"]
   else if one_of f ["Makefile"; "makefile"]%string then [P "make"] else []) ++
  (if (has f "k8s" || has f "kubernetes") && (ends f ".yaml" || ends f ".yml") then [P "kubernetes"]
   else if one_of f ["kustomization.yaml"; "kustomization.yml"]%string then [P "kubernetes"] else []) ++
  (if ends f ".tf" || ends f ".tfvars" then [P "terraform"] else []) ++
  (if one_of f ["ansible.cfg"; "hosts"; "inventory"]%string then [P "ansible"]
   else if has f "playbook" && (ends f ".yml" || ends f ".yaml") then [P "ansible"] else []).

(* removeDuplicateProjectTypes: first occurrences, in order *)
Fixpoint dedup (seen : list ptype) (l : list ptype) : list ptype :=
  match l with
  | [] => []
  | t :: r => if mem_bytes t seen then dedup seen r else t :: dedup (t :: seen) r
  end.

Definition raw_types (listing : list bytes) : list ptype := flat_map types_of_file listing.

Definition detect (listing : list bytes) : list ptype :=
  match dedup [] (raw_types listing) with
  | [] => [P "generic"]
  | d => d
  end.

(* ---- Makefile targets (extractMakeTargets) ---- *)
Fixpoint split_on (sep : N) (cur : bytes) (s : bytes) : list bytes :=
  match s with
  | [] => [rev cur]
  | b :: r => if N.eqb b sep then rev cur :: split_on sep [] r else split_on sep (b :: cur) r
  end.

Fixpoint drop_space (ts : list tok) : list tok :=
  match ts with
  | t :: r => if is_space t then drop_space r else ts
  | [] => []
  end.

(* strings.TrimSpace *)
Definition trim_space (s : bytes) : bytes := flat (rev (drop_space (rev (drop_space (decode s))))).

Definition make_target_of_line (line0 : bytes) : option bytes :=
  let line := trim_space line0 in
  if existsb (N.eqb 58) line && negb (is_prefix [35] line) && negb (is_prefix [9] line) then
    match split_on 58 [] line with
    | p0 :: _ =>
        let target := trim_space p0 in
        if negb (existsb (N.eqb 61) target) && negb (is_prefix [46] target) && negb (match target with [] => true | _ => false end)
        then Some target else None
    | [] => None
    end
  else None.

Definition make_targets (text : bytes) : list bytes :=
  flat_map (fun l => match make_target_of_line l with Some t => [t] | None => [] end) (split_on 10 [] text).

(* ---- boosts ---- *)
Open Scope float_scope.
Definition boost_table : list (string * list (string * float)) := [
  ("git", [("git", 0x1.0000000000000p+1); ("commit", 0x1.8000000000000p+0); ("branch", 0x1.8000000000000p+0); ("merge", 0x1.8000000000000p+0); ("pull", 0x1.8000000000000p+0); ("push", 0x1.8000000000000p+0); ("clone", 0x1.8000000000000p+0); ("checkout", 0x1.8000000000000p+0)]);
  ("docker", [("docker", 0x1.0000000000000p+1); ("container", 0x1.ccccccccccccdp+0); ("image", 0x1.8000000000000p+0); ("build", 0x1.4cccccccccccdp+0); ("run", 0x1.4cccccccccccdp+0); ("compose", 0x1.8000000000000p+0)]);
  ("node", [("npm", 0x1.0000000000000p+1); ("yarn", 0x1.0000000000000p+1); ("node", 0x1.ccccccccccccdp+0); ("javascript", 0x1.8000000000000p+0); ("package", 0x1.4cccccccccccdp+0); ("install", 0x1.4cccccccccccdp+0)]);
  ("python", [("python", 0x1.0000000000000p+1); ("pip", 0x1.0000000000000p+1); ("virtual", 0x1.8000000000000p+0); ("venv", 0x1.8000000000000p+0); ("conda", 0x1.8000000000000p+0); ("requirements", 0x1.4cccccccccccdp+0)]);
  ("go", [("go", 0x1.0000000000000p+1); ("mod", 0x1.ccccccccccccdp+0); ("build", 0x1.8000000000000p+0); ("test", 0x1.8000000000000p+0); ("run", 0x1.4cccccccccccdp+0)]);
  ("rust", [("cargo", 0x1.0000000000000p+1); ("rust", 0x1.ccccccccccccdp+0); ("build", 0x1.8000000000000p+0); ("test", 0x1.8000000000000p+0)]);
  ("java", [("java", 0x1.0000000000000p+1); ("maven", 0x1.ccccccccccccdp+0); ("gradle", 0x1.ccccccccccccdp+0); ("build", 0x1.8000000000000p+0); ("compile", 0x1.8000000000000p+0)]);
  ("dotnet", [("dotnet", 0x1.0000000000000p+1); ("nuget", 0x1.ccccccccccccdp+0); ("build", 0x1.8000000000000p+0); ("restore", 0x1.8000000000000p+0)]);
  ("ruby", [("ruby", 0x1.0000000000000p+1); ("gem", 0x1.ccccccccccccdp+0); ("bundle", 0x1.8000000000000p+0); ("rake", 0x1.8000000000000p+0)]);
  ("php", [("php", 0x1.0000000000000p+1); ("composer", 0x1.ccccccccccccdp+0); ("artisan", 0x1.8000000000000p+0); ("laravel", 0x1.4cccccccccccdp+0)]);
  ("c", [("gcc", 0x1.0000000000000p+1); ("make", 0x1.ccccccccccccdp+0); ("cmake", 0x1.ccccccccccccdp+0); ("compile", 0x1.8000000000000p+0); ("build", 0x1.8000000000000p+0)]);
  ("cpp", [("gcc", 0x1.0000000000000p+1); ("make", 0x1.ccccccccccccdp+0); ("cmake", 0x1.ccccccccccccdp+0); ("compile", 0x1.8000000000000p+0); ("build", 0x1.8000000000000p+0)]);
  ("kubernetes", [("kubectl", 0x1.0000000000000p+1); ("kubernetes", 0x1.ccccccccccccdp+0); ("k8s", 0x1.ccccccccccccdp+0); ("pod", 0x1.8000000000000p+0); ("service", 0x1.4cccccccccccdp+0); ("deploy", 0x1.4cccccccccccdp+0)]);
  ("terraform", [("terraform", 0x1.0000000000000p+1); ("plan", 0x1.ccccccccccccdp+0); ("apply", 0x1.ccccccccccccdp+0); ("destroy", 0x1.8000000000000p+0); ("init", 0x1.8000000000000p+0)]);
  ("ansible", [("ansible", 0x1.0000000000000p+1); ("playbook", 0x1.ccccccccccccdp+0); ("inventory", 0x1.8000000000000p+0); ("vault", 0x1.8000000000000p+0)]);
  ("webpack", [("webpack", 0x1.0000000000000p+1); ("build", 0x1.8000000000000p+0); ("bundle", 0x1.8000000000000p+0)]);
  ("vite", [("vite", 0x1.0000000000000p+1); ("build", 0x1.8000000000000p+0); ("dev", 0x1.8000000000000p+0)]);
  ("make", [("make", 0x1.0000000000000p+1); ("build", 0x1.8000000000000p+0)])
]%string.
Definition script_boost : float := 0x1.4cccccccccccdp+0.   (* 1.3 *)
Close Scope float_scope.

Definition table_of (t : ptype) : list (bytes * float) :=
  match find (fun e => bytes_eqb (bs (fst e)) t) boost_table with
  | Some e => map (fun kv => (bs (fst kv), snd kv)) (snd e)
  | None => []
  end.

(* the assignments GetContextBoosts performs, in program order (a later assignment to a key wins) *)
Definition boost_writes (types : list ptype) (scripts targets : list bytes) : list (bytes * float) :=
  flat_map table_of types ++ map (fun s => (s, script_boost)) scripts ++ map (fun t => (t, script_boost)) targets.

(* the resulting map: last write per key *)
Fixpoint lookup_last (k : bytes) (ws : list (bytes * float)) (acc : option float) : option float :=
  match ws with
  | [] => acc
  | (k', v) :: r => lookup_last k r (if bytes_eqb k k' then Some v else acc)
  end.

Definition boost_lookup (types : list ptype) (scripts targets : list bytes) (k : bytes) : option float :=
  lookup_last k (boost_writes types scripts targets) None.

Definition boost_keys (types : list ptype) (scripts targets : list bytes) : list bytes :=
  dedup [] (map fst (boost_writes types scripts targets)).

(* ---- the listing itself: os.ReadDir returns the entries sorted by file name (byte-wise string order) ---- *)
Fixpoint bytes_leb (a b : bytes) : bool :=
  match a, b with
  | [], _ => true
  | _ :: _, [] => false
  | x :: a', y :: b' => if N.ltb x y then true else if N.eqb x y then bytes_leb a' b' else false
  end.

Fixpoint insert_name (x : bytes) (l : list bytes) : list bytes :=
  match l with
  | [] => [x]
  | y :: r => if bytes_leb x y then x :: l else y :: insert_name x r
  end.

Definition sort_names (l : list bytes) : list bytes := fold_right insert_name [] l.

(* the analysis of a directory whose entries were created / are stored in any order *)
Definition analyze_names (names : list bytes) : list ptype := detect (sort_names names).
