(* C11: the logic of concurrent use.
   (1) lock discipline: a table (regenerated from the Go source on every run) of accesses
       (type, method, field, read/write, lock mode held); [well_locked] says no two conflicting accesses
       of the property's call set can overlap;
   (2) an interleaving machine for a mutex-protected object whose call bodies are single steps
       (which is what (1) licenses), and the sequential history every execution linearizes to;
   (3) a search for a linearization of a RECORDED history of the real LRU cache against Model/Lru.v. *)
From Coq Require Import List String ZArith NArith Bool.
From WTF Require Import Model.Lru.
Import ListNotations.
Open Scope string_scope.

Inductive lmode := MNone | MShared | MExcl | MAtomic.
Record access := { a_type : string; a_method : string; a_field : string; a_write : bool; a_mode : lmode; a_guard : string }.

(* methods that are not among the calls the property quantifies over (switches, replacement, loading);
   unexported helpers are inlined at their call sites by the walker, their stand-alone rows are skipped too *)
Definition outside_callset : list (string * string) :=
  [("Manager", "Enable"); ("SearchCache", "Enable"); ("PerformanceMonitor", "Enable"); ("Collector", "Reset");
   ("CachedDatabase", "UpdateDatabase"); ("CachedDatabase", "EnableCache"); ("MonitoredDatabase", "LoadDatabaseWithMonitoring");
   ("MonitoredDatabase", "EnableMonitoring");
   ("Database", "BuildUniversalIndex"); ("Database", "buildTFIDFSearcher"); ("Database", "LoadEmbeddings");
   ("LRUCache", "evictOldest"); ("LRUCache", "removeElement"); ("Counter", "Reset")].

Definition in_callset (a : access) : bool :=
  negb (existsb (fun p => String.eqb (fst p) (a_type a) && String.eqb (snd p) (a_method a)) outside_callset).

Definition mode_eqb (x y : lmode) : bool :=
  match x, y with MNone, MNone | MShared, MShared | MExcl, MExcl | MAtomic, MAtomic => true | _, _ => false end.

(* one of the two holds the lock exclusively while the other holds it at all *)
Definition excludes (x y : lmode) : bool :=
  match x, y with
  | MExcl, MShared | MExcl, MExcl | MShared, MExcl => true
  | _, _ => false
  end.

(* the lazily rebuilt index: a write under `uIndex == nil || N != len(Commands)`; dead code when the index is
   fresh, which holds after any load and is preserved by every call of the call set *)
Definition guarded_dead (a : access) : bool := String.eqb (a_guard a) "stale".

Definition same_field (a b : access) : bool := String.eqb (a_type a) (a_type b) && String.eqb (a_field a) (a_field b).

Definition compatible (a b : access) : bool :=
  negb (same_field a b) || negb (a_write a || a_write b) ||
  excludes (a_mode a) (a_mode b) || (mode_eqb (a_mode a) MAtomic && mode_eqb (a_mode b) MAtomic) ||
  guarded_dead a || guarded_dead b.

Definition well_locked (t : list access) : bool :=
  let cs := filter in_callset t in
  forallb (fun a => forallb (fun b => compatible a b) cs) cs.

(* first offending pair, for the replay *)
Definition first_conflict (t : list access) : option (access * access) :=
  let cs := filter in_callset t in
  match find (fun a => existsb (fun b => negb (compatible a b)) cs) cs with
  | Some a => match find (fun b => negb (compatible a b)) cs with Some b => Some (a, b) | None => None end
  | None => None
  end.

(* ---------- interleaving machine ---------- *)

Section Machine.
Variables S Op Res : Type.
Variable step : S -> Op -> S * Res.
Variable res_eqb : Res -> Res -> bool.

Inductive event := EInv (t : nat) (o : Op) | EBody (t : nat) | ERet (t : nat) (r : Res).
Inductive phase := Idle | Invoked (o : Op) | Finished (o : Op) (r : Res).

Record mstate := { m_shared : S; m_phase : nat -> phase; m_lin : list (nat * Op * Res) }.

Definition set_phase (f : nat -> phase) (t : nat) (p : phase) : nat -> phase := fun u => if Nat.eqb u t then p else f u.

Definition mstep (m : mstate) (e : event) : option mstate :=
  match e with
  | EInv t o => match m_phase m t with
                | Idle => Some {| m_shared := m_shared m; m_phase := set_phase (m_phase m) t (Invoked o); m_lin := m_lin m |}
                | _ => None end
  | EBody t => match m_phase m t with
               | Invoked o => let '(s', r) := step (m_shared m) o in
                              Some {| m_shared := s'; m_phase := set_phase (m_phase m) t (Finished o r); m_lin := m_lin m ++ [(t, o, r)] |}
               | _ => None end
  | ERet t r => match m_phase m t with
                | Finished o r' => if res_eqb r r' then Some {| m_shared := m_shared m; m_phase := set_phase (m_phase m) t Idle; m_lin := m_lin m |} else None
                | _ => None end
  end.

Fixpoint mrun (m : mstate) (es : list event) : option mstate :=
  match es with [] => Some m | e :: r => match mstep m e with Some m' => mrun m' r | None => None end end.

Definition minit (s : S) : mstate := {| m_shared := s; m_phase := fun _ => Idle; m_lin := [] |}.

(* the sequential run of a list of operations *)
Fixpoint seq_run (s : S) (ops : list Op) : S * list Res :=
  match ops with
  | [] => (s, [])
  | o :: r => let '(s1, x) := step s o in let '(s2, xs) := seq_run s1 r in (s2, x :: xs)
  end.
End Machine.

(* ---------- linearizability search for a recorded LRU history ---------- *)

Record lev := { v_op : @op N N; v_out : @out N N; v_inv : Z; v_ret : Z }.

Definition out_eqb11 (a b : @out N N) : bool :=
  match a, b with
  | OGet None, OGet None => true
  | OGet (Some x), OGet (Some y) => N.eqb x y
  | OUnit, OUnit => true
  | OBool x, OBool y => Bool.eqb x y
  | OInt x, OInt y => Z.eqb x y
  | OStats h m e s c, OStats h' m' e' s' c' => N.eqb h h' && N.eqb m m' && N.eqb e e' && Z.eqb s s'
  | _, _ => false
  end.

Fixpoint remove_nth {A} (n : nat) (l : list A) : list A :=
  match n, l with O, _ :: r => r | S k, x :: r => x :: remove_nth k r | _, [] => [] end.

(* e may be linearized next: no other pending call returned before e was invoked *)
Definition minimal (rem : list lev) (e : lev) : bool := forallb (fun f => negb (v_ret f <? v_inv e)%Z) rem.

(* (vm_compute is call-by-value: branches are guarded by if-then-else, never by && / ||, so that a pruned
   branch is not explored) *)
Fixpoint lin_search (fuel : nat) (s : lru N N) (rem : list lev) : bool :=
  match rem with
  | [] => true
  | _ =>
    match fuel with
    | O => false
    | S fuel' =>
        (fix try (cands : list (nat * lev)) : bool :=
           match cands with
           | [] => false
           | (i, e) :: more =>
               if minimal rem e then
                 let '(s', x) := step N N N.eqb s 0%Z (v_op e) in
                 if out_eqb11 x (v_out e) then
                   (if lin_search fuel' s' (remove_nth i rem) then true else try more)
                 else try more
               else try more
           end) (combine (seq 0 (List.length rem)) rem)
    end
  end.

Definition linearizable (cap : Z) (h : list lev) : bool := lin_search (S (List.length h)) (new N N cap 0%Z) h.
