package main

import (
	"encoding/json"
	"fmt"
	"math"
	"math/rand"
	"os"
	"path/filepath"
	"sort"

	wctx "github.com/Vedant9500/WTF/internal/context"
)

// C13 (context family): AnalyzeDirectory on generated directories; the listing, the Makefile texts and the script
// names (parsed here, independently, with encoding/json) go to the Coq model of the analyzer.

type ctxBoost struct {
	Key []int  `json:"k"`
	Val string `json:"v"` // hex float
}

type ctxEntry struct {
	Name    []int `json:"name"`
	Dir     bool  `json:"dir"`
	Content []int `json:"content,omitempty"`
}

type ctxCase struct {
	ID      int        `json:"id"`
	Seed    int64      `json:"seed"`
	Family  string     `json:"family"`
	Entries []ctxEntry `json:"entries"` // what is created
	// observed
	Listing   [][]int    `json:"listing"`   // os.ReadDir order
	Makefiles [][]int    `json:"makefiles"` // contents of the readable Makefile / makefile entries, in listing order
	Scripts   [][]int    `json:"scripts"`   // oracle: script names of package.json as encoding/json decodes them (sorted)
	Types     [][]int    `json:"types"`
	Types2    [][]int    `json:"types2"` // a second analysis of the same directory
	Boosts    []ctxBoost `json:"boosts"` // sorted by key
	Boosts2   []ctxBoost `json:"boosts2"`
	Targets   [][]int    `json:"targets"`
	ObsScript [][]int    `json:"obs_scripts"` // sorted
	Err       bool       `json:"err"`
	BadBoost  bool       `json:"bad_boost"` // some boost is NaN / Inf / < 1
	Probe     []ctxBoost `json:"probe"`     // boosts of a fixed second directory (.git and a Dockerfile) analysed right after this one
	// a replica of the directory - same names, same contents - created in the reverse order on a file system that lists
	// entries by creation (tmpfs), when one is available: the listing is the same, so the answer must be
	HasReplica bool       `json:"has_replica"`
	Types3     [][]int    `json:"types3"`
	Boosts3    []ctxBoost `json:"boosts3"`
}

var ctxNames = []string{".git", "Dockerfile", "docker-compose.yml", "docker-compose.yaml", "package.json", "node_modules", "yarn.lock", "pnpm-lock.yaml",
	"webpack.config.js", "webpack.config.ts", "vite.config.js", "vite.config.ts", "requirements.txt", "setup.py", "pyproject.toml", "Pipfile", "go.mod", "go.sum",
	"Cargo.toml", "Cargo.lock", "pom.xml", "build.gradle", "build.gradle.kts", "app.csproj", "lib.vbproj", "x.fsproj", ".csproj", "global.json", "nuget.config",
	"Gemfile", "Rakefile", "composer.json", "composer.lock", "CMakeLists.txt", "Makefile", "makefile", "my-k8s-deploy.yaml", "kubernetes.yml", "k8s.txt",
	"kubernetes-notes.md", "kustomization.yaml", "kustomization.yml", "main.tf", "prod.tfvars", "tf", "ansible.cfg", "hosts", "inventory", "site-playbook.yml",
	"playbook.yaml", "playbook.txt",
	// near misses and noise
	"README.md", "main.go", ".gitignore", "Dockerfile.bak", "dockerfile", "package.json5", "PACKAGE.JSON", "Makefile.am", "GNUmakefile", "go.mod.bak", "a.csproj.user",
	"x.tf.json", "hosts.txt", "Inventory", "cargo.toml", "日本語.txt", "with space", "zzz", "0", "-", "k8s.yaml.bak", "playbook.yml.j2"}

var ctxMakeLines = []string{"build: deps", "\tgo build ./...", "# comment: not a target", ".PHONY: all build", "VAR = a:b", "VAR := x", "test:", "  indented: x y",
	"a b: c", "install:", "x=1: y", "", ": empty", "日本: x", "clean::", " nbsp: x", "　wide:　", "all: build test", "build: again", "%.o: %.c",
	"$(BIN): main.go", "no colon here", "trailing: ", "\ttab: inside", "url = http://x", "docker: ; docker build .", "\r", "crlf: x\r", "\xff\xfe: raw", "a:b:c", " . : dot"}

var ctxPkg = []string{`{"name":"x","scripts":{"build":"webpack","test":"jest","lint":"eslint ."}}`, `{"name":"x"}`, `{"scripts":{}}`, `{"scripts":{"start":"node ."}}`,
	`{"scripts":null}`, `{"scripts":{"a":1}}`, `{"scripts":"none"}`, `not json`, ``, `{"scripts":{"build":"x","build":"y","deploy prod":"z","":"e"}}`,
	`{"scripts":{"日本":"x","run":"y"}}`, `[1,2]`, `{"scripts":{"install":"x","test":"y"}} trailing`}

func ctxSorted(m map[string]float64) ([]ctxBoost, bool) {
	keys := make([]string, 0, len(m))
	for k := range m {
		keys = append(keys, k)
	}
	sort.Strings(keys)
	out := []ctxBoost{}
	bad := false
	for _, k := range keys {
		v := m[k]
		if math.IsNaN(v) || math.IsInf(v, 0) || v < 1 {
			bad = true
		}
		out = append(out, ctxBoost{Key: ints(k), Val: hexf(v)})
	}
	return out, bad
}

func ctxTypes(c *wctx.Context) [][]int {
	out := [][]int{}
	for _, t := range c.ProjectTypes {
		out = append(out, ints(string(t)))
	}
	return out
}

func ctxRun(c *ctxCase, dir string) {
	d := filepath.Join(dir, fmt.Sprintf("d%d", c.ID))
	os.RemoveAll(d)
	os.MkdirAll(d, 0o755)
	defer os.RemoveAll(d)
	for _, e := range c.Entries {
		p := filepath.Join(d, fromInts(e.Name))
		if e.Dir {
			os.Mkdir(p, 0o755)
		} else {
			os.WriteFile(p, []byte(fromInts(e.Content)), 0o644)
		}
	}
	c.Listing, c.Makefiles, c.Scripts = [][]int{}, [][]int{}, [][]int{}
	files, _ := os.ReadDir(d)
	for _, f := range files {
		c.Listing = append(c.Listing, ints(f.Name()))
		if f.Name() == "Makefile" || f.Name() == "makefile" {
			if data, err := os.ReadFile(filepath.Join(d, f.Name())); err == nil {
				c.Makefiles = append(c.Makefiles, ints(string(data)))
			}
		}
		if f.Name() == "package.json" {
			if data, err := os.ReadFile(filepath.Join(d, f.Name())); err == nil {
				var pkg struct {
					Scripts map[string]string `json:"scripts"`
				}
				if json.Unmarshal(data, &pkg) == nil {
					var ks []string
					for k := range pkg.Scripts {
						ks = append(ks, k)
					}
					sort.Strings(ks)
					c.Scripts = intsList(ks)
				}
			}
		}
	}
	a := wctx.NewAnalyzer()
	pc, err := a.AnalyzeDirectory(d)
	if err != nil || pc == nil {
		c.Err = true
		return
	}
	c.Types = ctxTypes(pc)
	c.Boosts, c.BadBoost = ctxSorted(pc.GetContextBoosts())
	c.Targets = intsList(pc.MakeTargets)
	var ks []string
	for k := range pc.PackageScripts {
		ks = append(ks, k)
	}
	sort.Strings(ks)
	c.ObsScript = intsList(ks)
	// what was analysed before must not matter: a fixed directory analysed now must get the boosts of ITS listing
	pd := filepath.Join(dir, "probe")
	os.MkdirAll(filepath.Join(pd, ".git"), 0o755)
	os.WriteFile(filepath.Join(pd, "Dockerfile"), nil, 0o644)
	if pp, err := wctx.NewAnalyzer().AnalyzeDirectory(pd); err == nil && pp != nil {
		c.Probe, _ = ctxSorted(pp.GetContextBoosts())
	}
	if pc2, err := wctx.NewAnalyzer().AnalyzeDirectory(d); err == nil && pc2 != nil {
		c.Types2 = ctxTypes(pc2)
		c.Boosts2, _ = ctxSorted(pc2.GetContextBoosts())
	}
	if st, err := os.Stat("/dev/shm"); err == nil && st.IsDir() {
		rd, err := os.MkdirTemp("/dev/shm", "verif-ctx-")
		if err == nil {
			defer os.RemoveAll(rd)
			ok := true
			for i := len(c.Entries) - 1; i >= 0; i-- {
				e := c.Entries[i]
				p := filepath.Join(rd, fromInts(e.Name))
				if e.Dir {
					ok = ok && os.Mkdir(p, 0o755) == nil
				} else {
					ok = ok && os.WriteFile(p, []byte(fromInts(e.Content)), 0o644) == nil
				}
			}
			if pc3, err := wctx.NewAnalyzer().AnalyzeDirectory(rd); ok && err == nil && pc3 != nil {
				c.HasReplica = true
				c.Types3 = ctxTypes(pc3)
				c.Boosts3, _ = ctxSorted(pc3.GetContextBoosts())
			}
		}
	}
}

func ctxGen(r *rand.Rand, id int) ctxCase {
	c := ctxCase{ID: id, Family: "ctx"}
	used := map[string]bool{}
	add := func(name string) {
		if used[name] || name == "" {
			return
		}
		used[name] = true
		e := ctxEntry{Name: ints(name), Dir: r.Intn(6) == 0}
		if name == ".git" || name == "node_modules" {
			e.Dir = r.Intn(4) != 0
		}
		if !e.Dir {
			switch name {
			case "Makefile", "makefile":
				txt := ""
				for i, k := 0, r.Intn(8); i < k; i++ {
					txt += ctxMakeLines[r.Intn(len(ctxMakeLines))] + "\n"
				}
				if r.Intn(3) == 0 && len(txt) > 0 {
					txt = txt[:len(txt)-1]
				}
				e.Content = ints(txt)
			case "package.json":
				e.Content = ints(ctxPkg[r.Intn(len(ctxPkg))])
			}
		}
		c.Entries = append(c.Entries, e)
	}
	switch {
	case id < len(ctxNames): // systematic sweep: each name alone, so that every row of the tables is compared on every run
		add(ctxNames[id])
	case id < 2*len(ctxNames): // ... and each name beside a Makefile and a package.json (boost overriding)
		add(ctxNames[id-len(ctxNames)])
		add("Makefile")
		add("package.json")
	default:
		for i, k := 0, r.Intn(9); i < k; i++ {
			add(ctxNames[r.Intn(len(ctxNames))])
		}
		if r.Intn(4) == 0 { // same type from non-adjacent markers
			pairs := [][]string{{"Dockerfile", "Makefile", "docker-compose.yml"}, {"package.json", "requirements.txt", "yarn.lock"}, {"go.mod", "hosts", "go.sum"},
				{"Cargo.lock", "Dockerfile", "Cargo.toml"}, {"a.tf", "kustomization.yaml", "z.tf"}, {"Gemfile", "Makefile", "Rakefile"}}
			for _, n := range pairs[r.Intn(len(pairs))] {
				add(n)
			}
		}
	}
	return c
}

func runC13Ctx(seed int64, n int, replay string, e *emitter) {
	dir := mustTemp("verif-ctx-")
	defer os.RemoveAll(dir)
	if replay != "" {
		for _, raw := range readReplay(replay) {
			var c ctxCase
			if json.Unmarshal(raw, &c) != nil {
				continue
			}
			in := ctxCase{ID: c.ID, Seed: c.Seed, Family: "ctx", Entries: c.Entries}
			ctxRun(&in, dir)
			e.emit(in)
		}
		return
	}
	for i := 0; i < n; i++ {
		r := rand.New(rand.NewSource(seed*1000003 + int64(i)))
		c := ctxGen(r, i)
		c.Seed = seed
		ctxRun(&c, dir)
		e.emit(c)
	}
}

func init() { runners["c13ctx"] = runC13Ctx }
