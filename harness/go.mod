module github.com/Vedant9500/WTF/verifharness

go 1.25.5

require (
	github.com/Vedant9500/WTF v0.0.0
	github.com/sahilm/fuzzy v0.1.1
	gopkg.in/yaml.v3 v3.0.1
)

require (
	github.com/spf13/cobra v1.9.1 // indirect
	github.com/spf13/pflag v1.0.6 // indirect
)

replace github.com/Vedant9500/WTF => /repo
