module github.com/Vedant9500/WTF/verifharness

go 1.25.5

require github.com/Vedant9500/WTF v0.0.0

replace github.com/Vedant9500/WTF => /repo
