package main

import (
	"encoding/json"
	"math/rand"
	"strings"

	"github.com/Vedant9500/WTF/internal/constants"
	apperrors "github.com/Vedant9500/WTF/internal/errors"
	"github.com/Vedant9500/WTF/internal/validation"
)

func ints(s string) []int {
	out := make([]int, len(s))
	for i := 0; i < len(s); i++ {
		out[i] = int(s[i])
	}
	return out
}

func fromInts(a []int) string {
	b := make([]byte, len(a))
	for i, x := range a {
		b[i] = byte(x)
	}
	return string(b)
}

type c14Res struct {
	Ok  bool   `json:"ok"`
	Out []int  `json:"out"`
	Err string `json:"err"`
	Int int    `json:"int"`
}

type c14Case struct {
	ID   int     `json:"id"`
	Kind string  `json:"kind"` // q | l
	Q    []int   `json:"q,omitempty"`
	N    int     `json:"n"`
	Def  int     `json:"def"`
	Res  c14Res  `json:"res"`
	Res2 *c14Res `json:"res2,omitempty"`
}

func errKind(err error) string {
	if err == nil {
		return ""
	}
	msg := err.Error()
	if ae, ok := err.(*apperrors.AppError); ok {
		msg = ae.Message
	}
	switch {
	case strings.HasPrefix(msg, "empty query"):
		return "empty"
	case strings.HasPrefix(msg, "query too long"):
		return "toolong"
	case strings.HasPrefix(msg, "invalid characters"):
		return "invalid"
	case strings.HasPrefix(msg, "invalid limit"):
		return "limit"
	}
	return "other:" + msg
}

var c14Atoms = []string{
	// letters / digits / punctuation
	"a", "b", "Z", "7", "-", ".", "?", "compress", "files", "git",
	// every unicode.IsSpace rune
	"\t", "\n", "\v", "\f", "\r", " ", " ", "  ", "\u0085", " ", " ", " ", " ", " ",
	" ", " ", " ", " ", "　",
	// near-misses of the space ranges
	"​", "᠎", "¡", "\u0084", "\u0086",
	// controls C0 / DEL / C1
	"\x00", "\x01", "\x08", "\x1b", "\x1f", "\x7f", "\u0080", "\u009f", "\u0090",
	// metacharacters
	"<", ">", "|", "&", ";", "$",
	// multi-byte
	"é", "ß", "日本", "😀", "�", "İ", "K",
	// invalid: lone continuation, lone leads, truncated, overlong, surrogate, too large
	"\x80", "\xbf", "\xc2", "\xe2\x80", "\xf0\x9f\x98", "\xc0\x80", "\xc1\xbf", "\xe0\x80\x80", "\xed\xa0\x80",
	"\xf4\x90\x80\x80", "\xf5", "\xff", "\xfe", "\xe2\x28\xa1", "\xf0\x28\x8c\x28",
}

func c14GenQ(r *rand.Rand) string {
	mode := r.Intn(100)
	var sb strings.Builder
	pick := func() string { return c14Atoms[r.Intn(len(c14Atoms))] }
	switch {
	case mode < 55: // short structured
		n := r.Intn(12)
		for i := 0; i < n; i++ {
			sb.WriteString(pick())
		}
	case mode < 65: // no metachar, mostly valid (so that it is accepted)
		n := 1 + r.Intn(10)
		for i := 0; i < n; i++ {
			a := pick()
			if strings.ContainsAny(a, "<>|&;$") {
				a = "x"
			}
			sb.WriteString(a)
			if r.Intn(2) == 0 {
				sb.WriteString(" ")
			}
		}
	case mode < 80: // boundary lengths 990..1010 bytes
		target := 990 + r.Intn(21)
		fill := []string{"a", " ", "é", "ab ", "\t"}[r.Intn(5)]
		for sb.Len()+len(fill) <= target {
			sb.WriteString(fill)
		}
		for sb.Len() < target {
			sb.WriteString("z")
		}
		if r.Intn(3) == 0 {
			s := sb.String()
			i := r.Intn(len(s))
			a := pick()
			if i+len(a) <= len(s) {
				s = s[:i] + a + s[i+len(a):]
			}
			sb.Reset()
			sb.WriteString(s)
		}
	case mode < 90: // many invalid bytes: expansion under replacement crosses 1000
		n := 300 + r.Intn(701)
		bad := []string{"\xff", "\x80", "a\xff", "\xc2", "\xe2\x80"}[r.Intn(5)]
		for sb.Len()+len(bad) <= n {
			sb.WriteString(bad)
		}
		if r.Intn(2) == 0 {
			sb.WriteString(" q")
		}
	case mode < 95: // whitespace / control only
		n := r.Intn(30)
		ws := []string{" ", "\t", "\n", " ", " ", "\x01", "\x7f", "\u0085", "\v"}
		for i := 0; i < n; i++ {
			sb.WriteString(ws[r.Intn(len(ws))])
		}
	default: // random bytes
		n := r.Intn(40)
		for i := 0; i < n; i++ {
			sb.WriteByte(byte(r.Intn(256)))
		}
	}
	return sb.String()
}

func c14RunQ(q string) (c14Res, *c14Res) {
	out, err := validation.ValidateQuery(q)
	res := c14Res{Ok: err == nil, Out: ints(out), Err: errKind(err)}
	if err != nil {
		return res, nil
	}
	out2, err2 := validation.ValidateQuery(out)
	res2 := c14Res{Ok: err2 == nil, Out: ints(out2), Err: errKind(err2)}
	return res, &res2
}

func runC14(seed int64, n int, replay string, e *emitter) {
	if replay != "" {
		for _, raw := range readReplay(replay) {
			var c c14Case
			if json.Unmarshal(raw, &c) != nil {
				continue
			}
			if c.Kind == "l" {
				v, err := validation.ValidateLimit(c.N)
				c.Def = constants.DefaultSearchLimit
				c.Res = c14Res{Ok: err == nil, Int: v, Err: errKind(err)}
			} else {
				c.Res, c.Res2 = c14RunQ(fromInts(c.Q))
			}
			e.emit(c)
		}
		return
	}
	r := rand.New(rand.NewSource(seed))
	id := 0
	for i := 0; i < n; i++ {
		q := c14GenQ(r)
		c := c14Case{ID: id, Kind: "q", Q: ints(q)}
		c.Res, c.Res2 = c14RunQ(q)
		e.emit(c)
		id++
	}
	lims := []int{-1 << 62, -1 << 31, -1000, 1 << 31, 1 << 62, 1000}
	for k := -5; k <= 105; k++ {
		lims = append(lims, k)
	}
	for _, k := range lims {
		v, err := validation.ValidateLimit(k)
		e.emit(c14Case{ID: id, Kind: "l", N: k, Def: constants.DefaultSearchLimit, Res: c14Res{Ok: err == nil, Int: v, Err: errKind(err)}})
		id++
	}
}

func init() { runners["c14"] = runC14 }
