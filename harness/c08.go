package main

import (
	"bytes"
	"encoding/json"
	"fmt"
	"math/rand"
	"os"
	"path/filepath"
	"strings"

	"github.com/Vedant9500/WTF/internal/database"
)

// C08: a saved command is stored faithfully, keeps its neighbours, is searchable.
// Sequences of `wtf save` / `wtf save-pipeline` through the BUILT binary in an isolated home.

type c08Entry struct {
	Cmd       []int   `json:"cmd"`
	Desc      []int   `json:"desc"`
	Keys      [][]int `json:"keys"`
	Tags      [][]int `json:"tags"`
	Niche     []int   `json:"niche"`
	Platforms [][]int `json:"platforms"`
	Pipeline  bool    `json:"pipeline"`
}

type c08Step struct {
	Kind      string  `json:"kind"`           // save | save-pipeline
	Name      []int   `json:"name,omitempty"` // save-pipeline: first argument
	Cmd       []int   `json:"cmd"`
	Desc      []int   `json:"desc"` // save: second argument; save-pipeline: --description value (may be empty = not given)
	HasDesc   bool    `json:"has_desc"`
	Keys      [][]int `json:"keys"`
	Niche     []int   `json:"niche"`
	Platforms [][]int `json:"platforms"`
	Pipeline  bool    `json:"pipeline"`
	// observed
	Exit     int        `json:"exit"`
	Panic    bool       `json:"panic"`
	Success  bool       `json:"success"`
	LoadErr  bool       `json:"load_err"`
	Book     []c08Entry `json:"book"`      // notebook re-loaded after the step
	Token    []int      `json:"token"`     // a content word of the saved command (nil: none)
	Found    bool       `json:"found"`     // the next search for that word has the saved entry among its results
	MergedOK bool       `json:"merged_ok"` // the searched database is main entries followed by notebook entries
}

type c08Case struct {
	ID    int        `json:"id"`
	Seed  int64      `json:"seed"`
	Start string     `json:"start"` // missing | empty | populated
	Init  []c08Entry `json:"init"`
	Steps []c08Step  `json:"steps"`
}

var c08Hostile = []string{"ls -la", "tar -czf backup.tar.gz /home/user", "docker ps -a --format 'table {{.Names}}\\t{{.Status}}'", "find . -name '*.go' -exec gofmt -w {} \\;",
	"- leading dash", "key: value", "# not a comment", "null", "true", "123", "1e3", "~", "{{.Names}}", "[a, b]", "{a: b}", "\"quoted\"", "'single'", "a: b: c", "| literal", "> folded",
	"& anchor", "* alias", "! tag", "% directive", "@ at", "` backtick", "trailing space ", " leading space", "two  spaces", "tab\there", "line1\nline2", "\nleading newline",
	"trailing newline\n", "\n#[:|{", "  indented first\nsecond", "cr\rhere", "bell\x07", "esc\x1b[0m", "nul-free \x01 ctrl", "invalid \xff\xfe utf8", "日本語 コマンド", "emoji 😀", "",
	"a", strings.Repeat("long ", 60), "cat f | grep x | sort | awk '{print $1}'", "x|y", "---", "...", "? question", ": colon", "yes", "No", "0x1F", "2024-01-01", "\u0085nel", " ls"}

func c08GenStep(r *rand.Rand, prev []c08Step) c08Step {
	var s c08Step
	if r.Intn(4) == 0 {
		s.Kind = "save-pipeline"
		s.Name = ints([]string{"text-stats", "top files", "n", "- x", "a: b"}[r.Intn(5)])
		s.Cmd = ints(c08Hostile[r.Intn(len(c08Hostile))])
		if r.Intn(3) == 0 {
			s.HasDesc = true
			s.Desc = ints(c08Hostile[r.Intn(len(c08Hostile))])
			if len(s.Desc) == 0 {
				s.HasDesc = false
			}
		}
	} else {
		s.Kind = "save"
		s.Cmd = ints(c08Hostile[r.Intn(len(c08Hostile))])
		s.Desc = ints(c08Hostile[r.Intn(len(c08Hostile))])
		s.Pipeline = r.Intn(5) == 0
	}
	if len(prev) > 0 && r.Intn(3) == 0 { // save an existing command string again
		s.Cmd = prev[r.Intn(len(prev))].Cmd
	}
	if r.Intn(8) == 0 { // a command string the main database already has (the notebook entry must still be merged and found)
		s.Cmd = ints([]string{"tar -xzf a.tgz", "df -h"}[r.Intn(2)])
	}
	simple := []string{"backup", "home dir", "docker", "日本", "x-y", "a.b", "Go"}
	for i, n := 0, r.Intn(3); i < n; i++ {
		s.Keys = append(s.Keys, ints(simple[r.Intn(len(simple))]))
	}
	if r.Intn(3) == 0 {
		s.Niche = ints([]string{"git", "my stuff", "- n", "null"}[r.Intn(4)])
	}
	if r.Intn(3) == 0 {
		s.Platforms = intsList([][]string{{"linux"}, {"linux", "macos"}, {"windows"}}[r.Intn(3)])
	}
	if len(prev) > 0 && r.Intn(4) == 0 { // the previous save of the same kind again with exactly ONE field changed
		var cands []c08Step
		for _, p := range prev {
			if p.Kind == "save" {
				cands = append(cands, p)
			}
		}
		if len(cands) > 0 {
			p := cands[r.Intn(len(cands))]
			s = c08Step{Kind: "save", Cmd: p.Cmd, Desc: p.Desc, Keys: p.Keys, Niche: p.Niche, Platforms: p.Platforms, Pipeline: p.Pipeline}
			switch r.Intn(5) {
			case 0:
				s.Platforms = intsList([][]string{{"linux", "macos"}, {"windows"}, {"linux"}, nil}[r.Intn(4)])
			case 1:
				s.Keys = append(append([][]int{}, p.Keys...), ints("extra"))
			case 2:
				s.Niche = ints([]string{"git", "other"}[r.Intn(2)])
			case 3:
				s.Pipeline = !p.Pipeline
			case 4:
				s.Desc = ints("changed description")
			}
		}
	}
	// a command string that differs from an earlier one only in a blank at its end or beginning is a different command string
	if h := len(s.Cmd) + len(s.Desc); len(prev) > 0 && h%6 == 1 {
		p := fromInts(prev[len(prev)-1].Cmd)
		s.Cmd = ints([]string{p + " ", " " + p, p + "\n"}[h/6%3])
	}
	// a list item that is not valid UTF-8 (the notebook stores it as a !!binary scalar)
	if h := len(s.Cmd) + len(s.Desc); h%11 == 0 {
		s.Keys = append(append([][]int{}, s.Keys...), ints("caf\xe9"))
	}
	// list items exactly as a shell can pass them: padded with blanks, or empty (`-k "tar, backup,"`)
	if h := len(s.Cmd) + len(s.Desc); len(s.Keys) > 0 {
		if h%5 == 0 {
			s.Keys = append([][]int{ints(" " + fromInts(s.Keys[0]) + "\t")}, s.Keys[1:]...)
		}
		if h%7 == 0 {
			s.Keys = append(append([][]int{}, s.Keys...), ints(""), ints("last"))
		}
	}
	if len(s.Platforms) > 0 && len(s.Cmd)%4 == 1 {
		s.Platforms = intsList([]string{"linux", " macOS "})
	}
	return s
}

func c08Args(s c08Step) []string {
	var a []string
	if s.Kind == "save" {
		a = []string{"save", "--", fromInts(s.Cmd), fromInts(s.Desc)}
	} else {
		a = []string{"save-pipeline", "--", fromInts(s.Name), fromInts(s.Cmd)}
	}
	// flags go before "--"
	var fl []string
	hasEmpty := false
	for _, k := range s.Keys {
		hasEmpty = hasEmpty || len(k) == 0
	}
	if hasEmpty { // an empty item can only be written inside a comma-separated value
		fl = append(fl, "--keywords", strings.Join(strsList(s.Keys), ","))
	} else {
		for _, k := range s.Keys {
			fl = append(fl, "--keywords", fromInts(k))
		}
	}
	if len(s.Niche) > 0 {
		fl = append(fl, "--category", fromInts(s.Niche))
	}
	if len(s.Platforms) > 0 {
		fl = append(fl, "--platforms", strings.Join(strsList(s.Platforms), ","))
	}
	if s.Kind == "save" && s.Pipeline {
		fl = append(fl, "--pipeline")
	}
	if s.Kind == "save-pipeline" && s.HasDesc {
		fl = append(fl, "--description", fromInts(s.Desc))
	}
	return append(append([]string{a[0]}, fl...), a[1:]...)
}

func c08Dump(path string) ([]c08Entry, bool) {
	db, err := database.LoadDatabase(path)
	if err != nil {
		return nil, true
	}
	out := []c08Entry{}
	for _, c := range db.Commands {
		out = append(out, c08Entry{Cmd: ints(c.Command), Desc: ints(c.Description), Keys: intsList(c.Keywords), Tags: intsList(c.Tags), Niche: ints(c.Niche), Platforms: intsList(c.Platform), Pipeline: c.Pipeline})
	}
	return out, false
}

func c08Run(c *c08Case, bin, dir string, mainFile string, mainN int) {
	home := filepath.Join(dir, fmt.Sprintf("home%d", c.ID))
	cwd := filepath.Join(dir, fmt.Sprintf("cwd%d", c.ID))
	os.MkdirAll(home, 0o755)
	os.MkdirAll(cwd, 0o755)
	defer os.RemoveAll(home)
	defer os.RemoveAll(cwd)
	book := filepath.Join(home, ".config", "cmd-finder", "personal.yml")
	switch c.Start {
	case "empty":
		os.MkdirAll(filepath.Dir(book), 0o755)
		os.WriteFile(book, nil, 0o644)
	case "populated":
		os.MkdirAll(filepath.Dir(book), 0o755)
		os.WriteFile(book, []byte("- command: \"git status\"\n  description: \"Show status\"\n  keywords: [\"git\", \"status\"]\n  tags: [\"vcs\", \"work tree\"]\n  pipeline: false\n- command: \"ls -la\"\n  description: \"older entry\"\n  keywords: []\n  pipeline: false\n"), 0o644)
	}
	c.Init, _ = c08Dump(book)
	if c.Start == "missing" {
		c.Init = []c08Entry{}
	}
	for i := range c.Steps {
		s := &c.Steps[i]
		args := c08Args(*s)
		bad := false
		for _, a := range args {
			if strings.ContainsRune(a, 0) {
				bad = true
			}
		}
		if bad {
			continue
		}
		run := c17Exec(bin, home, cwd, nil, args, "")
		s.Exit, s.Panic = run.exit, run.panic
		s.Success = bytes.Contains(run.stdout, []byte("saved successfully!"))
		s.Book, s.LoadErr = c08Dump(book)
		// searchability: the next search for a content word of the saved command line
		if s.Success && !s.LoadErr {
			toks := database.VerifTokenize(fromInts(s.Cmd))
			if len(toks) > 0 {
				s.Token = ints(toks[0])
				db, err := database.LoadDatabaseWithPersonal(mainFile, book)
				if err == nil {
					s.MergedOK = len(db.Commands) == mainN+len(s.Book)
					for j := range s.Book {
						if mainN+j >= len(db.Commands) || db.Commands[mainN+j].Command != fromInts(s.Book[j].Cmd) {
							s.MergedOK = false
						}
					}
					res := db.SearchUniversal(toks[0], database.SearchOptions{Limit: len(db.Commands) + 5, AllPlatforms: true})
					for _, r := range res {
						if r.Command.Command == fromInts(s.Cmd) && db.VerifIndexOf(r.Command) >= mainN {
							s.Found = true
						}
					}
				}
			}
		}
	}
}

func runC08(seed int64, n int, replay string, e *emitter) {
	bin := os.Getenv("VERIF_WTF_BIN")
	if bin == "" {
		fmt.Fprintln(os.Stderr, "VERIF_WTF_BIN not set")
		os.Exit(2)
	}
	dir := mustTemp("verif-c08-")
	defer os.RemoveAll(dir)
	mainFile := filepath.Join(dir, "main.yml")
	os.WriteFile(mainFile, []byte("- command: \"tar -xzf a.tgz\"\n  description: \"Extract archive\"\n  keywords: [\"tar\"]\n  pipeline: false\n- command: \"df -h\"\n  description: \"Disk usage\"\n  keywords: [\"disk\"]\n  pipeline: false\n"), 0o644)
	if replay != "" {
		for _, raw := range readReplay(replay) {
			var c c08Case
			if json.Unmarshal(raw, &c) != nil {
				continue
			}
			for i := range c.Steps {
				s := &c.Steps[i]
				s.Exit, s.Panic, s.Success, s.LoadErr, s.Book, s.Token, s.Found, s.MergedOK = 0, false, false, false, nil, nil, false, false
			}
			c08Run(&c, bin, dir, mainFile, 2)
			e.emit(c)
		}
		return
	}
	for i := 0; i < n; i++ {
		r := rand.New(rand.NewSource(seed*1000003 + int64(i)))
		c := c08Case{ID: i, Seed: seed, Start: []string{"missing", "empty", "populated"}[r.Intn(3)]}
		for j, k := 0, 1+r.Intn(6); j < k; j++ {
			c.Steps = append(c.Steps, c08GenStep(r, c.Steps))
		}
		c08Run(&c, bin, dir, mainFile, 2)
		e.emit(c)
	}
}

func init() { runners["c08"] = runC08 }
