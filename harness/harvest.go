package main

import (
	"go/ast"
	"go/parser"
	"go/token"
	"math/rand"
	"os"
	"path/filepath"
	"regexp/syntax"
	"sort"
	"strconv"
	"strings"
	"sync"

	"github.com/Vedant9500/WTF/internal/nlp"
)

// Query vocabulary harvested from the CURRENT source of the un-modelled NLP code: every string literal that the code
// compares a query against (argument of strings.Contains / HasPrefix / HasSuffix / EqualFold / Index, operand of == or !=,
// case label, map key) is a phrase some branch depends on. Queries built from these phrases reach those branches;
// nothing is hard-coded here, so new branches are reached as soon as they are written.

var (
	harvestOnce      sync.Once
	harvestCond      []string   // literals used in conditions
	harvestAll       []string   // every other word-like literal
	harvestGroups    [][]string // condition literals that sit within a few lines of each other (one decision)
	harvestTabGroups [][]string // a table key together with the keys it expands to
)

type condLit struct {
	file string
	line int
	s    string
}

// strings matching a regular expression (a few samples), plus its plain word fragments
func regexSample(re *syntax.Regexp, r *rand.Rand, b *strings.Builder) {
	switch re.Op {
	case syntax.OpLiteral:
		b.WriteString(string(re.Rune))
	case syntax.OpCharClass:
		if len(re.Rune) >= 2 {
			k := 2 * r.Intn(len(re.Rune)/2)
			lo, hi := re.Rune[k], re.Rune[k+1]
			if hi > lo+25 {
				hi = lo + 25
			}
			b.WriteRune(lo + rune(r.Intn(int(hi-lo)+1)))
		}
	case syntax.OpAnyChar, syntax.OpAnyCharNotNL:
		b.WriteByte('x')
	case syntax.OpCapture, syntax.OpPlus:
		regexSample(re.Sub[0], r, b)
	case syntax.OpStar, syntax.OpQuest:
		if r.Intn(2) == 0 {
			regexSample(re.Sub[0], r, b)
		}
	case syntax.OpRepeat:
		for i := 0; i < re.Min || i < 1 && re.Min == 0 && r.Intn(2) == 0; i++ {
			regexSample(re.Sub[0], r, b)
		}
	case syntax.OpConcat:
		for _, x := range re.Sub {
			regexSample(x, r, b)
		}
	case syntax.OpAlternate:
		regexSample(re.Sub[r.Intn(len(re.Sub))], r, b)
	}
}

func regexWords(s string) []string {
	var out []string
	if re, err := syntax.Parse(s, syntax.Perl); err == nil && strings.ContainsAny(s, "|()[]?+*") {
		r := rand.New(rand.NewSource(int64(len(s))))
		for i := 0; i < 4; i++ {
			var b strings.Builder
			regexSample(re, r, &b)
			if w := strings.TrimSpace(b.String()); wordLike(w) {
				out = append(out, w)
			}
		}
	}
	cur := []rune{}
	flush := func() {
		w := strings.TrimSpace(string(cur))
		if wordLike(w) {
			out = append(out, w)
		}
		cur = cur[:0]
	}
	for _, r := range s {
		if r >= 'a' && r <= 'z' || r >= 'A' && r <= 'Z' || r == ' ' {
			cur = append(cur, r)
		} else {
			flush()
		}
	}
	flush()
	return out
}

func wordLike(s string) bool {
	if len(s) < 2 || len(s) > 40 {
		return false
	}
	letters := 0
	for _, r := range s {
		switch {
		case r >= 'a' && r <= 'z' || r >= 'A' && r <= 'Z':
			letters++
		case r == ' ' || r == '-' || r == '\'' || r >= '0' && r <= '9':
		default:
			return false
		}
	}
	return letters >= 2
}

func harvest() {
	harvestOnce.Do(func() {
		root := os.Getenv("VERIF_REPO")
		if root == "" {
			root = "/repo"
		}
		cond, all := map[string]bool{}, map[string]bool{}
		var located []condLit
		lit := func(e ast.Expr) (string, bool) {
			if b, ok := e.(*ast.BasicLit); ok && b.Kind == token.STRING {
				if s, err := strconv.Unquote(b.Value); err == nil && wordLike(s) {
					return s, true
				}
			}
			return "", false
		}
		for _, dir := range []string{"internal/nlp", "internal/database"} {
			files, _ := filepath.Glob(filepath.Join(root, dir, "*.go"))
			for _, f := range files {
				if strings.HasSuffix(f, "_test.go") || strings.HasSuffix(f, "verif_hooks.go") {
					continue
				}
				fs := token.NewFileSet()
				af, err := parser.ParseFile(fs, f, nil, 0)
				if err != nil {
					continue
				}
				mark := func(e ast.Expr) {
					if s, ok := lit(e); ok {
						cond[s] = true
						located = append(located, condLit{f, fs.Position(e.Pos()).Line, s})
						return
					}
					if b, ok := e.(*ast.BasicLit); ok && b.Kind == token.STRING {
						if raw, err := strconv.Unquote(b.Value); err == nil {
							for _, w := range regexWords(raw) {
								cond[w] = true
								located = append(located, condLit{f, fs.Position(e.Pos()).Line, w})
							}
						}
					}
				}
				ast.Inspect(af, func(n ast.Node) bool {
					switch x := n.(type) {
					case *ast.CallExpr:
						if sel, ok := x.Fun.(*ast.SelectorExpr); ok {
							switch sel.Sel.Name {
							case "Contains", "HasPrefix", "HasSuffix", "EqualFold", "Index", "MatchString", "MustCompile":
								for _, a := range x.Args {
									mark(a)
								}
							}
						}
					case *ast.BinaryExpr:
						if x.Op == token.EQL || x.Op == token.NEQ {
							for _, a := range []ast.Expr{x.X, x.Y} {
								if _, ok := lit(a); ok {
									mark(a)
								}
							}
						}
					case *ast.CaseClause:
						for _, a := range x.List {
							if _, ok := lit(a); ok {
								mark(a)
							}
						}
					case *ast.KeyValueExpr:
						if s, ok := lit(x.Key); ok {
							all[s] = true
						}
					case *ast.BasicLit:
						if s, ok := lit(x); ok {
							all[s] = true
						}
					}
					return true
				})
			}
		}
		for s := range cond {
			harvestCond = append(harvestCond, s)
			delete(all, s)
		}
		for s := range all {
			harvestAll = append(harvestAll, s)
		}
		// the keys of the NLP word tables (read from the built code): action words, target nouns, words with synonyms;
		// related keys (one expands to the other) form decisions of their own
		at, tt, st := nlp.VerifTables()
		for _, m := range []map[string][]string{at, tt, st} {
			keys := make([]string, 0, len(m))
			for k := range m {
				keys = append(keys, k)
			}
			sort.Strings(keys)
			for _, k := range keys {
				if !all[k] && !cond[k] && wordLike(k) {
					harvestAll = append(harvestAll, k)
				}
				var grp []string
				for _, v := range m[k] {
					if _, isKey := m[v]; isKey && v != k {
						grp = append(grp, v)
					}
				}
				if len(grp) > 0 {
					harvestTabGroups = append(harvestTabGroups, append([]string{k}, grp...))
				}
			}
		}
		sort.Strings(harvestCond)
		sort.Strings(harvestAll)
		sort.SliceStable(located, func(i, j int) bool {
			if located[i].file != located[j].file {
				return located[i].file < located[j].file
			}
			return located[i].line < located[j].line
		})
		var cur []string
		for i, l := range located {
			if i > 0 && (l.file != located[i-1].file || l.line-located[i-1].line > 4) {
				if len(cur) > 1 {
					harvestGroups = append(harvestGroups, cur)
				}
				cur = nil
			}
			dup := false
			for _, x := range cur {
				if x == l.s {
					dup = true
				}
			}
			if !dup {
				cur = append(cur, l.s)
			}
		}
		if len(cur) > 1 {
			harvestGroups = append(harvestGroups, cur)
		}
	})
}

// harvestedQuery: 1-4 phrases the code tests for, some inflected, mixed with other literals and generator words
func harvestedQuery(r *rand.Rand, id int) string {
	harvest()
	if len(harvestCond) == 0 {
		return "list files"
	}
	pool := harvestCond
	switch x := r.Intn(8); {
	case x < 4 && len(harvestGroups) > 0: // the phrases of ONE decision, so that conjunctions of tests are met; swept by case number
		pool = harvestGroups[id%len(harvestGroups)]
	case x < 6 && len(harvestTabGroups) > 0: // a table key and the keys it expands to, in either order
		pool = harvestTabGroups[id%len(harvestTabGroups)]
	}
	var parts []string
	for i, k := 0, 2+r.Intn(3); i < k; i++ {
		w := pool[r.Intn(len(pool))]
		if !strings.Contains(w, " ") {
			switch r.Intn(7) {
			case 0, 1:
				w += "ing"
			case 2:
				w += "s"
			case 3:
				w = "pre" + w
			case 4:
				w += "ed"
			case 5:
				w = "re" + w + "er"
			}
		}
		parts = append(parts, w)
	}
	if len(harvestAll) > 0 && r.Intn(2) == 0 {
		parts = append(parts, harvestAll[r.Intn(len(harvestAll))])
	}
	if r.Intn(2) == 0 {
		parts = append(parts, eWord(r))
	}
	r.Shuffle(len(parts), func(i, j int) { parts[i], parts[j] = parts[j], parts[i] })
	return strings.Join(parts, " ")
}

func runHarvestDump(seed int64, n int, replay string, e *emitter) {
	harvest()
	e.emit(map[string]interface{}{"cond": len(harvestCond), "all": len(harvestAll), "groups": len(harvestGroups), "sample_groups": harvestGroups[:min(len(harvestGroups), 400)]})
}

func init() { runners["harvestdump"] = runHarvestDump }
