package main

import (
	"context"
	"encoding/binary"
	"encoding/json"
	"fmt"
	"math"
	"math/rand"
	"os"
	"os/exec"
	"path/filepath"
	"strings"
	"syscall"
	"time"

	"github.com/Vedant9500/WTF/internal/database"
	"github.com/Vedant9500/WTF/internal/embedding"
)

// C19: semantic embeddings are strictly optional and their files cannot hurt.

type c19Case struct {
	ID   int    `json:"id"`
	Seed int64  `json:"seed"`
	Kind string `json:"kind"` // wv ce cos stage
	// loaders
	File    []int   `json:"file,omitempty"`
	Crashed bool    `json:"crashed"`
	Exit    int     `json:"exit"`
	Err     bool    `json:"err"`
	Words   [][]int `json:"words,omitempty"`
	NVec    int     `json:"n_vec"`
	Vec0    []int   `json:"vec0,omitempty"` // raw bytes of the first vector read
	MaxRSS  int64   `json:"max_rss_kb"`
	BaseRSS int64   `json:"base_rss_kb"`
	Stderr  string  `json:"stderr,omitempty"`
	// cosine
	A  []string `json:"a,omitempty"`
	B  []string `json:"b,omitempty"`
	AB string   `json:"ab,omitempty"`
	BA string   `json:"ba,omitempty"`
	// stage
	DB      []eCmd   `json:"db,omitempty"`
	Query   []int    `json:"q,omitempty"`
	Opts    *eOpts   `json:"opts,omitempty"`
	Without []eRes   `json:"without,omitempty"`
	With    []eRes   `json:"with,omitempty"`
	Sims    []string `json:"sims,omitempty"` // SemanticScores (nil: no query embedding)
	HasSims bool     `json:"has_sims"`
	NoIndex []eRes   `json:"no_index_again,omitempty"`
}

func c19Vec(r *rand.Rand, d int) []float32 {
	v := make([]float32, d)
	pool := []float32{0, 0, 1, -1, 0.5, 0.1, -0.25, 3, 1e-20, 1e19, -1e19, 0.33333334, 7.5}
	for i := range v {
		if r.Intn(3) == 0 {
			v[i] = float32(r.NormFloat64())
		} else {
			v[i] = pool[r.Intn(len(pool))]
		}
	}
	return v
}

func f32hex(v []float32) []string {
	out := make([]string, len(v))
	for i, x := range v {
		out[i] = hexf(float64(x))
	}
	return out
}

func c19WVFile(r *rand.Rand) []byte {
	if r.Intn(10) == 0 {
		// the header announces one record more than the file holds, but long words make the file big enough to pass any
		// size check on the count: the missing record would begin at the end of the file (or one byte before it)
		var b []byte
		k := 1 + r.Intn(2)
		b = binary.LittleEndian.AppendUint32(b, uint32(k+1))
		for i := 0; i < k; i++ {
			w := strings.Repeat("w", 402+r.Intn(60))
			b = binary.LittleEndian.AppendUint16(b, uint16(len(w)))
			b = append(b, w...)
			for _, x := range c19Vec(r, 100) {
				b = binary.LittleEndian.AppendUint32(b, math.Float32bits(x))
			}
		}
		if r.Intn(2) == 0 {
			b = append(b, 3)
		}
		return b
	}
	var b []byte
	n := r.Intn(4)
	put32 := func(x uint32) { b = binary.LittleEndian.AppendUint32(b, x) }
	put16 := func(x uint16) { b = binary.LittleEndian.AppendUint16(b, x) }
	count := uint32(n)
	switch r.Intn(8) {
	case 0:
		count = 0xFFFFFFFF
	case 1:
		count = uint32(n) + 1 + uint32(r.Intn(3))
	case 2:
		count = 1 << 28
	case 3: // counts whose byte requirement wraps around 2^32 to something small (entry = 2 + 4*100 bytes plus the word)
		k := uint64(1 + r.Intn(3))
		e := uint64(402 + r.Intn(4))
		count = uint32((k<<32 + e - 1) / e)
	case 4:
		count = []uint32{1 << 31, 1 << 30, 3 << 30, 1<<31 + 1}[r.Intn(4)]
	}
	put32(count)
	words := []string{"tar", "zip", "files", "日本", "", "a b", "x"}
	var starts []int
	for i := 0; i < n; i++ {
		starts = append(starts, len(b))
		w := words[r.Intn(len(words))]
		if r.Intn(6) == 0 { // a long word: the records after it begin later than count * (2 + 4*dim) suggests
			w = strings.Repeat("w", 300+r.Intn(200))
		}
		wl := uint16(len(w))
		if r.Intn(10) == 0 {
			wl = 0xFFFF
		}
		put16(wl)
		b = append(b, w...)
		for _, x := range c19Vec(r, 100) {
			put32(math.Float32bits(x))
		}
	}
	switch r.Intn(7) {
	case 6: // cut exactly where a record begins, or one byte into it (inside its 2-byte length prefix)
		if len(starts) > 0 {
			cut := starts[r.Intn(len(starts))] + r.Intn(2)
			if cut <= len(b) {
				b = b[:cut]
			}
		}
	case 0: // truncate anywhere
		if len(b) > 0 {
			b = b[:r.Intn(len(b)+1)]
		}
	case 1: // trailing garbage
		for i, k := 0, r.Intn(50); i < k; i++ {
			b = append(b, byte(r.Intn(256)))
		}
	case 2:
		b = b[:min(len(b), []int{0, 1, 3, 4, 5, 6, 7}[r.Intn(7)])]
	}
	return b
}

func c19CEFile(r *rand.Rand) []byte {
	var b []byte
	put32 := func(x uint32) { b = binary.LittleEndian.AppendUint32(b, x) }
	n := r.Intn(4)
	count := uint32(n)
	switch r.Intn(8) {
	case 0:
		count = 0xFFFFFFFF
	case 1:
		count = uint32(n) + 1
	case 2:
		count = 1 << 27
	}
	d := uint32(100)
	switch r.Intn(8) {
	case 0:
		d = 99
	case 1:
		d = 0
	case 2:
		d = 0xFFFFFFFF
	}
	if r.Intn(6) == 0 && d > 0 && d < 1000 { // count * 4 * d wraps around 2^32 to something small
		k := uint64(1 + r.Intn(3))
		e := uint64(4 * d)
		count = uint32((k<<32 + e - 1) / e)
		if r.Intn(2) == 0 {
			count = []uint32{1 << 28, 1 << 30, 1 << 31, 3 << 28}[r.Intn(4)]
		}
	}
	put32(count)
	put32(d)
	for i := 0; i < n; i++ {
		for _, x := range c19Vec(r, 100) {
			put32(math.Float32bits(x))
		}
	}
	switch r.Intn(6) {
	case 0:
		if len(b) > 0 {
			b = b[:r.Intn(len(b)+1)]
		}
	case 1:
		b = b[:min(len(b), []int{0, 3, 4, 7, 8, 9}[r.Intn(6)])]
	}
	return b
}

type c19ChildOut struct {
	Err   bool     `json:"err"`
	Words []string `json:"words"`
	NVec  int      `json:"n_vec"`
	Vec0  []int    `json:"vec0"`
}

func runC19Child(seed int64, n int, replay string, e *emitter) {
	kind, file := os.Getenv("C19_KIND"), os.Getenv("C19_FILE")
	var out c19ChildOut
	f32bytes := func(v []float32) []int {
		var b []byte
		for _, x := range v {
			b = binary.LittleEndian.AppendUint32(b, math.Float32bits(x))
		}
		return ints(string(b))
	}
	switch kind {
	case "none":
	case "wv":
		idx, err := embedding.LoadWordVectors(file)
		out.Err = err != nil
		if idx != nil {
			out.NVec = len(idx.WordVectors)
		}
	case "dbload":
		// the database's own loading step: asset files in the working directory, fewer / as many / more command embeddings than commands
		os.Chdir(file)
		var n int
		fmt.Sscan(os.Getenv("C19_N"), &n)
		var cmds []database.Command
		for i := 0; i < n; i++ {
			cmds = append(cmds, database.Command{Command: fmt.Sprintf("ls -l%d", i), Description: "list files in a directory"})
		}
		db := database.VerifFresh(cmds)
		out.Err = db.LoadEmbeddings() != nil
		out.NVec = len(db.SearchUniversal("list files", database.SearchOptions{Limit: 5, AllPlatforms: true, UseNLP: true}))
	case "ce":
		idx := &embedding.Index{Dimension: 100, WordVectors: map[string][]float32{}}
		err := idx.LoadCommandEmbeddings(file)
		out.Err = err != nil
		out.NVec = len(idx.CmdEmbeddings)
		if err == nil && len(idx.CmdEmbeddings) > 0 {
			out.Vec0 = f32bytes(idx.CmdEmbeddings[0])
		}
	}
	e.emit(out)
}

func c19Loader(c *c19Case, kind string, file []byte, dir string, base int64) {
	p := filepath.Join(dir, fmt.Sprintf("f%d.bin", c.ID))
	pipe := strings.HasSuffix(kind, "pipe")
	if pipe {
		// the same bytes delivered through a named pipe (a stream has no size to check the header against)
		kind = strings.TrimSuffix(kind, "pipe")
		os.Remove(p)
		if syscall.Mkfifo(p, 0o644) != nil {
			c.Kind = "skip"
			return
		}
		done := make(chan struct{})
		go func() {
			defer close(done)
			if w, err := os.OpenFile(p, os.O_WRONLY, 0); err == nil { // blocks until the child opens the pipe
				w.Write(file)
				w.Close()
			}
		}()
		defer func() {
			// a child that never opened the pipe leaves the writer blocked in open: let it through
			if fd, err := syscall.Open(p, syscall.O_RDONLY|syscall.O_NONBLOCK, 0); err == nil {
				select {
				case <-done:
				case <-time.After(2 * time.Second):
				}
				syscall.Close(fd)
			}
		}()
	} else {
		os.WriteFile(p, file, 0o644)
	}
	defer os.Remove(p)
	outF := filepath.Join(dir, fmt.Sprintf("o%d.json", c.ID))
	defer os.Remove(outF)
	self, _ := os.Executable()
	ctx, cancel := context.WithTimeout(context.Background(), 60*time.Second)
	defer cancel()
	cmd := exec.CommandContext(ctx, "prlimit", "--as=3000000000", "--", self, "c19child", "-out", outF)
	cmd.Env = append(os.Environ(), "C19_KIND="+kind, "C19_FILE="+p, "GOGC=100")
	b, err := cmd.CombinedOutput()
	if err != nil {
		c.Crashed = true
		if ee, ok := err.(*exec.ExitError); ok {
			c.Exit = ee.ExitCode()
		}
		s := string(b)
		if len(s) > 200 {
			s = s[:200]
		}
		c.Stderr = s
	}
	if cmd.ProcessState != nil {
		if ru, ok := cmd.ProcessState.SysUsage().(*syscall.Rusage); ok {
			c.MaxRSS = ru.Maxrss
		}
	}
	c.BaseRSS = base
	data, _ := os.ReadFile(outF)
	var out c19ChildOut
	if json.Unmarshal(data, &out) == nil {
		c.Err, c.NVec, c.Vec0 = out.Err, out.NVec, out.Vec0
	}
}

// c19DBLoad: valid asset files (three word vectors; nEmb command embeddings of dimension 100) beside a database of nCmd commands
func c19DBLoad(r *rand.Rand, c *c19Case, dir string, base int64) {
	d := filepath.Join(dir, fmt.Sprintf("assets%d", c.ID))
	os.MkdirAll(d, 0o755)
	defer os.RemoveAll(d)
	nCmd, nEmb := 1+r.Intn(4), r.Intn(6)
	var wv []byte
	wv = binary.LittleEndian.AppendUint32(wv, 3)
	for _, w := range []string{"list", "files", "directory"} {
		wv = binary.LittleEndian.AppendUint16(wv, uint16(len(w)))
		wv = append(wv, w...)
		for i := 0; i < 100; i++ {
			wv = binary.LittleEndian.AppendUint32(wv, math.Float32bits(float32(r.NormFloat64())))
		}
	}
	var ce []byte
	ce = binary.LittleEndian.AppendUint32(ce, uint32(nEmb))
	ce = binary.LittleEndian.AppendUint32(ce, 100)
	for i := 0; i < nEmb*100; i++ {
		ce = binary.LittleEndian.AppendUint32(ce, math.Float32bits(float32(r.NormFloat64())))
	}
	os.WriteFile(filepath.Join(d, "glove.bin"), wv, 0o644)
	os.WriteFile(filepath.Join(d, "cmd_embeddings.bin"), ce, 0o644)
	c.File = ints(fmt.Sprintf("commands=%d embeddings=%d", nCmd, nEmb))
	outF := filepath.Join(dir, fmt.Sprintf("o%d.json", c.ID))
	defer os.Remove(outF)
	self, _ := os.Executable()
	ctx, cancel := context.WithTimeout(context.Background(), 60*time.Second)
	defer cancel()
	cmd := exec.CommandContext(ctx, "prlimit", "--as=3000000000", "--", self, "c19child", "-out", outF)
	cmd.Env = append(os.Environ(), "C19_KIND=dbload", "C19_FILE="+d, fmt.Sprintf("C19_N=%d", nCmd), "GOGC=100")
	b, err := cmd.CombinedOutput()
	if err != nil {
		c.Crashed = true
		if ee, ok := err.(*exec.ExitError); ok {
			c.Exit = ee.ExitCode()
		}
		s := string(b)
		if len(s) > 300 {
			s = s[:300]
		}
		c.Stderr = s
	}
	if cmd.ProcessState != nil {
		if ru, ok := cmd.ProcessState.SysUsage().(*syscall.Rusage); ok {
			c.MaxRSS = ru.Maxrss
		}
	}
	c.BaseRSS = base
}

func c19Cos(r *rand.Rand, c *c19Case) {
	d := []int{0, 1, 2, 3, 5, 8}[r.Intn(6)]
	a, b := c19Vec(r, d), c19Vec(r, d)
	switch r.Intn(8) {
	case 0:
		b = c19Vec(r, d+1) // mismatched
	case 1:
		b = append([]float32(nil), a...) // identical
	case 2:
		for i := range b {
			b[i] = 0
		}
	case 3:
		for i := range b {
			b[i] = -a[i]
		}
	case 4:
		if d > 0 {
			a[0] = float32(math.NaN())
		}
	case 5:
		if d > 0 {
			a[0] = float32(math.Inf(1))
		}
	}
	c.A, c.B = f32hex(a), f32hex(b)
	c.AB, c.BA = hexf(embedding.CosineSimilarity(a, b)), hexf(embedding.CosineSimilarity(b, a))
}

func c19Stage(r *rand.Rand, c *c19Case, dir string) {
	cmds := eGenDB(r)
	for len(cmds) < 3 {
		cmds = append(cmds, eGenCommand(r))
	}
	// every third case: each entry twice (equal lexical scores, document order), the later copy embedded exactly at the query
	// and the earlier one a thousandth of a radian away: the later one then scores higher by a few 1e-7 and must come first
	twins := c.ID%3 == 1
	if twins {
		cmds = append(cmds, cmds...)
	}
	db, err := loadCommands(dir, "s.yml", cmds)
	if err != nil {
		c.Kind = "skip"
		return
	}
	c.DB = dumpDB(db)
	q := eGenQuery(r, cmds)
	c.Query = ints(q)
	o := eGenOpts(r, len(cmds), cmds)
	o.Limit = len(cmds) + 5
	c.Opts = &o
	c.Without = projectResults(db, db.SearchUniversal(q, o.toGo()))
	// attach an index: word vectors for some vocabulary words (so that some queries embed and some do not)
	d := 4
	idx := &embedding.Index{Dimension: d, WordVectors: map[string][]float32{}}
	for _, w := range append(append([]string{}, eActions...), eTargets...) {
		if r.Intn(2) == 0 {
			idx.WordVectors[w] = c19Vec(r, d)
		}
	}
	n := len(db.Commands)
	if r.Intn(5) == 0 {
		n = r.Intn(n + 1) // fewer embeddings than commands
	}
	for i := 0; i < n; i++ {
		idx.CmdEmbeddings = append(idx.CmdEmbeddings, c19Vec(r, d))
	}
	db.VerifSetEmbeddingIndex(idx)
	if qe := db.EmbedQuery(q); twins && qe != nil && len(idx.CmdEmbeddings) == len(db.Commands) {
		a, b := 0, 1
		for k := range qe { // the two coordinates of largest magnitude
			if math.Abs(float64(qe[k])) > math.Abs(float64(qe[a])) {
				a, b = k, a
			} else if k != a && math.Abs(float64(qe[k])) > math.Abs(float64(qe[b])) {
				b = k
			}
		}
		if a == b {
			b = (a + 1) % d
		}
		m := len(db.Commands) / 2
		for i := 0; i < m; i++ {
			p := append([]float32(nil), qe...)
			p[a] += 1e-3 * qe[b]
			p[b] -= 1e-3 * qe[a]
			idx.CmdEmbeddings[i] = p
			idx.CmdEmbeddings[m+i] = append([]float32(nil), qe...)
		}
	}
	if r.Intn(3) == 0 {
		// the embeddings are regenerated while the index is in use: same number of commands, other vectors (not
		// normalised, ten times longer); whatever the index remembers from the first search must not leak into the second
		db.SearchUniversal(q, o.toGo())
		for i := range idx.CmdEmbeddings {
			v := c19Vec(r, d)
			for k := range v {
				v[k] *= 10
			}
			idx.CmdEmbeddings[i] = v
		}
	}
	c.With = projectResults(db, db.SearchUniversal(q, o.toGo()))
	if qe := db.EmbedQuery(q); qe != nil {
		if ss := db.SemanticScores(qe); ss != nil {
			c.HasSims = true
			for _, s := range ss {
				c.Sims = append(c.Sims, hexf(s))
			}
		}
	}
	db.VerifSetEmbeddingIndex(nil)
	c.NoIndex = projectResults(db, db.SearchUniversal(q, o.toGo()))
}

func runC19(seed int64, n int, replay string, e *emitter) {
	dir := mustTemp("verif-c19-")
	defer os.RemoveAll(dir)
	// baseline memory of the child doing nothing
	b0 := c19Case{ID: -1}
	c19Loader(&b0, "none", nil, dir, 0)
	base := b0.MaxRSS
	one := func(r *rand.Rand, id int, kind string, file []int) c19Case {
		c := c19Case{ID: id, Kind: kind, Seed: seed}
		switch kind {
		case "wv", "ce", "wvpipe", "cepipe":
			var f []byte
			if file != nil {
				f = []byte(fromInts(file))
			} else if strings.HasPrefix(kind, "wv") {
				f = c19WVFile(r)
			} else {
				f = c19CEFile(r)
			}
			c.File = ints(string(f))
			c19Loader(&c, kind, f, dir, base)
		case "dbload":
			c19DBLoad(r, &c, dir, base)
		case "cos":
			c19Cos(r, &c)
		default:
			c19Stage(r, &c, dir)
		}
		return c
	}
	if replay != "" {
		for _, raw := range readReplay(replay) {
			var c c19Case
			if json.Unmarshal(raw, &c) != nil {
				continue
			}
			r := rand.New(rand.NewSource(c.Seed*1000003 + int64(c.ID)))
			e.emit(one(r, c.ID, c.Kind, c.File))
		}
		return
	}
	// corpus of header-only files first
	fixed := [][]byte{{0xff, 0xff, 0xff, 0xff}, {0xff, 0xff, 0xff, 0xff, 0, 0, 0}, {}, {1}, {0, 0, 0, 0}}
	for i, f := range fixed {
		r := rand.New(rand.NewSource(seed))
		e.emit(one(r, 100000+i, "wv", ints(string(f))))
		g := append(append([]byte(nil), f...), 100, 0, 0, 0)
		e.emit(one(r, 200000+i, "ce", ints(string(g))))
	}
	for i := 0; i < n; i++ {
		r := rand.New(rand.NewSource(seed*1000003 + int64(i)))
		kind := []string{"wv", "ce", "cos", "cos", "stage", "stage"}[i%6]
		e.emit(one(r, i, kind, nil))
	}
	// the same kinds of file content arriving through a named pipe
	for i, f := range fixed {
		r := rand.New(rand.NewSource(seed))
		e.emit(one(r, 300000+i, "wvpipe", ints(string(f))))
		g := append(append([]byte(nil), f...), 100, 0, 0, 0)
		e.emit(one(r, 400000+i, "cepipe", ints(string(g))))
	}
	for i := 0; i < n/8; i++ {
		r := rand.New(rand.NewSource(seed*1000003 + int64(500000+i)))
		e.emit(one(r, 500000+i, []string{"wvpipe", "cepipe"}[i%2], nil))
	}
	// the database's own loading of asset files
	for i := 0; i < 6+n/20; i++ {
		r := rand.New(rand.NewSource(seed*1000003 + int64(600000+i)))
		e.emit(one(r, 600000+i, "dbload", nil))
	}
}

func init() { runners["c19"] = runC19; runners["c19child"] = runC19Child }
