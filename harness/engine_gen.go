package main

// Shared generator for the search-engine properties (C01-C07, C13, C20): databases with planted
// structure, queries, options; helpers to load a database exactly as WTF does and to project
// results onto (document index, score).

import (
	"fmt"
	"math/rand"
	"os"
	"path/filepath"
	"strings"

	"github.com/Vedant9500/WTF/internal/database"
	"gopkg.in/yaml.v3"
)

type eCmd struct {
	Cmd      []int   `json:"cmd"`
	Desc     []int   `json:"desc"`
	Keys     [][]int `json:"keys"`
	Tags     [][]int `json:"tags"`
	Niche    []int   `json:"niche"`
	Platform [][]int `json:"platform"`
	Pipeline bool    `json:"pipeline"`
	CmdL     []int   `json:"cmd_l"`
	DescL    []int   `json:"desc_l"`
	KeysL    [][]int `json:"keys_l"`
	TagsL    [][]int `json:"tags_l"`
}

type eBoost struct {
	Word []int  `json:"word"`
	F    string `json:"f"`
}

type eOpts struct {
	Limit         int      `json:"limit"`
	Boosts        []eBoost `json:"boosts"`
	PipelineOnly  bool     `json:"pipeline_only"`
	PipelineBoost string   `json:"pipeline_boost"`
	Fuzzy         bool     `json:"fuzzy"`
	Threshold     int      `json:"threshold"`
	NLP           bool     `json:"nlp"`
	TermsCap      int      `json:"terms_cap"`
	AllPlatforms  bool     `json:"all_platforms"`
	Platforms     [][]int  `json:"platforms"`
	NoCross       bool     `json:"no_cross"`
}

type eRes struct {
	Doc   int    `json:"doc"`
	Score string `json:"score"`
}

func intsList(l []string) [][]int {
	out := make([][]int, len(l))
	for i, s := range l {
		out[i] = ints(s)
	}
	return out
}

func strsList(l [][]int) []string {
	out := make([]string, len(l))
	for i, s := range l {
		out[i] = fromInts(s)
	}
	return out
}

func toECmd(c *database.Command) eCmd {
	return eCmd{Cmd: ints(c.Command), Desc: ints(c.Description), Keys: intsList(c.Keywords), Tags: intsList(c.Tags), Niche: ints(c.Niche),
		Platform: intsList(c.Platform), Pipeline: c.Pipeline, CmdL: ints(c.CommandLower), DescL: ints(c.DescriptionLower),
		KeysL: intsList(c.KeywordsLower), TagsL: intsList(c.TagsLower)}
}

func (o eOpts) toGo() database.SearchOptions {
	so := database.SearchOptions{Limit: o.Limit, PipelineOnly: o.PipelineOnly, UseFuzzy: o.Fuzzy, FuzzyThreshold: o.Threshold, UseNLP: o.NLP,
		TopTermsCap: o.TermsCap, AllPlatforms: o.AllPlatforms, NoCrossPlatform: o.NoCross}
	if o.PipelineBoost != "" {
		fmt.Sscanf(o.PipelineBoost, "%v", &so.PipelineBoost)
	}
	if len(o.Boosts) > 0 {
		so.ContextBoosts = map[string]float64{}
		for _, b := range o.Boosts {
			var f float64
			fmt.Sscanf(b.F, "%v", &f)
			so.ContextBoosts[fromInts(b.Word)] = f
		}
	}
	if len(o.Platforms) > 0 {
		so.Platforms = strsList(o.Platforms)
	}
	return so
}

func projectResults(db *database.Database, rs []database.SearchResult) []eRes {
	out := make([]eRes, 0, len(rs))
	for _, r := range rs {
		out = append(out, eRes{Doc: db.VerifIndexOf(r.Command), Score: hexf(r.Score)})
	}
	return out
}

// ---------------------------------------------------------------- vocabulary

var eTools = []string{"git", "docker", "tar", "zip", "ls", "grep", "find", "curl", "mkdir", "rm", "ps", "kubectl", "ipconfig", "makepkg", "Get-ChildItem", "dir"}
var eActions = []string{"find", "search", "list", "show", "create", "make", "delete", "remove", "compress", "extract", "install", "copy", "kill", "view", "edit", "run"}
var eTargets = []string{"file", "files", "folder", "directory", "archive", "process", "processes", "network", "ip", "repo", "branch", "commit", "permissions", "port", "contents"}
var eStops = []string{"a", "the", "to", "in", "of", "how", "with", "all", "my", "is", "for", "get", "go", "up"}
var ePlain = []string{"disk", "usage", "space", "log", "logs", "container", "image", "status", "recursive", "name", "size", "text", "windows", "linux", "manage",
	"compressed", "gzip", "pipe", "usb", "json", "yaml", "tools", "storage", "config", "running", "without", "opening", "x", "7z", "v2", "naïve", "日本"}

func eWord(r *rand.Rand) string {
	switch x := r.Intn(100); {
	case x < 22:
		return eActions[r.Intn(len(eActions))]
	case x < 42:
		return eTargets[r.Intn(len(eTargets))]
	case x < 52:
		return eStops[r.Intn(len(eStops))]
	case x < 64:
		return eTools[r.Intn(len(eTools))]
	default:
		return ePlain[r.Intn(len(ePlain))]
	}
}

func eCase(r *rand.Rand, w string) string {
	switch r.Intn(8) {
	case 0:
		return strings.ToUpper(w)
	case 1:
		if len(w) > 0 {
			return strings.ToUpper(w[:1]) + w[1:]
		}
	}
	return w
}

var ePlatformSets = [][]string{nil, nil, {"linux"}, {"macos"}, {"windows"}, {"linux", "macos"}, {"darwin"}, {"powershell"}, {"cmd"}, {"bash"},
	{"Cross-Platform"}, {"cross-platform"}, {"Linux"}, {"WINDOWS"}, {"unknown"}, {"linux", "macos", "windows"}, {"windows", "cross-platform"}, {"unix"}, {"linux-arm"}, {""}}

func eGenCommand(r *rand.Rand) database.Command {
	var c database.Command
	// command line
	parts := []string{}
	if r.Intn(3) > 0 {
		t := eTools[r.Intn(len(eTools))]
		if r.Intn(6) == 0 { // a different program whose name merely begins with a recognised tool's name
			t += []string{"k", "blk", "str", "info", "x", "2"}[r.Intn(6)]
		}
		parts = append(parts, t)
	}
	for i, n := 0, r.Intn(4); i < n; i++ {
		w := eCase(r, eWord(r))
		switch r.Intn(10) {
		case 0:
			w = "-" + w
		case 1:
			w = w + "-" + eWord(r)
		case 2:
			w = w + "_" + eWord(r)
		case 3:
			w = w + "." + eWord(r)
		case 4:
			w = "<" + w + ">"
		}
		parts = append(parts, w)
	}
	switch r.Intn(14) {
	case 0:
		parts = append(parts, "|", "grep", eWord(r))
	case 1:
		parts = append(parts, "&&", eTools[r.Intn(len(eTools))])
	case 2:
		parts = append(parts, ">>", "out.log")
	}
	c.Command = strings.Join(parts, " ")
	// description
	dn := 2 + r.Intn(7)
	dparts := make([]string, dn)
	for i := range dparts {
		dparts[i] = eCase(r, eWord(r))
	}
	c.Description = strings.Join(dparts, " ")
	switch r.Intn(12) {
	case 0:
		c.Description += "."
	case 1:
		c.Description = ""
	case 2:
		c.Description += " (see: <https://x.y/z>)"
	}
	for i, n := 0, r.Intn(5); i < n; i++ {
		k := eCase(r, eWord(r))
		if r.Intn(8) == 0 {
			k = k + " " + eWord(r) // multi-word keyword
		}
		c.Keywords = append(c.Keywords, k)
	}
	for i, n := 0, r.Intn(3); i < n; i++ {
		c.Tags = append(c.Tags, eCase(r, eWord(r)))
	}
	c.Niche = []string{"", "general", "git", "docker", "system"}[r.Intn(5)]
	c.Platform = append([]string(nil), ePlatformSets[r.Intn(len(ePlatformSets))]...)
	c.Pipeline = r.Intn(6) == 0
	return c
}

// eGenDB builds a command list with planted structure: duplicates, near-duplicates (one field changed),
// groups of equal-scoring entries, empty fields, hostile bytes.
func eGenDB(r *rand.Rand) []database.Command {
	n := []int{0, 1, 2, 3, 5, 8, 12, 20, 30, 40}[r.Intn(10)]
	cmds := make([]database.Command, 0, n+8)
	for len(cmds) < n {
		c := eGenCommand(r)
		cmds = append(cmds, c)
		if len(cmds) < n {
			switch r.Intn(10) {
			case 0: // exact duplicate
				cmds = append(cmds, cloneCmd(c))
			case 1: // same text, different platform
				d := cloneCmd(c)
				d.Platform = append([]string(nil), ePlatformSets[r.Intn(len(ePlatformSets))]...)
				cmds = append(cmds, d)
			case 4: // same command line and description, other keywords / tags (a notebook entry repeating a shipped one)
				d := cloneCmd(c)
				d.Keywords = append([]string{eWord(r), eWord(r)}, d.Keywords...)
				if r.Intn(2) == 0 {
					d.Tags = append(d.Tags, eWord(r))
				}
				if r.Intn(3) == 0 {
					d.Keywords = nil
				}
				cmds = append(cmds, d)
			case 3: // near-tie: same text, one more word in a long description (scores differ in a late digit)
				d := cloneCmd(c)
				d.Description = strings.Repeat(c.Description+" ", 3+r.Intn(8))
				e := cloneCmd(d)
				e.Description = d.Description + eWord(r)
				if r.Intn(2) == 0 {
					e.Command = e.Command + " --long-option-name"
				} else {
					d.Command = d.Command + " --long-option-name"
				}
				cmds = append(cmds, d, e)
			case 2: // tie group: same text, distinct command line suffix that does not tokenize
				for k := 0; k < 2+r.Intn(4) && len(cmds) < n; k++ {
					d := cloneCmd(c)
					d.Command = c.Command + strings.Repeat(" -", k+1)
					cmds = append(cmds, d)
				}
			}
		}
	}
	if n > 0 && r.Intn(6) == 0 { // hostile entry
		h := eGenCommand(r)
		h.Command = []string{"ca\xfft file", "İstanbul K", "a b\u0085c", "é́ ǅ", "tar\tx\nv"}[r.Intn(5)]
		cmds = append(cmds, h)
	}
	return cmds
}

func cloneCmd(c database.Command) database.Command {
	d := c
	d.Keywords = append([]string(nil), c.Keywords...)
	d.Tags = append([]string(nil), c.Tags...)
	d.Platform = append([]string(nil), c.Platform...)
	return d
}

func eGenQuery(r *rand.Rand, cmds []database.Command) string {
	if r.Intn(4) == 0 {
		return harvestedQuery(r, r.Intn(1<<20))
	}
	switch x := r.Intn(100); {
	case x < 3 && len(cmds) > 0: // one character of an entry (never an index term: only the typo fallback can answer)
		t := cmds[r.Intn(len(cmds))].Command
		if len(t) > 0 {
			ch := t[r.Intn(len(t))]
			if ch < 128 && ch > 32 {
				return []string{string(ch), " " + string(ch) + " "}[r.Intn(2)]
			}
		}
		return "x"
	case x < 6:
		return []string{"", " ", "a", "!", "??", "the of", "-", "é"}[r.Intn(8)]
	case x < 14: // typo / fragment of a command text (fuzzy path)
		if len(cmds) > 0 {
			t := cmds[r.Intn(len(cmds))].Command
			if len(t) > 3 {
				b := []byte(t)
				i := r.Intn(len(b))
				switch r.Intn(3) {
				case 0:
					b = append(b[:i], b[i+1:]...)
				case 1:
					if i+1 < len(b) {
						b[i], b[i+1] = b[i+1], b[i]
					}
				case 2:
					b = b[:1+r.Intn(len(b)-1)]
				}
				return strings.ToValidUTF8(string(b), "")
			}
		}
		return "comprss fles"
	case x < 22: // words taken from an entry
		if len(cmds) > 0 {
			c := cmds[r.Intn(len(cmds))]
			ws := strings.Fields(c.Command + " " + c.Description)
			if len(ws) > 0 {
				k := 1 + r.Intn(3)
				out := []string{}
				for i := 0; i < k; i++ {
					out = append(out, eCase(r, ws[r.Intn(len(ws))]))
				}
				return strings.Join(out, " ")
			}
		}
	}
	n := 1 + r.Intn(5)
	if r.Intn(6) == 0 {
		n = 8 + r.Intn(7)
	}
	ws := make([]string, n)
	for i := range ws {
		ws[i] = eCase(r, eWord(r))
	}
	q := strings.Join(ws, " ")
	switch r.Intn(12) {
	case 0:
		q = strings.ReplaceAll(q, " ", "-")
	case 1:
		q = q + "?"
	case 2:
		q = "how to " + q
	case 3:
		// the phrase together with a word that merely CONTAINS one of the viewing clues (see, view, show, display, read, look)
		q = []string{"reading", "preview of", "looking at", "viewing", "displaying", "overview", "", "showing"}[len(q)%8] + " " + q + " without " + []string{"opening", "editing"}[len(q)/8%2]
	}
	return q
}

func eGenOpts(r *rand.Rand, n int, cmds []database.Command) eOpts {
	var o eOpts
	lims := []int{-1, 0, 1, 2, 3, 5, 10, n - 1, n, n + 1, 10*n + 1, 100}
	o.Limit = lims[r.Intn(len(lims))]
	o.NLP = r.Intn(2) == 0
	o.Fuzzy = r.Intn(2) == 0
	o.Threshold = []int{0, 0, -5, -30, -100, 10}[r.Intn(6)]
	if r.Intn(4) == 0 {
		o.PipelineOnly = true
	}
	if r.Intn(3) == 0 {
		o.PipelineBoost = []string{"1.5", "2", "0", "-1", "1"}[r.Intn(5)]
	}
	if r.Intn(3) == 0 {
		for i, k := 0, 1+r.Intn(3); i < k; i++ {
			o.Boosts = append(o.Boosts, eBoost{Word: ints(eWord(r)), F: []string{"1", "1.3", "1.5", "2", "1.1"}[r.Intn(5)]})
		}
	}
	if len(o.Boosts) > 0 && r.Intn(3) == 0 { // a second key that contains the first as one of its words (script / target names)
		w := fromInts(o.Boosts[0].Word)
		o.Boosts = append(o.Boosts, eBoost{Word: ints(w + []string{"-", ":", "_", "."}[r.Intn(4)] + eWord(r)), F: []string{"1.2", "1.7", "2.5"}[r.Intn(3)]})
	}
	o.TermsCap = []int{0, 0, 0, 3, 5, 12, -1}[r.Intn(7)]
	switch r.Intn(6) {
	case 0:
		o.AllPlatforms = true
	case 1:
		k := r.Intn(7)
		o.Platforms = intsList([][]string{{"windows"}, {"macos"}, {"linux"}, {"windows", "macos"}, {"Windows"}, {"darwin"}, {"powershell"}}[k])
		if n%3 == 1 { // names that are not a platform of the vocabulary: empty (a trailing comma on the command line), beginnings of names, unknown ones
			o.Platforms = intsList([][]string{{"linux", ""}, {""}, {"win"}, {"mac"}, {"l"}, {"lin", "windows"}, {"bsd"}}[k])
		}
	case 2:
		o.Platforms = intsList([][]string{{"windows"}, {"linux"}}[r.Intn(2)])
		o.NoCross = true
	case 3:
		o.NoCross = true
	}
	return o
}

// loadCommands writes the commands as YAML and loads them with database.LoadDatabase, i.e. the way WTF
// builds a Database (lower-cased cache fields, inverted index, TF-IDF searcher).
func loadCommands(dir string, name string, cmds []database.Command) (*database.Database, error) {
	data, err := yaml.Marshal(cmds)
	if err != nil {
		return nil, err
	}
	if len(cmds) == 0 {
		data = []byte("[]\n")
	}
	p := filepath.Join(dir, name)
	if err := os.WriteFile(p, data, 0o644); err != nil {
		return nil, err
	}
	return database.LoadDatabase(p)
}

func dumpDB(db *database.Database) []eCmd {
	out := make([]eCmd, len(db.Commands))
	for i := range db.Commands {
		out[i] = toECmd(&db.Commands[i])
	}
	return out
}

func fromECmds(l []eCmd) []database.Command {
	out := make([]database.Command, len(l))
	for i, e := range l {
		out[i] = database.Command{Command: fromInts(e.Cmd), Description: fromInts(e.Desc), Keywords: strsList(e.Keys), Tags: strsList(e.Tags),
			Niche: fromInts(e.Niche), Platform: strsList(e.Platform), Pipeline: e.Pipeline}
		if len(out[i].Keywords) == 0 {
			out[i].Keywords = nil
		}
		if len(out[i].Tags) == 0 {
			out[i].Tags = nil
		}
		if len(out[i].Platform) == 0 {
			out[i].Platform = nil
		}
	}
	return out
}

func mustTemp(prefix string) string {
	d, err := os.MkdirTemp("/var/tmp", prefix)
	if err != nil {
		panic(err)
	}
	return d
}

func marshalCommands(cmds []database.Command) ([]byte, error) {
	if len(cmds) == 0 {
		return []byte("[]\n"), nil
	}
	return yaml.Marshal(cmds)
}

// ---------------------------------------------------------------- planted scenarios
// Structured situations that uniform generation reaches too rarely. Each returns a database, a query and options.

func eScenario(r *rand.Rand) ([]database.Command, string, eOpts) {
	o := eOpts{}
	switch r.Intn(5) {
	case 4:
		// more matches than any fixed window or cap: 55-70 commands that all contain the query word, at a limit above
		// the database size, with and without enhancement (paired runs)
		w := ePlain[r.Intn(12)]
		var cmds []database.Command
		n := 55 + r.Intn(16)
		variant := r.Intn(3)
		small := variant == 1 // ... or at a small limit with a group of equal scores straddling the cut
		if small {
			n = 64 + r.Intn(16)
		}
		if variant == 2 {
			// ... or 60-80 entries each holding some of three query words, so that entries far down the ranking still
			// resemble the query: every candidate of a large answer takes part in the re-ranking, not only the first fifty
			n = 60 + r.Intn(21)
			ws := []string{ePlain[r.Intn(12)], eActions[r.Intn(len(eActions))], eTargets[r.Intn(len(eTargets))]}
			var cmds []database.Command
			for i := 0; i < n; i++ {
				c := eGenCommand(r)
				c.Platform = nil
				some := false
				for _, x := range ws {
					if r.Intn(10) < 6 {
						c.Description = x + " " + c.Description
						some = true
					}
				}
				if !some {
					c.Description = ws[i%3] + " " + c.Description
				}
				cmds = append(cmds, c)
			}
			o.Limit = []int{n + 3, 60, 100, 51}[r.Intn(4)]
			o.NLP = r.Intn(6) != 0
			o.AllPlatforms = true
			if r.Intn(5) != 0 {
				o.Boosts = []eBoost{{Word: ints(ws[r.Intn(3)/2]), F: []string{"2", "1.5", "3"}[r.Intn(3)]}} // mostly the plain word: action and target words get a fixed weight under enhancement
			}
			return cmds, strings.Join(ws, " "), o
		}
		twin := eGenCommand(r)
		for i := 0; i < n; i++ {
			c := eGenCommand(r)
			if small && i%3 != 0 {
				c = twin
			}
			c.Description = w + " " + c.Description
			c.Platform = nil
			cmds = append(cmds, c)
		}
		o.Limit = n + 3
		if small {
			o.Limit = []int{0, 1, 3, 5, 12, 30}[r.Intn(6)]
		}
		o.NLP = r.Intn(2) == 0
		o.AllPlatforms = true
		return cmds, []string{w, w + " " + eActions[r.Intn(len(eActions))]}[r.Intn(2)], o
	case 3:
		// a long query (more than ten content words) whose first words are very common in the database: the cap on
		// query terms must still keep the first four
		common := []string{ePlain[r.Intn(12)], eTargets[r.Intn(len(eTargets))]}
		var cmds []database.Command
		n := 8 + r.Intn(8)
		for i := 0; i < n; i++ {
			c := eGenCommand(r)
			if r.Intn(10) < 8 {
				c.Description = common[0] + " " + c.Description
			}
			if r.Intn(10) < 7 {
				c.Command = c.Command + " " + common[1]
			}
			if i == 0 { // matches the query only through the common first word
				c = database.Command{Command: "zzq" + common[0], Description: common[0]}
			}
			cmds = append(cmds, c)
		}
		words := []string{common[0], common[1]}
		for len(words) < 11+r.Intn(4) {
			words = append(words, ePlain[r.Intn(len(ePlain)-4)], eActions[r.Intn(len(eActions))])
		}
		o.Limit = n + 3
		o.NLP = r.Intn(3) != 0
		o.AllPlatforms = true
		if r.Intn(2) == 0 { // the second common word moves behind the protected first four and is boosted by the context
			k := len(words) - 1 - r.Intn(4)
			words[1], words[k] = words[k], words[1]
			o.Boosts = []eBoost{{Word: ints(common[1]), F: []string{"2", "3", "1.5"}[r.Intn(3)]}}
		}
		return cmds, strings.Join(words, " "), o
	case 0:
		// typo fallback under a restrictive filter: many ineligible entries match the typo better (shorter text)
		// than the few eligible ones, and the limit is small
		stem := []string{"diskpart", "compress", "network", "docker", "archive"}[r.Intn(5)]
		var cmds []database.Command
		bad := 3 + r.Intn(5)
		for i := 0; i < bad; i++ {
			cmds = append(cmds, database.Command{Command: stem + []string{"", "x", "mgr", ".msc", " /f"}[r.Intn(5)], Description: "short",
				Platform: []string{"windows"}, Pipeline: false})
		}
		good := 1 + r.Intn(2)
		for i := 0; i < good; i++ {
			cmds = append(cmds, database.Command{Command: "lsblk --" + stem + " --output name,size", Description: "list " + stem + " devices and block devices in a tree with sizes",
				Platform: []string{"linux"}, Pipeline: i == 0})
		}
		r.Shuffle(len(cmds), func(i, j int) { cmds[i], cmds[j] = cmds[j], cmds[i] })
		b := []byte(stem)
		k := 1 + r.Intn(len(b)-2)
		q := string(append(append([]byte{}, b[:k]...), b[k+1:]...)) // one inner letter dropped: no lexical hit
		o.Limit = []int{1, 1, 2, 3}[r.Intn(4)]
		o.Fuzzy = true
		o.NLP = r.Intn(2) == 0
		o.Threshold = []int{0, 0, -500}[r.Intn(3)]
		switch r.Intn(5) {
		case 3, 4: // nothing filtered, a threshold outside the usual range: short texts score around and above zero
			o.AllPlatforms = true
			o.Limit = 10
			o.Threshold = []int{5, 10, 15, 25, 40, -100, -101, -150}[r.Intn(8)]
			o.PipelineBoost = []string{"", "2", "1.5", "3"}[(bad+good+k)%4] // a pipeline boost in force while the fallback answers
			if o.PipelineBoost != "" {
				// entries of middling length (match quality between the two clamps), pipelines and plain ones alternating, each longer - a worse match - than the one before
				pad := "and some more words about it "
				for i := 0; i < 5; i++ {
					cmds = append(cmds, database.Command{Command: "zq " + stem + " run", Description: "does it " + strings.Repeat(pad, i)[:i*9], Pipeline: i%2 == 1})
				}
				o.Threshold = []int{0, -100, -150}[k%3]
				if len(stem) >= 4 { // a short fragment: three letters score between -100 and 0 on texts of this length
					q = string([]byte{stem[0], stem[2], stem[3]})
				}
			}
		case 0:
			o.Platforms, o.NoCross = intsList([]string{"linux"}), true
		case 1:
			o.Platforms = intsList([]string{"linux"})
		case 2:
			o.PipelineOnly = true
		}
		return cmds, q, o
	case 1:
		// long entries and a typo: raw matcher scores far below -100 (no threshold, or a very low one)
		var cmds []database.Command
		for i, n := 0, 2+r.Intn(4); i < n; i++ {
			c := eGenCommand(r)
			c.Command = "compress-archive " + c.Command
			c.Description = strings.Repeat("creates a compressed archive of the given files and folders ", 2+r.Intn(4)) + c.Description
			cmds = append(cmds, c)
		}
		o.Limit = []int{0, 3, 10}[r.Intn(3)]
		o.Fuzzy = true
		o.Threshold = []int{0, -120, -150, -200, -300, -500, -1000}[r.Intn(7)]
		o.AllPlatforms = true
		return cmds, []string{"comprss", "archve", "cmprs arch"}[r.Intn(3)], o
	default:
		return eSharedTieScenario(r)
	}
}

// several query words shared with entries that tie exactly (same text up to characters that do not tokenize)
func eSharedTieScenario(r *rand.Rand) ([]database.Command, string, eOpts) {
	o := eOpts{}
	{
		words := []string{}
		for len(words) < 4+r.Intn(4) {
			words = append(words, ePlain[r.Intn(len(ePlain)-4)])
		}
		var cmds []database.Command
		base := database.Command{Command: "qm " + strings.Join(words[:2], " "), Description: strings.Join(words, " ") + " of a virtual machine",
			Keywords: append([]string(nil), words[:3]...)}
		for i, n := 0, 2+r.Intn(3); i < n; i++ {
			d := cloneCmd(base)
			d.Command = base.Command + strings.Repeat(" -", i)
			d.Niche = []string{"", "backup", "sysadmin"}[i%3]
			cmds = append(cmds, d)
		}
		for i, n := 0, r.Intn(6); i < n; i++ {
			cmds = append(cmds, eGenCommand(r))
		}
		r.Shuffle(len(cmds), func(i, j int) { cmds[i], cmds[j] = cmds[j], cmds[i] })
		o.Limit = []int{1, 1, 2, 0}[r.Intn(4)]
		o.NLP = r.Intn(4) != 0
		o.AllPlatforms = true
		r.Shuffle(len(words), func(i, j int) { words[i], words[j] = words[j], words[i] })
		return cmds, strings.Join(words, " "), o
	}
}

// eBoostFromQuery: half of the time the context boosts name a word of the query itself (an action or target word, often),
// and a second key that contains that word among others (script and make-target names look like that)
func eBoostFromQuery(r *rand.Rand, q string, o *eOpts) {
	if len(o.Boosts) == 0 || r.Intn(2) != 0 {
		return
	}
	ws := strings.Fields(strings.ToLower(q))
	if len(ws) == 0 {
		return
	}
	w := ws[r.Intn(len(ws))]
	o.Boosts[0].Word = ints(w)
	o.Boosts[0].F = []string{"1.1", "1.3", "1.5"}[r.Intn(3)]
	if len(o.Boosts) > 1 && r.Intn(2) == 0 {
		o.Boosts[1].Word = ints(w + []string{"-", ":", "_", "."}[r.Intn(4)] + eWord(r))
		o.Boosts[1].F = []string{"1.2", "1.7", "2.5"}[r.Intn(3)]
	}
}
