package main

import (
	"encoding/json"
	"fmt"
	"math/rand"
	"os"

	"github.com/Vedant9500/WTF/internal/database"
)

// C03: the inverted index answers like an exhaustive scan, and never lags behind the commands.

type c03Index struct {
	Built    bool       `json:"built"`
	N        int        `json:"n"`
	Terms    [][]int    `json:"terms"`
	DF       []int      `json:"df"`
	Postings [][][5]int `json:"postings"` // per term: (doc, tf cmd, desc, keys, tags)
	DocLens  [][4]int   `json:"doc_lens"`
	AvgLen   [4]string  `json:"avg_len"`
}

type c03Step struct {
	Op     string  `json:"op"` // load personal update append
	Cmds   []eCmd  `json:"cmds,omitempty"`
	Query  []int   `json:"q"`
	Opts   eOpts   `json:"opts"`
	Got    []eRes  `json:"got"`
	Fresh  []eRes  `json:"fresh"`
	After  [][]int `json:"after"` // command strings held after the op
	Expect [][]int `json:"expect"`
}

type c03Case struct {
	engCase
	Kind  string    `json:"kind"` // index | bigindex | history
	Index *c03Index `json:"index,omitempty"`
	Steps []c03Step `json:"steps,omitempty"`
}

func dumpIndex(db *database.Database) *c03Index {
	d := db.VerifIndex()
	out := &c03Index{Built: d.Built, N: d.N, Terms: intsList(d.Terms), DF: d.DF, DocLens: d.DocLens}
	if out.DocLens == nil {
		out.DocLens = [][4]int{}
	}
	for _, ps := range d.Postings {
		var l [][5]int
		for _, p := range ps {
			l = append(l, [5]int{p.Doc, p.TF[0], p.TF[1], p.TF[2], p.TF[3]})
		}
		out.Postings = append(out.Postings, l)
	}
	for i := 0; i < 4; i++ {
		out.AvgLen[i] = hexf(d.AvgLen[i])
	}
	return out
}

func cmdStrings(db *database.Database) [][]int {
	out := make([][]int, len(db.Commands))
	for i := range db.Commands {
		out[i] = ints(db.Commands[i].Command)
	}
	return out
}

func c03History(r *rand.Rand, c *c03Case, dir string) {
	main := eGenDB(r)
	mdb, err := loadCommands(dir, "m.yml", main)
	if err != nil {
		c.Note = "load-error"
		return
	}
	cdb := database.NewCachedDatabase(mdb)
	n := 2 + r.Intn(5)
	for s := 0; s < n; s++ {
		var st c03Step
		switch x := r.Intn(10); {
		case x < 2 || s == 0 && x < 5:
			st.Op = "personal"
			personal := eGenDB(r)
			if len(personal) > 6 {
				personal = personal[:6]
			}
			pdata := personal
			if _, err := loadCommands(dir, "p.yml", pdata); err != nil {
				continue
			}
			// re-use the files written by loadCommands
			db, err := database.LoadDatabaseWithPersonal(dir+"/m.yml", dir+"/p.yml")
			if err != nil {
				continue
			}
			pdb, _ := database.LoadDatabase(dir + "/p.yml")
			mdb2, _ := database.LoadDatabase(dir + "/m.yml")
			st.Expect = append(cmdStrings(mdb2), cmdStrings(pdb)...)
			cdb = database.NewCachedDatabase(db)
		case x < 6:
			st.Op = "update"
			repl := eGenDB(r)
			tmp, err := loadCommands(dir, "u.yml", repl) // populate the lower-cased cache fields the way a load does
			if err != nil {
				continue
			}
			cdb.UpdateDatabase(append([]database.Command(nil), tmp.Commands...))
			st.Expect = cmdStrings(tmp)
		default:
			st.Op = "append"
			more := eGenDB(r)
			if len(more) > 5 {
				more = more[:5]
			}
			if len(more) == 0 {
				more = []database.Command{eGenCommand(r)}
			}
			tmp, err := loadCommands(dir, "a.yml", more)
			if err != nil {
				continue
			}
			before := cmdStrings(cdb.Database)
			cdb.Database.Commands = append(cdb.Database.Commands, tmp.Commands...)
			st.Expect = append(before, cmdStrings(tmp)...)
		}
		q := eGenQuery(r, cdb.Database.Commands)
		o := eGenOpts(r, len(cdb.Database.Commands), cdb.Database.Commands)
		o.NLP = r.Intn(3) > 0
		st.Query, st.Opts = ints(q), o
		func() {
			defer func() {
				if rec := recover(); rec != nil {
					c.Note = "panic"
				}
			}()
			got := cdb.Database.SearchUniversal(q, o.toGo())
			st.Got = projectResults(cdb.Database, got)
			st.After = cmdStrings(cdb.Database)
			fr := database.VerifFresh(cdb.Database.Commands)
			st.Fresh = projectResults(fr, fr.SearchUniversal(q, o.toGo()))
		}()
		c.Steps = append(c.Steps, st)
	}
}

func runC03(seed int64, n int, replay string, e *emitter) {
	dir := mustTemp("verif-c03-")
	defer os.RemoveAll(dir)
	if replay != "" {
		for _, raw := range readReplay(replay) {
			var c c03Case
			if json.Unmarshal(raw, &c) != nil {
				continue
			}
			r := rand.New(rand.NewSource(c.Seed*1000003 + int64(c.ID)))
			out := c03One(r, c.ID, c.Seed, c.Kind, dir, &c)
			e.emit(out)
		}
		return
	}
	for i := 0; i < n; i++ {
		r := rand.New(rand.NewSource(seed*1000003 + int64(i)))
		kind := "index"
		if i%3 == 2 {
			kind = "history"
		}
		e.emit(c03One(r, i, seed, kind, dir, nil))
	}
}

func c03One(r *rand.Rand, id int, seed int64, kind string, dir string, from *c03Case) c03Case {
	c := c03Case{Kind: kind}
	c.ID, c.Seed = id, seed
	if kind == "history" {
		c03History(r, &c, dir)
		return c
	}
	var cmds []database.Command
	if from != nil && from.DB != nil {
		cmds = fromECmds(from.DB)
		c.Query, c.Opts, c.Recased = from.Query, from.Opts, from.Recased
	} else {
		cmds = eGenDB(r)
		q := eGenQuery(r, cmds)
		c.Query, c.Opts, c.Recased = ints(q), eGenOpts(r, len(cmds), cmds), ints(q)
		if id%100 == 13 {
			// a database as large as real ones (over a thousand entries, not a round number of them), tiny texts: every
			// entry, the last ones included, must be in the index; the query names one of the last entries and a common word
			n := 1024 + 1 + r.Intn(15)
			cmds = cmds[:0]
			for i := 0; i < n; i++ {
				cmds = append(cmds, database.Command{Command: fmt.Sprintf("t%d", i), Description: fmt.Sprintf("%s u%dq", ePlain[i%5], i)})
			}
			q = fmt.Sprintf("u%dq %s", n-1-r.Intn(3), ePlain[r.Intn(5)])
			c.Query, c.Recased = ints(q), ints(q)
			c.Opts = eOpts{AllPlatforms: true, Limit: []int{3, n + 5}[r.Intn(2)]}
			c.Kind = "bigindex"
		}
	}
	c.Opts.NLP = false
	engRun(&c.engCase, cmds, dir)
	if c.Note == "" {
		db, err := loadCommands(dir, "e.yml", cmds)
		if err == nil {
			c.Index = dumpIndex(db)
		}
	}
	return c
}

func init() { runners["c03"] = runC03 }
