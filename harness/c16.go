package main

import (
	"encoding/json"
	"fmt"
	"math/rand"
	"os"
	"path/filepath"
	"strings"
	"time"

	"github.com/Vedant9500/WTF/internal/history"
)

type c16Entry struct {
	Q   []int `json:"q"`
	T   int64 `json:"t"`
	R   int   `json:"r"`
	Ctx []int `json:"ctx"`
	D   int64 `json:"d"` // milliseconds
}

// c16File is the decoded structure of a generated history file plus its text.
type c16File struct {
	Kind    string     `json:"kind"` // missing empty garbage doc
	E       string     `json:"e"`    // absent null val wrong
	Entries []c16Entry `json:"entries"`
	M       string     `json:"m"` // absent null val wrong
	Max     int64      `json:"max"`
	Text    []int      `json:"text"`
}

type c16Op struct {
	Op    string    `json:"op"` // add save load loadfile clear recent top stats
	Entry *c16Entry `json:"entry,omitempty"`
	File  *c16File  `json:"file,omitempty"`
	Limit int       `json:"limit"`
	// observed
	Panic  bool       `json:"panic"`
	Failed bool       `json:"failed"`
	Recent [][]int    `json:"recent,omitempty"`
	Top    []c16Top   `json:"top,omitempty"`
	Stats  *c16Stats  `json:"stats,omitempty"`
	State  []c16Entry `json:"state"`
	MaxObs int        `json:"max_obs"`
}

type c16Top struct {
	Q []int `json:"q"`
	C int   `json:"c"`
	L int64 `json:"l"`
}

type c16Stats struct {
	Total, Unique  int
	Oldest, Newest int64
	AvgR, AvgD     string
}

type c16Case struct {
	ID  int     `json:"id"`
	Max int     `json:"max"`
	Ops []c16Op `json:"ops"`
}

var c16Queries = []string{"git commit", "list files", "compress", "Compress", "docker ps", "a", "", "日本 語", "x\ty", "q\"uote\\", "<tag>&", "émoji 😀", "null", "123"}
var c16Ctx = []string{"", "", "go", "git, docker"}

func unixOrZero(t time.Time) int64 {
	if t.IsZero() {
		return 0
	}
	return t.UnixNano()
}

func c16GenEntry(r *rand.Rand, base int64) c16Entry {
	return c16Entry{Q: ints(c16Queries[r.Intn(len(c16Queries))]), T: base, R: r.Intn(20), Ctx: ints(c16Ctx[r.Intn(len(c16Ctx))]), D: []int64{0, 0, 5, 12, 250}[r.Intn(5)]}
}

func c16RenderEntry(e c16Entry, r *rand.Rand) string {
	q, _ := json.Marshal(fromInts(e.Q))
	ts := time.Unix(0, e.T).UTC().Format(time.RFC3339Nano)
	s := fmt.Sprintf(`{"query":%s,"timestamp":"%s","results_count":%d`, q, ts, e.R)
	if len(e.Ctx) > 0 || r.Intn(4) == 0 {
		c, _ := json.Marshal(fromInts(e.Ctx))
		s += fmt.Sprintf(`,"context":%s`, c)
	}
	if e.D != 0 || r.Intn(4) == 0 {
		s += fmt.Sprintf(`,"duration":%d`, e.D)
	}
	if r.Intn(6) == 0 {
		s += `,"extra":[1,{"a":null}]`
	}
	return s + "}"
}

func c16GenFile(r *rand.Rand) *c16File {
	f := &c16File{}
	x := r.Intn(100)
	switch {
	case x < 6:
		f.Kind = "missing"
		return f
	case x < 12:
		f.Kind = "empty"
		return f
	case x < 26:
		f.Kind = "garbage"
		g := []string{"{", "[]", "nul", "\x00\x01\xff", "{\"entries\": [}", "42", "\"str\"", "{\"entries\":[],}", "{} {}", " "}
		f.Text = ints(g[r.Intn(len(g))])
		return f
	}
	f.Kind = "doc"
	var parts []string
	// entries field
	switch y := r.Intn(100); {
	case y < 10:
		f.E = "absent"
	case y < 18:
		f.E = "null"
		parts = append(parts, `"entries":null`)
	case y < 30:
		f.E = "wrong"
		w := []string{`"entries":"x"`, `"entries":5`, `"entries":{"a":1}`, `"entries":[1,2]`, `"entries":[{"query":5}]`, `"entries":[{"timestamp":"yesterday"}]`, `"entries":[{"results_count":"3"}]`}
		parts = append(parts, w[r.Intn(len(w))])
	default:
		f.E = "val"
		n := r.Intn(8)
		if r.Intn(5) == 0 {
			n = 90 + r.Intn(30)
		}
		base := int64(1704067200000000000) + int64(r.Intn(1000))*1000000000
		var es []string
		for i := 0; i < n; i++ {
			if r.Intn(4) != 0 {
				base += int64(r.Intn(5)) * 1000000007
			}
			e := c16GenEntry(r, base)
			f.Entries = append(f.Entries, e)
			es = append(es, c16RenderEntry(e, r))
		}
		parts = append(parts, `"entries":[`+strings.Join(es, ",")+`]`)
	}
	// max_size field
	switch y := r.Intn(100); {
	case y < 12:
		f.M = "absent"
	case y < 18:
		f.M = "null"
		parts = append(parts, `"max_size":null`)
	case y < 32:
		f.M = "wrong"
		w := []string{`"max_size":"5"`, `"max_size":1.5`, `"max_size":1e40`, `"max_size":true`, `"max_size":[3]`, `"max_size":99999999999999999999`}
		parts = append(parts, w[r.Intn(len(w))])
	default:
		f.M = "val"
		v := []int64{-1 << 40, -100, -3, -1, 0, 0, 1, 2, 3, 5, 50, 100, 1 << 40}
		f.Max = v[r.Intn(len(v))]
		parts = append(parts, fmt.Sprintf(`"max_size":%d`, f.Max))
	}
	if r.Intn(2) == 0 && len(parts) == 2 {
		parts[0], parts[1] = parts[1], parts[0]
	}
	f.Text = ints("{" + strings.Join(parts, ",") + "}")
	return f
}

func c16Gen(r *rand.Rand, id int) c16Case {
	c := c16Case{ID: id, Max: []int{-1, 0, 1, 2, 3, 5, 100}[r.Intn(7)]}
	n := 3 + r.Intn(30)
	fileHeavy := r.Intn(3) == 0
	var lastQ []int
	for i := 0; i < n; i++ {
		var o c16Op
		x := r.Intn(100)
		if r.Intn(12) == 0 {
			// the same query searched twice in a row by two runs of the tool: add, save, (load,) add again with other
			// fields, save, load
			e1 := c16GenEntry(r, 0)
			e2 := c16GenEntry(r, 0)
			e2.Q = e1.Q
			c.Ops = append(c.Ops, c16Op{Op: "add", Entry: &e1}, c16Op{Op: "save"})
			if r.Intn(2) == 0 {
				c.Ops = append(c.Ops, c16Op{Op: "load"})
			}
			c.Ops = append(c.Ops, c16Op{Op: "add", Entry: &e2}, c16Op{Op: "save"}, c16Op{Op: "load"})
			lastQ = e2.Q
			continue
		}
		switch {
		case x < 45:
			o.Op = "add"
			e := c16GenEntry(r, 0)
			if r.Intn(4) == 0 && lastQ != nil {
				e.Q = lastQ // repeat of the newest query (whatever was saved or loaded in between)
			}
			lastQ = e.Q
			o.Entry = &e
		case x < 55:
			o.Op = "save"
		case x < 63:
			o.Op = "load"
		case x < 70:
			if fileHeavy {
				o.Op = "loadfile"
				o.File = c16GenFile(r)
			} else {
				o.Op = "save"
			}
		case x < 74:
			o.Op = "clear"
		case x < 83:
			o.Op = "recent"
			o.Limit = []int{-1, 0, 1, 2, 3, 10}[r.Intn(6)]
		case x < 92:
			o.Op = "top"
			o.Limit = []int{-1, 0, 1, 2, 3, 10}[r.Intn(6)]
		default:
			o.Op = "stats"
		}
		c.Ops = append(c.Ops, o)
	}
	return c
}

func c16Dump(sh *history.SearchHistory) []c16Entry {
	out := []c16Entry{}
	for _, e := range sh.Entries {
		out = append(out, c16Entry{Q: ints(e.Query), T: unixOrZero(e.Timestamp), R: e.ResultsCount, Ctx: ints(e.Context), D: e.Duration})
	}
	return out
}

func c16Run(c *c16Case, dir string) {
	path := filepath.Join(dir, fmt.Sprintf("h%d", c.ID), "search_history.json")
	sh := history.NewSearchHistory(path, c.Max)
	dead := false
	for i := range c.Ops {
		o := &c.Ops[i]
		if dead {
			c.Ops = c.Ops[:i]
			break
		}
		func() {
			defer func() {
				if rec := recover(); rec != nil {
					o.Panic = true
					dead = true
				}
			}()
			switch o.Op {
			case "add":
				e := o.Entry
				sh.AddEntry(fromInts(e.Q), e.R, fromInts(e.Ctx), time.Duration(e.D)*time.Millisecond)
				if n := len(sh.Entries); n > 0 {
					e.T = unixOrZero(sh.Entries[n-1].Timestamp)
				}
			case "save":
				o.Failed = sh.Save() != nil
			case "load":
				o.Failed = sh.Load() != nil
			case "loadfile":
				os.MkdirAll(filepath.Dir(path), 0o755)
				switch o.File.Kind {
				case "missing":
					os.Remove(path)
				case "empty":
					os.WriteFile(path, nil, 0o644)
				default:
					os.WriteFile(path, []byte(fromInts(o.File.Text)), 0o644)
				}
				o.Failed = sh.Load() != nil
			case "clear":
				o.Failed = sh.Clear() != nil
			case "recent":
				o.Recent = [][]int{}
				for _, q := range sh.GetRecentQueries(o.Limit) {
					o.Recent = append(o.Recent, ints(q))
				}
			case "top":
				o.Top = []c16Top{}
				for _, t := range sh.GetTopQueries(o.Limit) {
					o.Top = append(o.Top, c16Top{Q: ints(t.Query), C: t.Count, L: unixOrZero(t.LastUsed)})
				}
			case "stats":
				s := sh.GetStats()
				o.Stats = &c16Stats{Total: s.TotalSearches, Unique: s.UniqueQueries, Oldest: unixOrZero(s.OldestEntry), Newest: unixOrZero(s.NewestEntry),
					AvgR: fmt.Sprintf("%x", s.AvgResultsPerSearch), AvgD: fmt.Sprintf("%x", s.AvgSearchDuration)}
			}
		}()
		if !o.Panic {
			o.State = c16Dump(sh)
			o.MaxObs = sh.MaxSize
		}
	}
}

func runC16(seed int64, n int, replay string, e *emitter) {
	dir, err := os.MkdirTemp("/var/tmp", "verif-c16-")
	if err != nil {
		panic(err)
	}
	defer os.RemoveAll(dir)
	var cases []c16Case
	if replay != "" {
		for _, raw := range readReplay(replay) {
			var c c16Case
			if json.Unmarshal(raw, &c) == nil {
				for i := range c.Ops { // forget old observations
					o := &c.Ops[i]
					o.Panic, o.Failed, o.Recent, o.Top, o.Stats, o.State, o.MaxObs = false, false, nil, nil, nil, nil, 0
				}
				cases = append(cases, c)
			}
		}
	} else {
		r := rand.New(rand.NewSource(seed))
		for i := 0; i < n; i++ {
			cases = append(cases, c16Gen(r, i))
		}
	}
	for i := range cases {
		c16Run(&cases[i], dir)
		e.emit(cases[i])
	}
}

func init() { runners["c16"] = runC16 }
