package main

import (
	"encoding/json"
	"math/rand"
	"os"
	"strings"

	"github.com/Vedant9500/WTF/internal/database"
)

// C02: the same database, query and options always give the same ranked answer.

type c02Case struct {
	ID     int       `json:"id"`
	Seed   int64     `json:"seed"`
	DB     []eCmd    `json:"db"`
	Query  []int     `json:"q"`
	Opts   eOpts     `json:"opts"`
	Runs   [][]eRes  `json:"runs"` // repeated calls on one Database, then on an independently loaded copy
	Sugg   [][][]int `json:"sugg"` // repeated GetSuggestions
	Kind   string    `json:"kind"` // generated | tie | shipped
	NoteDB string    `json:"note_db,omitempty"`
}

func c02TieDB(r *rand.Rand) []database.Command {
	// tie-heavy: k entries that tokenize identically, limits will cut through the tie
	k := 4 + r.Intn(10)
	base := eGenCommand(r)
	base.Platform = nil
	cmds := []database.Command{}
	for i := 0; i < k; i++ {
		d := cloneCmd(base)
		d.Command = base.Command + " #" + string(rune('a'+i%26))
		cmds = append(cmds, d)
	}
	for i, n := 0, r.Intn(5); i < n; i++ {
		cmds = append(cmds, eGenCommand(r))
	}
	r.Shuffle(len(cmds), func(i, j int) { cmds[i], cmds[j] = cmds[j], cmds[i] })
	return cmds
}

func c02Run(c *c02Case, cmds []database.Command, dir string, shipped *database.Database, shipped2 *database.Database) {
	var a, b *database.Database
	if c.Kind == "shipped" {
		a, b = shipped, shipped2
	} else {
		var err error
		a, err = loadCommands(dir, "a.yml", cmds)
		if err != nil {
			c.NoteDB = "load-error: " + err.Error()
			return
		}
		b, _ = loadCommands(dir, "b.yml", cmds)
		c.DB = dumpDB(a)
	}
	q := fromInts(c.Query)
	o := c.Opts.toGo()
	for i := 0; i < 8; i++ {
		c.Runs = append(c.Runs, projectResults(a, a.SearchUniversal(q, o)))
	}
	for i := 0; i < 3; i++ {
		c.Runs = append(c.Runs, projectResults(b, b.SearchUniversal(q, o)))
	}
	// the answer must not depend on what the database was asked before: other queries in between, then the same again
	for _, other := range []string{"disk usage", fromInts(c.Query) + " files", "compress archive"} {
		oo := o
		oo.UseNLP = true
		a.SearchUniversal(other, oo)
	}
	c.Runs = append(c.Runs, projectResults(a, a.SearchUniversal(q, o)))
	nsugg := 5
	reps := 4
	if c.Kind == "sugg" { // tied suggestion words: which of them survives a small maximum must be fixed too
		nsugg = 1 + c.ID%3
		reps = 12
	}
	for i := 0; i < reps; i++ {
		db := a
		if i >= reps/2 {
			db = b
		}
		c.Sugg = append(c.Sugg, intsList(db.GetSuggestions(q, nsugg)))
	}
}

func runC02(seed int64, n int, replay string, e *emitter) {
	dir := mustTemp("verif-c02-")
	defer os.RemoveAll(dir)
	var shipped, shipped2 *database.Database
	loadShipped := func() {
		if shipped == nil {
			shipped, _ = database.LoadDatabase("/repo/assets/commands.yml")
			shipped2, _ = database.LoadDatabase("/repo/assets/commands.yml")
		}
	}
	if replay != "" {
		for _, raw := range readReplay(replay) {
			var c c02Case
			if json.Unmarshal(raw, &c) != nil {
				continue
			}
			c.Runs, c.Sugg = nil, nil
			if c.Kind == "shipped" {
				loadShipped()
			}
			c02Run(&c, fromECmds(c.DB), dir, shipped, shipped2)
			e.emit(c)
		}
		return
	}
	shippedQueries := []string{"disk usage", "compress files", "list files", "git commit", "find files by name", "docker container logs", "show running processes",
		"extract archive", "network ports", "create directory", "remove folder", "download file", "permissions", "search text in files", "kill process"}
	for i := 0; i < n; i++ {
		r := rand.New(rand.NewSource(seed*1000003 + int64(i)))
		c := c02Case{ID: i, Seed: seed}
		var cmds []database.Command
		switch {
		case i%10 == 9 && shippedOK():
			c.Kind = "shipped"
			loadShipped()
			c.Query = ints(shippedQueries[(i/10)%len(shippedQueries)])
			c.Opts = eOpts{Limit: []int{5, 10, 3}[r.Intn(3)], NLP: r.Intn(2) == 0, Fuzzy: true, Threshold: -30}
		case i%50 == 13:
			// a database big enough for any size-triggered strategy (batching, parallel scoring), with groups of exact
			// ties spread over its whole length
			c.Kind = "big"
			base := []database.Command{eGenCommand(r), eGenCommand(r), eGenCommand(r)}
			for j := 0; j < 1300; j++ {
				d := cloneCmd(base[j%3])
				if j%3 != 0 || j%9 == 0 {
					d.Command = base[j%3].Command + strings.Repeat(" -", 1+j%5)
				} else {
					d = eGenCommand(r)
				}
				cmds = append(cmds, d)
			}
			ws := strings.Fields(base[1].Description + " " + base[2].Description)
			if len(ws) > 4 {
				ws = ws[:4]
			}
			c.Query = ints(strings.Join(ws, " "))
			c.Opts = eOpts{Limit: 1 + r.Intn(7), NLP: true, AllPlatforms: true}
		case i%7 == 4:
			// words of equal length that match a typo equally well (one inner letter varies)
			c.Kind = "sugg"
			base := []string{"branch", "commit", "status", "folder", "docker", "search", "remove"}[r.Intn(7)]
			k := 1 + r.Intn(len(base)-2)
			for _, v := range []byte("aeiouy")[:3+r.Intn(4)] {
				w := base[:k] + string(v) + base[k+1:]
				cm := eGenCommand(r)
				cm.Description = w + " " + cm.Description
				cmds = append(cmds, cm)
			}
			for j, m := 0, r.Intn(4); j < m; j++ {
				cmds = append(cmds, eGenCommand(r))
			}
			r.Shuffle(len(cmds), func(i, j int) { cmds[i], cmds[j] = cmds[j], cmds[i] })
			c.Query = ints(base[:k] + base[k+1:])
			c.Opts = eOpts{Limit: 5, Fuzzy: r.Intn(2) == 0, NLP: r.Intn(2) == 0, AllPlatforms: true}
		case i%11 == 6:
			// context keys as the directory analyzer produces them: a project word together with script / target names that
			// contain it ("test" 1.5 beside "test-race" 1.3 and "test:unit" 2.5), and a query that uses the word
			c.Kind = "ctxkeys"
			cmds = eGenDB(r)
			w := ePlain[r.Intn(12)]
			for j := range cmds {
				if j%2 == 0 {
					cmds[j].Description = w + " " + cmds[j].Description
				}
			}
			cmds = append(cmds, database.Command{Command: w + " --all", Description: "the " + w + " itself"})
			c.Query = ints(w + " " + eWord(r))
			c.Opts = eOpts{Limit: len(cmds) + 2, NLP: r.Intn(2) == 0, AllPlatforms: true,
				Boosts: []eBoost{{Word: ints(w), F: "1.5"}, {Word: ints(w + "-race"), F: "1.3"}, {Word: ints(w + ":unit"), F: "2.5"}, {Word: ints("build-" + w), F: "1.1"}}}
		case i%5 == 2:
			c.Kind = "shared"
			var q string
			cmds, q, c.Opts = eSharedTieScenario(r)
			c.Query = ints(q)
		case i%3 == 0:
			c.Kind = "tie"
			cmds = c02TieDB(r)
			c.Query = ints(eGenQuery(r, cmds))
			c.Opts = eGenOpts(r, len(cmds), cmds)
			c.Opts.Limit = 1 + r.Intn(6)
		default:
			c.Kind = "generated"
			cmds = eGenDB(r)
			c.Query = ints(eGenQuery(r, cmds))
			c.Opts = eGenOpts(r, len(cmds), cmds)
			eBoostFromQuery(r, fromInts(c.Query), &c.Opts)
		}
		c02Run(&c, cmds, dir, shipped, shipped2)
		e.emit(c)
	}
}

func shippedOK() bool {
	_, err := os.Stat("/repo/assets/commands.yml")
	return err == nil
}

func init() { runners["c02"] = runC02 }
