package main

import (
	"encoding/json"
	"math/rand"
	"os"
	"strings"

	"github.com/Vedant9500/WTF/internal/database"
	"github.com/Vedant9500/WTF/internal/recovery"
)

// C01 (recovery family): the CLI's last-resort search, called directly on generated databases and queries.

type recEntry struct {
	CmdLC  []int `json:"cmd_lc"`
	DescLC []int `json:"desc_lc"`
}

type recCase struct {
	ID      int        `json:"id"`
	Seed    int64      `json:"seed"`
	Family  string     `json:"family"`
	DB      []eCmd     `json:"db"`
	Query   []int      `json:"q"`
	QueryLC []int      `json:"q_lc"` // strings.ToLower(query): Unicode lower-casing is an oracle of the model
	Entries []recEntry `json:"entries"`
	Err     bool       `json:"err"`
	Panic   string     `json:"panic,omitempty"`
	Res     []eRes     `json:"res"`
	Recased []int      `json:"recased"`
	ResRe   []eRes     `json:"res_recased"`
}

func recRun(c *recCase, cmds []database.Command, dir string) {
	db, err := loadCommands(dir, "r.yml", cmds)
	if err != nil {
		c.Panic = "load-error"
		return
	}
	c.DB = dumpDB(db)
	c.Entries = nil
	for i := range db.Commands {
		c.Entries = append(c.Entries, recEntry{CmdLC: ints(db.Commands[i].CommandLower), DescLC: ints(db.Commands[i].DescriptionLower)})
	}
	q := fromInts(c.Query)
	c.QueryLC = ints(strings.ToLower(q))
	old := os.Stdout
	null, _ := os.OpenFile(os.DevNull, os.O_WRONLY, 0)
	os.Stdout = null
	func() {
		defer func() {
			if rec := recover(); rec != nil {
				c.Panic = "panic"
			}
		}()
		res, err := recovery.NewSearchRecovery().RecoverFromSearchFailure(q, nil, db)
		c.Err = err != nil
		c.Res = projectResults(db, res)
		res2, _ := recovery.NewSearchRecovery().RecoverFromSearchFailure(fromInts(c.Recased), nil, db)
		c.ResRe = projectResults(db, res2)
	}()
	os.Stdout = old
	null.Close()
}

func recQuery(r *rand.Rand, cmds []database.Command) string {
	if len(cmds) == 0 || r.Intn(6) == 0 {
		return eGenQuery(r, cmds)
	}
	// fragments of entries: whole command, words, inner fragments, several words of ONE entry, words of several entries
	c := cmds[r.Intn(len(cmds))]
	ws := strings.Fields(c.Command + " " + c.Description)
	frag := func(w string) string {
		if len(w) > 3 && r.Intn(2) == 0 {
			i := r.Intn(len(w) - 2)
			return strings.ToValidUTF8(w[i:i+2+r.Intn(len(w)-i-1)], "")
		}
		return w
	}
	switch r.Intn(6) {
	case 0:
		return eCase(r, c.Command)
	case 1:
		if len(ws) > 0 {
			return eCase(r, frag(ws[r.Intn(len(ws))]))
		}
	case 2, 3: // an unknown first word, then several fragments of the same entry
		out := []string{"qzxj"}
		for i, k := 0, 2+r.Intn(3); i < k && len(ws) > 0; i++ {
			out = append(out, frag(ws[r.Intn(len(ws))]))
		}
		return strings.Join(out, []string{" ", "  ", "\t", " "}[r.Intn(4)])
	case 4:
		out := []string{}
		for i, k := 0, 1+r.Intn(4); i < k; i++ {
			d := cmds[r.Intn(len(cmds))]
			w := strings.Fields(d.Command + " " + d.Description)
			if len(w) > 0 {
				out = append(out, eCase(r, frag(w[r.Intn(len(w))])))
			}
		}
		return strings.Join(out, " ")
	}
	return []string{"", " ", "x", "zz qq", "İ", "a b"}[r.Intn(6)]
}

func runC01Rec(seed int64, n int, replay string, e *emitter) {
	dir := mustTemp("verif-rec-")
	defer os.RemoveAll(dir)
	if replay != "" {
		for _, raw := range readReplay(replay) {
			var c recCase
			if json.Unmarshal(raw, &c) != nil {
				continue
			}
			in := recCase{ID: c.ID, Seed: c.Seed, Family: "rec", Query: c.Query, Recased: c.Recased}
			recRun(&in, fromECmds(c.DB), dir)
			e.emit(in)
		}
		return
	}
	for i := 0; i < n; i++ {
		r := rand.New(rand.NewSource(seed*1000003 + int64(i)))
		cmds := eGenDB(r)
		c := recCase{ID: i, Seed: seed, Family: "rec", Query: ints(recQuery(r, cmds))}
		c.Recased = ints(recase(r, fromInts(c.Query)))
		recRun(&c, cmds, dir)
		e.emit(c)
	}
}

func init() { runners["c01rec"] = runC01Rec }
