package main

import (
	"bufio"
	"encoding/json"
	"fmt"
	"math/rand"
	"os"
	"os/exec"
	"path/filepath"
	"regexp"
	"strconv"
	"strings"
	"syscall"
	"time"
	"unicode/utf16"

	"github.com/Vedant9500/WTF/internal/database"
	"github.com/Vedant9500/WTF/internal/recovery"
)

// C15: loading always ends with a usable database, without futile retries.
// Each case runs LoadDatabaseWithFallback in a CHILD process (this binary, sub-command c15child) under strace,
// so that load attempts are counted from the openat calls on the main file, not inferred from wall-clock time.

type c15Cfg struct {
	MaxAttempts int   `json:"max_attempts"`
	BaseNS      int64 `json:"base_ns"`
	MaxNS       int64 `json:"max_ns"`
	FactorNum   int64 `json:"factor_num"` // factor = num / 2^den_log2 (dyadic: exact in binary64)
	FactorDen   int64 `json:"factor_den"`
}

type c15Case struct {
	ID       int    `json:"id"`
	Seed     int64  `json:"seed"`
	Main     string `json:"main"`     // good missing dir unreadable malformed empty
	Personal string `json:"personal"` // absent good malformed dir unreadable
	Backup   string `json:"backup"`   // absent good empty emptylist stale
	Cfg      c15Cfg `json:"cfg"`
	MainN    int    `json:"main_n"`
	PersN    int    `json:"pers_n"`
	// observed
	Nil       bool    `json:"nil_db"`
	Err       bool    `json:"err"`
	DBN       int     `json:"db_n"`
	First     [][]int `json:"first"` // command strings of the returned database
	Attempts  int     `json:"attempts"`
	GapsNS    []int64 `json:"gaps_ns"`
	Delays    []int64 `json:"delays"` // calculateDelay(1..4) as the code computes it (ns)
	Searched  bool    `json:"searched"`
	ChildFail string  `json:"child_fail,omitempty"`
	Embedded  [][]int `json:"embedded"` // the built-in fallback lists, read from the built code (hook VerifBuiltins)
	Minimal   [][]int `json:"minimal"`
}

const c15Good = `- command: "git status"
  description: "Show status"
  keywords: ["git"]
  pipeline: false
- command: "ls -la"
  description: "List files"
  keywords: ["list"]
  pipeline: false
- command: "df -h"
  description: "Disk usage"
  keywords: ["disk"]
  pipeline: false
`
const c15Pers = `- command: "my cmd"
  description: "Mine"
  keywords: ["mine"]
  pipeline: false
`

func c15Place(path, kind, content string) {
	os.RemoveAll(path)
	switch kind {
	case "good":
		os.WriteFile(path, []byte(content), 0o644)
	case "utf16le", "utf16be": // the same text as saved by an editor as "Unicode": a byte order mark, two bytes per character
		b := []byte{0xff, 0xfe}
		if kind == "utf16be" {
			b = []byte{0xfe, 0xff}
		}
		for _, u := range utf16.Encode([]rune(content)) {
			if kind == "utf16be" {
				b = append(b, byte(u>>8), byte(u))
			} else {
				b = append(b, byte(u), byte(u>>8))
			}
		}
		os.WriteFile(path, b, 0o644)
	case "utf8bom":
		os.WriteFile(path, append([]byte{0xef, 0xbb, 0xbf}, content...), 0o644)
	case "dir":
		os.MkdirAll(path, 0o755)
	case "unreadable":
		os.WriteFile(path, []byte(content), 0o000)
	case "malformed":
		os.WriteFile(path, []byte("- command: [unclosed\n  : : :\n\t- x"), 0o644)
	case "empty":
		os.WriteFile(path, []byte(""), 0o644)
	case "emptylist":
		os.WriteFile(path, []byte("[]\n"), 0o644)
	case "dup": // the user's own entry for a command line the main database also has, and one listed twice
		os.WriteFile(path, []byte("- command: \"git status\"\n  description: \"my wording\"\n  keywords: [\"mine\"]\n  pipeline: false\n- command: \"my cmd\"\n  description: \"Mine\"\n  keywords: []\n  pipeline: false\n- command: \"my cmd\"\n  description: \"Mine again\"\n  keywords: []\n  pipeline: false\n"), 0o644)
	case "blank":
		os.WriteFile(path, []byte("  \n\n"), 0o644)
	case "comment":
		os.WriteFile(path, []byte("# my commands\n# none yet\n"), 0o644)
	case "stale":
		os.WriteFile(path, []byte("- command: \"old-backup-only\"\n  description: \"stale\"\n  keywords: [\"old\"]\n  pipeline: false\n"), 0o644)
	}
}

func c15Gen(r *rand.Rand, id int) c15Case {
	c := c15Case{ID: id}
	c.Main = []string{"good", "good", "missing", "dir", "unreadable", "malformed", "empty"}[r.Intn(7)]
	c.Personal = []string{"absent", "absent", "good", "malformed", "dir", "unreadable", "empty", "blank", "comment", "emptylist", "dup"}[r.Intn(11)]
	c.Backup = []string{"absent", "absent", "good", "empty", "emptylist", "stale", "malformed", "dir"}[r.Intn(8)]
	c.Cfg = c15Cfg{MaxAttempts: []int{-1, 0, 1, 2, 3, 3, 4}[r.Intn(7)], BaseNS: []int64{0, 1000000, 2000000}[r.Intn(3)],
		MaxNS: []int64{1000000, 3000000, 5000000000, 0}[r.Intn(4)]}
	f := [][2]int64{{1, 1}, {2, 1}, {4, 1}, {3, 2}, {1, 2}, {16, 1}, {1024, 1}, {5, 4}}[r.Intn(8)]
	c.Cfg.FactorNum, c.Cfg.FactorDen = f[0], f[1]
	// well-formed files in the other encodings a YAML stream may legally use
	if c.Main == "good" && id%5 >= 2 {
		c.Main = []string{"utf16le", "utf16be", "utf8bom"}[id%5-2]
	}
	if c.Personal == "good" && id%2 == 1 {
		c.Personal = []string{"utf16be", "utf16le"}[id/2%2]
	}
	return c
}

type c15ChildOut struct {
	Nil      bool     `json:"nil_db"`
	Err      bool     `json:"err"`
	DBN      int      `json:"db_n"`
	First    []string `json:"first"`
	Delays   []int64  `json:"delays"`
	Searched bool     `json:"searched"`
}

// c15Child: argv = main personal cfg-json ; prints one JSON line.
func runC15Child(seed int64, n int, replay string, e *emitter) {
	// arguments are passed through the environment to keep the shared flag parser
	mainP, pers := os.Getenv("C15_MAIN"), os.Getenv("C15_PERS")
	var cfg c15Cfg
	json.Unmarshal([]byte(os.Getenv("C15_CFG")), &cfg)
	rc := recovery.RetryConfig{MaxAttempts: cfg.MaxAttempts, BaseDelay: time.Duration(cfg.BaseNS), MaxDelay: time.Duration(cfg.MaxNS),
		BackoffFactor: float64(cfg.FactorNum) / float64(cfg.FactorDen)}
	dr := recovery.NewDatabaseRecovery(rc)
	old := os.Stdout
	null, _ := os.OpenFile(os.DevNull, os.O_WRONLY, 0)
	os.Stdout = null
	db, err := dr.LoadDatabaseWithFallback(mainP, pers)
	os.Stdout = old
	out := c15ChildOut{Nil: db == nil, Err: err != nil}
	if db != nil {
		out.DBN = len(db.Commands)
		for i := range db.Commands {
			out.First = append(out.First, db.Commands[i].Command)
		}
		func() {
			defer func() { recover() }()
			db.SearchUniversal("list files", database.SearchOptions{Limit: 3, UseNLP: true, UseFuzzy: true})
			out.Searched = true
		}()
	}
	for _, k := range []int{1, 2, 3, 4, 5, 8, 13, 20, 39, 40, 64, 65, 100, 600, 1100} { // = delay_ks of Check/C15.v
		out.Delays = append(out.Delays, int64(recovery.VerifCalculateDelay(dr, k)))
	}
	e.emit(out)
}

var c15TS = regexp.MustCompile(`^(\d+)\s+(\d+\.\d+)\s+openat\(`)

func c15Run(c *c15Case, dir string) {
	d := filepath.Join(dir, fmt.Sprintf("c%d", c.ID))
	os.MkdirAll(d, 0o755)
	os.Chmod(d, 0o755)
	defer os.RemoveAll(d)
	mainP := filepath.Join(d, "main.yml")
	pers := filepath.Join(d, "personal.yml")
	c15Place(mainP, c.Main, c15Good)
	c15Place(pers, c.Personal, c15Pers)
	c15Place(mainP+".backup", c.Backup, c15Good)
	if c.Main == "good" || strings.HasPrefix(c.Main, "utf") {
		c.MainN = 3
	}
	if c.Personal == "good" || strings.HasPrefix(c.Personal, "utf") {
		c.PersN = 1
	}
	if c.Personal == "dup" {
		c.PersN = 3
	}
	cfg, _ := json.Marshal(c.Cfg)
	self, _ := os.Executable()
	trace := filepath.Join(d, "trace.txt")
	outF := filepath.Join(d, "out.json")
	os.WriteFile(outF, nil, 0o666)
	os.Chmod(outF, 0o666)
	os.WriteFile(trace, nil, 0o666)
	os.Chmod(trace, 0o666)
	cmd := exec.Command("strace", "-f", "-ttt", "-e", "trace=openat", "-o", trace, self, "c15child", "-out", outF)
	cmd.Env = append(os.Environ(), "C15_MAIN="+mainP, "C15_PERS="+pers, "C15_CFG="+string(cfg))
	if os.Getuid() == 0 { // root ignores file modes: run the child as nobody so that 'unreadable' means something
		cmd.SysProcAttr = &syscall.SysProcAttr{Credential: &syscall.Credential{Uid: 65534, Gid: 65534}}
		cmd.Env = append(cmd.Env, "HOME=/tmp", "GOCACHE=/tmp")
	}
	if b, err := cmd.CombinedOutput(); err != nil {
		c.ChildFail = fmt.Sprintf("%v: %s", err, string(b))
		if len(c.ChildFail) > 300 {
			c.ChildFail = c.ChildFail[:300]
		}
	}
	data, _ := os.ReadFile(outF)
	var out c15ChildOut
	if json.Unmarshal(data, &out) != nil && c.ChildFail == "" {
		c.ChildFail = "no child output"
	}
	c.Nil, c.Err, c.DBN, c.First, c.Delays, c.Searched = out.Nil, out.Err, out.DBN, intsList(out.First), out.Delays, out.Searched
	emb, mini := recovery.VerifBuiltins(recovery.NewDatabaseRecovery(recovery.RetryConfig{MaxAttempts: 1}))
	c.Embedded, c.Minimal = intsList(emb), intsList(mini)
	// attempts = openat calls on the main file (one per LoadDatabase(main) call)
	f, err := os.Open(trace)
	if err == nil {
		defer f.Close()
		sc := bufio.NewScanner(f)
		var times []float64
		for sc.Scan() {
			line := sc.Text()
			if strings.Contains(line, "\""+mainP+"\"") {
				if m := c15TS.FindStringSubmatch(line); m != nil {
					t, _ := strconv.ParseFloat(m[2], 64)
					times = append(times, t)
				}
			}
		}
		c.Attempts = len(times)
		for i := 1; i < len(times); i++ {
			c.GapsNS = append(c.GapsNS, int64((times[i]-times[i-1])*1e9))
		}
	}
}

func runC15(seed int64, n int, replay string, e *emitter) {
	dir := mustTemp("verif-c15-")
	os.Chmod(dir, 0o755)
	defer os.RemoveAll(dir)
	if replay != "" {
		for _, raw := range readReplay(replay) {
			var c c15Case
			if json.Unmarshal(raw, &c) != nil {
				continue
			}
			in := c15Case{ID: c.ID, Seed: c.Seed, Main: c.Main, Personal: c.Personal, Backup: c.Backup, Cfg: c.Cfg}
			c15Run(&in, dir)
			e.emit(in)
		}
		return
	}
	for i := 0; i < n; i++ {
		r := rand.New(rand.NewSource(seed*1000003 + int64(i)))
		c := c15Gen(r, i)
		c.Seed = seed
		c15Run(&c, dir)
		e.emit(c)
	}
}

func init() { runners["c15"] = runC15; runners["c15child"] = runC15Child }
