package main

import (
	"encoding/json"
	"fmt"
	"github.com/Vedant9500/WTF/internal/embedding"
	"math"
	"math/rand"
	"os"
	"strings"
	"unicode"

	"github.com/Vedant9500/WTF/internal/database"
	"github.com/Vedant9500/WTF/internal/nlp"
	"github.com/sahilm/fuzzy"
)

// Shared engine cases (C01 C03 C04 C06 C07 C13 C20): one database, one query, one option record, the oracles
// the Coq model needs, the observed answer, and the paired runs the relational properties compare.

type engNLP struct {
	Actions  [][]int   `json:"actions"`
	Targets  [][]int   `json:"targets"`
	Keywords [][]int   `json:"keywords"`
	Enhanced [][]int   `json:"enhanced"`
	Intent   string    `json:"intent"`
	IntentB  []string  `json:"intent_boost"`
	Cooccur  []bool    `json:"cooccur"`
	Cascade  []string  `json:"cascade"`
	HasTFIDF bool      `json:"has_tfidf"`
	TFIDF    []eRes    `json:"tfidf"`
	DocToks  [][][]int `json:"doc_toks"` // TF-IDF tokenizer output for each command's text (command, description, keywords)
	QToks    [][]int   `json:"q_toks"`   // ... and for the query
	LogT     []string  `json:"logt"`     // logt[dc] = math.Log(N / dc), dc = 0..N
	Words    [][]int   `json:"words"`
	QLower   []int     `json:"q_lower"`
	Hints    [][]int   `json:"hints"`
	Sig      [][]int   `json:"sig"`  // the whole analysis flattened: keywords | enhanced | actions | targets | intent
	Sig2     [][]int   `json:"sig2"` // the same from a repeated analysis (the first of 8 repetitions that differs, else the last)
}

type engCase struct {
	ID      int               `json:"id"`
	Seed    int64             `json:"seed"`
	DB      []eCmd            `json:"db"`
	CmdLC   [][]int           `json:"cmd_lc"` // strings.ToLower(Command) per entry
	Query   []int             `json:"q"`
	Opts    eOpts             `json:"opts"`
	Host    []int             `json:"host"`
	Stop    [][]int           `json:"stop"`
	Tools   [][]int           `json:"tools"`
	K1      string            `json:"k1"`
	B       [4]string         `json:"b"`
	W       [4]string         `json:"w"`
	MinIDF  string            `json:"min_idf"`
	IDF     []string          `json:"idf"`          // idf(n, df) for df = 0..n
	Fuzzy   []*int            `json:"fuzzy"`        // raw matcher score per entry (null: no match)
	LegacyW [][]int           `json:"legacy_words"` // strings.Fields(strings.ToLower(query))
	Legacy  []string          `json:"legacy"`       // calculateScore per entry for strings.Fields(strings.ToLower(query)) and the context boosts (oracle of Model/Legacy.v)
	NLP     engNLP            `json:"nlp"`
	Obs     []eRes            `json:"obs"`
	Extra   map[string][]eRes `json:"extra"`
	Recased []int             `json:"recased"`
	Tokens  [][]int           `json:"tokens"` // normalizeAndTokenize(query)
	Note    string            `json:"note,omitempty"`
	NLPTab  *engTables        `json:"nlp_tables,omitempty"` // word tables of the query processor (first case of a run only)
}

type engPair struct {
	K []int   `json:"k"`
	V [][]int `json:"v"`
}

type engTables struct {
	Actions  []engPair `json:"actions"`
	Targets  []engPair `json:"targets"`
	Synonyms []engPair `json:"synonyms"`
}

func engTab(m map[string][]string) []engPair {
	keys := make([]string, 0, len(m))
	for k := range m {
		keys = append(keys, k)
	}
	sortStrings(keys)
	out := []engPair{}
	for _, k := range keys {
		out = append(out, engPair{K: ints(k), V: intsList(m[k])})
	}
	return out
}

var engTablesSent bool

func engNLPTables() *engTables {
	if engTablesSent {
		return nil
	}
	engTablesSent = true
	a, t, sy := nlp.VerifTables()
	return &engTables{Actions: engTab(a), Targets: engTab(t), Synonyms: engTab(sy)}
}

func recase(r *rand.Rand, q string) string {
	b := []byte(q)
	if r.Intn(3) == 0 { // all (ASCII) capitals: no lower-case spelling of any phrase survives
		for i, c := range b {
			if c >= 'a' && c <= 'z' {
				b[i] = c - 32
			}
		}
		return string(b)
	}
	for i, c := range b {
		if c >= 'a' && c <= 'z' && r.Intn(2) == 0 {
			b[i] = c - 32
		} else if c >= 'A' && c <= 'Z' && r.Intn(2) == 0 {
			b[i] = c + 32
		}
	}
	return string(b)
}

func engOracles(c *engCase, db *database.Database, q string) {
	c.Host = ints(database.VerifCurrentPlatform())
	sw := nlp.StopWords()
	words := make([]string, 0, len(sw))
	for w := range sw {
		words = append(words, w)
	}
	sortStrings(words)
	c.Stop = intsList(words)
	c.Tools = intsList(database.VerifCrossPlatformTools())
	k1, b, w, mi := database.VerifParams()
	c.K1, c.MinIDF = hexf(k1), hexf(mi)
	for i := 0; i < 4; i++ {
		c.B[i], c.W[i] = hexf(b[i]), hexf(w[i])
	}
	n := len(db.Commands)
	for df := 0; df <= n; df++ {
		c.IDF = append(c.IDF, hexf(database.VerifIDF(n, df)))
	}
	c.CmdLC = make([][]int, n)
	targets := make([]string, n)
	for i := range db.Commands {
		c.CmdLC[i] = ints(strings.ToLower(db.Commands[i].Command))
		targets[i] = db.Commands[i].Command + " " + db.Commands[i].Description
	}
	c.Fuzzy = make([]*int, n)
	func() {
		defer func() {
			if rec := recover(); rec != nil {
				c.Note = "fuzzy-matcher-panic"
			}
		}()
		for _, m := range fuzzy.FindNoSort(q, targets) {
			s := m.Score
			c.Fuzzy[m.Index] = &s
		}
	}()
	c.Tokens = intsList(database.VerifTokenize(q))
	pq, _ := db.VerifEnhance(q, database.VerifTokenize(q))
	c.NLP = engNLP{Actions: intsList(pq.Actions), Targets: intsList(pq.Targets), Keywords: intsList(pq.Keywords),
		Enhanced: intsList(pq.GetEnhancedKeywords()), Intent: string(pq.Intent)}
	sig := func(p *nlp.ProcessedQuery) [][]int {
		var l []string
		l = append(l, p.Keywords...)
		l = append(l, "|")
		l = append(l, p.GetEnhancedKeywords()...)
		l = append(l, "|")
		l = append(l, p.Actions...)
		l = append(l, "|")
		l = append(l, p.Targets...)
		l = append(l, "|", string(p.Intent))
		return intsList(l)
	}
	c.NLP.Words, c.NLP.QLower, c.NLP.Hints = intsList(nlp.VerifWords(q)), ints(strings.ToLower(q)), intsList(pq.VerifHints())
	c.NLP.Sig = sig(pq)
	c.NLP.Sig2 = c.NLP.Sig
	for k := 0; k < 8; k++ {
		p2, _ := db.VerifEnhance(q, database.VerifTokenize(q))
		c.NLP.Sig2 = sig(p2)
		if fmt.Sprint(c.NLP.Sig2) != fmt.Sprint(c.NLP.Sig) {
			break
		}
	}
	for i := 0; i < n; i++ {
		c.NLP.IntentB = append(c.NLP.IntentB, hexf(db.VerifIntentBoost(i, pq)))
		c.NLP.Cooccur = append(c.NLP.Cooccur, db.VerifCooccur(i, pq))
		c.NLP.Cascade = append(c.NLP.Cascade, hexf(db.VerifCascadeBoost(i, pq)))
	}
	for i := range db.Commands {
		cm := &db.Commands[i]
		text := strings.Join([]string{cm.Command, cm.Description, strings.Join(cm.Keywords, " ")}, " ")
		c.NLP.DocToks = append(c.NLP.DocToks, intsList(nlp.VerifTFIDFTokenize(text)))
	}
	c.NLP.QToks = intsList(nlp.VerifTFIDFTokenize(q))
	for dc := 0; dc <= n; dc++ {
		c.NLP.LogT = append(c.NLP.LogT, hexf(math.Log(float64(n)/float64(dc))))
	}
	res, ok := db.VerifTFIDFSearch(q, n+1)
	c.NLP.HasTFIDF = ok
	for _, r := range res {
		c.NLP.TFIDF = append(c.NLP.TFIDF, eRes{Doc: r.CommandIndex, Score: hexf(r.Similarity)})
	}
}

func sortStrings(a []string) {
	for i := 1; i < len(a); i++ {
		for j := i; j > 0 && a[j] < a[j-1]; j-- {
			a[j], a[j-1] = a[j-1], a[j]
		}
	}
}

func engRun(c *engCase, cmds []database.Command, dir string) {
	db, err := loadCommands(dir, "e.yml", cmds)
	if err != nil {
		c.Note = "load-error: " + err.Error()
		return
	}
	c.DB = dumpDB(db)
	c.NLPTab = engNLPTables()
	q := fromInts(c.Query)
	engOracles(c, db, q)
	if c.Note != "" {
		return
	}
	o := c.Opts.toGo()
	n := len(db.Commands)
	c.Extra = map[string][]eRes{}
	run := func(name string, qq string, oo database.SearchOptions) {
		defer func() {
			if rec := recover(); rec != nil {
				c.Note = "panic in " + name
			}
		}()
		c.Extra[name] = projectResults(db, db.SearchUniversal(qq, oo))
	}
	func() {
		defer func() {
			if rec := recover(); rec != nil {
				c.Note = "panic in main run"
			}
		}()
		c.Obs = projectResults(db, db.SearchUniversal(q, o))
	}()
	oo := o
	oo.UseFuzzy = false
	run("fuzzy_off", q, oo)
	oo.UseFuzzy = true
	run("fuzzy_on", q, oo)
	// the same request after the database was replaced by a list of the same size (here: the same entries, which the
	// wrapper held in reverse order and had already answered a search from): the answer is that of the list held now
	func() {
		defer func() {
			if rec := recover(); rec != nil {
				c.Note = "panic in replace run"
			}
		}()
		rev := make([]database.Command, n)
		for i := range db.Commands {
			rev[n-1-i] = db.Commands[i]
		}
		sdb := database.NewCachedDatabase(database.VerifFresh(rev))
		sdb.SearchWithOptionsAndCache(q, oo)
		sdb.UpdateDatabase(append([]database.Command(nil), db.Commands...))
		c.Extra["fuzzy_after_replace"] = projectResults(sdb.Database, sdb.SearchWithOptionsAndCache(q, oo))
	}()
	big := o
	big.Limit = n + 5
	big.UseFuzzy = false
	big.UseNLP = false
	run("nlp_off_big", q, big)
	big.UseNLP = true
	run("nlp_on_big", q, big)
	bb := o
	bb.Limit = n + 5
	run("boost_big", q, bb)
	bb.ContextBoosts = nil
	run("noboost_big", q, bb)
	run("recased", fromInts(c.Recased), o)
	// cached layer: first call fills, second call is answered from the cache
	cdb := database.NewCachedDatabase(db)
	c.Extra["cached1"] = projectResults(db, cdb.SearchWithOptionsAndCache(q, o))
	c.Extra["cached2"] = projectResults(db, cdb.SearchWithOptionsAndCache(q, o))
	// a cache that already holds the answers to requests differing from this one in exactly one option
	vdb := database.NewCachedDatabase(db)
	for _, v := range engVariants(o, n) {
		vdb.SearchWithOptionsAndCache(q, v)
	}
	c.Extra["cached_after_variants"] = projectResults(db, vdb.SearchWithOptionsAndCache(q, o))
	// the database is re-read (same command lines, a field the engine does not look at edited): the next cached
	// answer must name entries of the NEW list
	func() {
		defer func() {
			if rec := recover(); rec != nil {
				c.Note = "panic in refresh run"
			}
		}()
		rdb := database.NewCachedDatabase(database.VerifFresh(db.Commands))
		rdb.SearchWithOptionsAndCache(q, o)
		edited := append([]database.Command(nil), rdb.Database.Commands...)
		for i := range edited {
			edited[i].Niche += " (edited)"
		}
		rdb.UpdateDatabase(edited)
		c.Extra["cached_after_refresh"] = projectResults(rdb.Database, rdb.SearchWithOptionsAndCache(q, o))
	}()
	c.Extra["legacy_pipeline"] = projectResults(db, db.SearchWithPipelineOptions(q, o))
	lw := strings.Fields(strings.ToLower(q))
	c.LegacyW = intsList(lw)
	for i := range db.Commands {
		c.Legacy = append(c.Legacy, hexf(database.VerifLegacyScore(&db.Commands[i], lw, o.ContextBoosts)))
	}
	engRespelled(c, db, q, o)
	c.Extra["search"] = projectResults(db, db.Search(q, o.Limit))
}

func asciiUpper(s string) string {
	b := []byte(s)
	for i, ch := range b {
		if ch >= 'a' && ch <= 'z' {
			b[i] = ch - 32
		}
	}
	return string(b)
}

// engRespelled: two more paths asked twice, the second time with the query in another spelling (ASCII capitals, other
// whitespace): (1) the pipeline search behind `wtf pipeline`, with the first words of a pipeline entry's description as the
// query; (2) the universal search with a semantic index attached whose vocabulary holds the query's words, two compound
// words ("read-only", "node.js") included. The two answers of each pair must be the same.
func engRespelled(c *engCase, db *database.Database, q string, o database.SearchOptions) {
	defer func() {
		if rec := recover(); rec != nil {
			c.Note = "panic in respelled run"
		}
	}()
	n := len(db.Commands)
	var phrase []string
	for pass := 0; pass < 2 && phrase == nil; pass++ {
		for i := range db.Commands {
			ws := strings.Fields(db.Commands[i].Description)
			if len(ws) >= 2 && (pass == 1 || database.VerifIsPipeline(&db.Commands[i])) {
				if len(ws) > 3 {
					ws = ws[:3]
				}
				phrase = ws
				break
			}
		}
	}
	if phrase != nil {
		po := database.SearchOptions{Limit: n + 5, AllPlatforms: true, PipelineBoost: o.PipelineBoost}
		c.Extra["pipe_phrase"] = projectResults(db, db.SearchWithPipelineOptions(strings.Join(phrase, " "), po))
		c.Extra["pipe_phrase_respelled"] = projectResults(db, db.SearchWithPipelineOptions("  "+asciiUpper(strings.Join(phrase, " \t "))+" ", po))
	}
	// semantic index: deterministic vectors from the words themselves
	vec := func(w string, salt int) []float32 {
		rr := rand.New(rand.NewSource(int64(len(w))*7919 + int64(salt)))
		for _, ch := range []byte(w) {
			rr = rand.New(rand.NewSource(rr.Int63() ^ int64(ch)))
		}
		v := make([]float32, 5)
		for i := range v {
			v[i] = float32(rr.NormFloat64())
		}
		return v
	}
	q2 := q + " read-only node.js"
	idx := &embedding.Index{Dimension: 5, WordVectors: map[string][]float32{}}
	for _, w := range strings.Fields(strings.ToLower(q2)) {
		idx.WordVectors[w] = vec(w, 1)
		for _, piece := range strings.FieldsFunc(w, func(ch rune) bool { return !unicode.IsLetter(ch) && !unicode.IsNumber(ch) }) {
			idx.WordVectors[piece] = vec(piece, 1)
		}
	}
	for i := range db.Commands {
		idx.CmdEmbeddings = append(idx.CmdEmbeddings, vec(db.Commands[i].Command, 2+i))
	}
	edb := database.VerifFresh(db.Commands)
	edb.VerifSetEmbeddingIndex(idx)
	c.Extra["emb"] = projectResults(edb, edb.SearchUniversal(q2, o))
	c.Extra["emb_respelled"] = projectResults(edb, edb.SearchUniversal(asciiUpper(q)+" Read-Only NODE.JS", o))
}

// engVariants: the request with exactly one option changed, one variant per option
func engVariants(o database.SearchOptions, n int) []database.SearchOptions {
	var out []database.SearchOptions
	add := func(f func(*database.SearchOptions)) {
		v := o
		f(&v)
		out = append(out, v)
	}
	add(func(v *database.SearchOptions) { v.NoCrossPlatform = !v.NoCrossPlatform })
	add(func(v *database.SearchOptions) { v.PipelineOnly = !v.PipelineOnly })
	add(func(v *database.SearchOptions) { v.AllPlatforms = !v.AllPlatforms })
	add(func(v *database.SearchOptions) {
		if len(v.Platforms) == 0 {
			v.Platforms = []string{"windows"}
		} else {
			v.Platforms = nil
		}
	})
	add(func(v *database.SearchOptions) {
		switch {
		case v.Limit <= 0:
			v.Limit = 5
		case v.Limit == 5:
			v.Limit = 0
		default:
			v.Limit = v.Limit + 1
		}
	})
	add(func(v *database.SearchOptions) { v.Limit = n + 7 })
	add(func(v *database.SearchOptions) { v.UseNLP = !v.UseNLP })
	add(func(v *database.SearchOptions) { v.UseFuzzy = !v.UseFuzzy })
	add(func(v *database.SearchOptions) { v.FuzzyThreshold = v.FuzzyThreshold - 17 })
	add(func(v *database.SearchOptions) {
		if v.TopTermsCap <= 0 {
			v.TopTermsCap = 3
		} else {
			v.TopTermsCap = 0
		}
	})
	add(func(v *database.SearchOptions) { v.PipelineBoost = v.PipelineBoost + 1.5 })
	add(func(v *database.SearchOptions) {
		nb := map[string]float64{"files": 1.7}
		for k, x := range v.ContextBoosts {
			nb[k] = x + 0.25
		}
		v.ContextBoosts = nb
	})
	return out
}

func runEng(seed int64, n int, replay string, e *emitter) {
	dir := mustTemp("verif-eng-")
	defer os.RemoveAll(dir)
	if replay != "" {
		for _, raw := range readReplay(replay) {
			var c engCase
			if json.Unmarshal(raw, &c) != nil {
				continue
			}
			in := engCase{ID: c.ID, Seed: c.Seed, Query: c.Query, Opts: c.Opts, Recased: c.Recased}
			engRun(&in, fromECmds(c.DB), dir)
			e.emit(in)
		}
		return
	}
	for i := 0; i < n; i++ {
		r := rand.New(rand.NewSource(seed*1000003 + int64(i)))
		var cmds []database.Command
		var q string
		var opts eOpts
		harvested := false
		if r.Intn(7) == 0 {
			cmds, q, opts = eScenario(r)
		} else if r.Intn(5) == 0 {
			// a query made of the phrases one decision of the NLP code tests for; enhancement on, nothing filtered or cut
			harvested = true
			for k, m := 0, r.Intn(6); k < m; k++ {
				cmds = append(cmds, eGenCommand(r))
			}
			q = harvestedQuery(r, i)
			opts = eOpts{NLP: true, Fuzzy: r.Intn(3) == 0, AllPlatforms: true, Limit: 60}
		} else {
			cmds = eGenDB(r)
			q = eGenQuery(r, cmds)
			opts = eGenOpts(r, len(cmds), cmds)
		}
		eBoostFromQuery(r, q, &opts)
		rq := recase(r, q)
		if (harvested || r.Intn(4) == 0) && len(cmds) < 30 {
			// make every expansion term of the query (and of its re-cased spelling) observable: one entry per term,
			// so that two analyses which differ give two different answers
			seen := map[string]bool{}
			for _, qq := range []string{q, rq} {
				func() {
					defer func() { recover() }()
					for _, t := range nlp.NewQueryProcessor().ProcessQuery(qq).GetEnhancedKeywords() {
						if !seen[t] && len(seen) < 14 && t != "" {
							seen[t] = true
							cmds = append(cmds, database.Command{Command: t, Description: "entry for the term " + t})
						}
					}
				}()
			}
		}
		c := engCase{ID: i, Seed: seed, Query: ints(q), Opts: opts, Recased: ints(rq)}
		engRun(&c, cmds, dir)
		e.emit(c)
	}
}

func init() { runners["eng"] = runEng }
