// Command verifharness runs the real WTF code on generated inputs and prints one JSON
// object per case (inputs and observed outputs) for the Coq correspondence check.
package main

import (
	"bufio"
	"encoding/json"
	"flag"
	"fmt"
	"os"
)

type emitter struct {
	w *bufio.Writer
}

func (e *emitter) emit(v interface{}) {
	b, err := json.Marshal(v)
	if err != nil {
		fmt.Fprintln(os.Stderr, "marshal:", err)
		os.Exit(2)
	}
	e.w.Write(b)
	e.w.WriteByte('\n')
}

type runner func(seed int64, n int, replay string, e *emitter)

var runners = map[string]runner{}

func main() {
	if len(os.Args) < 2 {
		fmt.Fprintln(os.Stderr, "usage: verifharness <prop> [-seed S] [-n N] [-replay file] [-out file]")
		os.Exit(2)
	}
	prop := os.Args[1]
	fs := flag.NewFlagSet(prop, flag.ExitOnError)
	seed := fs.Int64("seed", 1, "PRNG seed")
	n := fs.Int("n", 100, "number of cases")
	replay := fs.String("replay", "", "file with one JSON input per line to re-run instead of generating")
	out := fs.String("out", "", "output file (default stdout)")
	fs.Parse(os.Args[2:])
	r, ok := runners[prop]
	if !ok {
		fmt.Fprintln(os.Stderr, "unknown property", prop)
		os.Exit(2)
	}
	f := os.Stdout
	if *out != "" {
		var err error
		f, err = os.Create(*out)
		if err != nil {
			fmt.Fprintln(os.Stderr, err)
			os.Exit(2)
		}
		defer f.Close()
	}
	e := &emitter{w: bufio.NewWriterSize(f, 1<<20)}
	r(*seed, *n, *replay, e)
	e.w.Flush()
}

// readReplay reads JSON lines into a slice of raw messages.
func readReplay(path string) []json.RawMessage {
	f, err := os.Open(path)
	if err != nil {
		fmt.Fprintln(os.Stderr, err)
		os.Exit(2)
	}
	defer f.Close()
	var out []json.RawMessage
	sc := bufio.NewScanner(f)
	sc.Buffer(make([]byte, 1<<20), 1<<28)
	for sc.Scan() {
		if len(sc.Bytes()) == 0 {
			continue
		}
		out = append(out, append(json.RawMessage(nil), sc.Bytes()...))
	}
	return out
}
