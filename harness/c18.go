package main

import (
	"encoding/json"
	"fmt"
	"github.com/Vedant9500/WTF/internal/database"
	"math/rand"
	"sort"
	"sync"
	"time"
	"unsafe"

	"github.com/Vedant9500/WTF/internal/metrics"
)

type c18Tag struct {
	K []int `json:"k"`
	V []int `json:"v"`
}

type c18Lookup struct {
	Name  []int    `json:"name"`
	Tags  []c18Tag `json:"tags"` // in the order a range over the map produced when the key was built (sorted here: the order is not observable)
	Class int      `json:"class"`
	Amt   int64    `json:"amt"` // for counter ops: 0 = Inc, else Add(amt)
	Val   int64    `json:"val"` // observed final value
}

type c18Case struct {
	ID      int         `json:"id"`
	Kind    string      `json:"kind"` // id count hist mon
	Conc    bool        `json:"conc"`
	Lookups []c18Lookup `json:"lookups,omitempty"`
	Finals  []c18Lookup `json:"finals,omitempty"`
	Buckets []string    `json:"buckets,omitempty"`
	Vals    []string    `json:"vals,omitempty"`
	Count   int64       `json:"count"`
	Sum     string      `json:"sum"`
	Counts  []int64     `json:"counts,omitempty"`
	Pcts    [][2]string `json:"pcts,omitempty"`
	Exp     [][2]string `json:"exp,omitempty"` // (p, value) as exported by the collector for a histogram fed the same observations
	ExpCS   [2]string   `json:"exp_cs"`        // exported count and sum
	MOps    []c18MOp    `json:"mops,omitempty"`
	Totals  []c18Tot    `json:"totals,omitempty"`
}

type c18MOp struct {
	Search bool  `json:"search"`
	Hit    bool  `json:"hit"`
	Op     []int `json:"op"`
	Ok     bool  `json:"ok"`
}

type c18Tot struct {
	Name   []int `json:"name"`
	Total  int64 `json:"total"`
	Series int64 `json:"series"`
}

var c18Names = []string{"requests_total", "a", "a:b=c", "x=y", "", "lat"}
var c18TagKeys = []string{"method", "a", "b", "c", "a:b", "k=v", "", "z"}
var c18TagVals = []string{"GET", "1", "2", "1:b=2", "", ":", "=", "true", "x\"y"}

type c18Ident struct {
	name string
	tags map[string]string
}

func c18GenIdent(r *rand.Rand) c18Ident {
	id := c18Ident{name: c18Names[r.Intn(len(c18Names))], tags: map[string]string{}}
	n := []int{0, 1, 2, 2, 3, 3, 4}[r.Intn(7)]
	for i := 0; i < n; i++ {
		id.tags[c18TagKeys[r.Intn(len(c18TagKeys))]] = c18TagVals[r.Intn(len(c18TagVals))]
	}
	return id
}

// fresh copy of the tag map with a shuffled insertion order, so the runtime re-randomises iteration
func (id c18Ident) freshTags(r *rand.Rand) map[string]string {
	if len(id.tags) == 0 {
		if r.Intn(2) == 0 {
			return nil
		}
		return map[string]string{}
	}
	keys := make([]string, 0, len(id.tags))
	for k := range id.tags {
		keys = append(keys, k)
	}
	sort.Strings(keys)
	r.Shuffle(len(keys), func(i, j int) { keys[i], keys[j] = keys[j], keys[i] })
	m := make(map[string]string, len(keys))
	for _, k := range keys {
		m[k] = id.tags[k]
	}
	return m
}

func (id c18Ident) lookup() c18Lookup {
	l := c18Lookup{Name: ints(id.name), Tags: []c18Tag{}}
	keys := make([]string, 0, len(id.tags))
	for k := range id.tags {
		keys = append(keys, k)
	}
	sort.Strings(keys)
	// emit in reverse-sorted order: the model must not depend on the order it is given
	for i := len(keys) - 1; i >= 0; i-- {
		l.Tags = append(l.Tags, c18Tag{K: ints(keys[i]), V: ints(id.tags[keys[i]])})
	}
	return l
}

func c18Idents(r *rand.Rand) []c18Ident {
	n := 2 + r.Intn(6)
	out := make([]c18Ident, 0, n)
	for i := 0; i < n; i++ {
		out = append(out, c18GenIdent(r))
	}
	// planted collision candidates for a non-injective key
	if r.Intn(2) == 0 {
		out = append(out, c18Ident{name: "a", tags: map[string]string{"a": "1:b=2"}}, c18Ident{name: "a", tags: map[string]string{"a": "1", "b": "2"}})
	}
	if r.Intn(3) == 0 {
		out = append(out, c18Ident{name: "a:b=c", tags: map[string]string{}}, c18Ident{name: "a", tags: map[string]string{"b": "c"}})
	}
	return out
}

func c18GenId(r *rand.Rand, id int) c18Case {
	c := c18Case{ID: id, Kind: "id"}
	col := metrics.NewCollector()
	ids := c18Idents(r)
	classes := map[uintptr]int{}
	for rep := 0; rep < 40; rep++ {
		for _, x := range ids {
			p := uintptr(unsafe.Pointer(col.Counter(x.name, x.freshTags(r))))
			if _, ok := classes[p]; !ok {
				classes[p] = len(classes)
			}
			if rep%8 == 0 || classes[p] >= len(ids) {
				l := x.lookup()
				l.Class = classes[p]
				c.Lookups = append(c.Lookups, l)
			}
		}
	}
	return c
}

func c18GenCount(r *rand.Rand, id int, conc bool) c18Case {
	c := c18Case{ID: id, Kind: "count", Conc: conc}
	col := metrics.NewCollector()
	ids := c18Idents(r)
	n := 20 + r.Intn(200)
	type op struct {
		id  int
		amt int64
	}
	ops := make([]op, n)
	for i := range ops {
		ops[i] = op{id: r.Intn(len(ids))}
		if r.Intn(5) == 0 {
			ops[i].amt = int64(r.Intn(7)) - 1
		}
		l := ids[ops[i].id].lookup()
		l.Amt = ops[i].amt
		c.Lookups = append(c.Lookups, l)
	}
	apply := func(o op, rr *rand.Rand) {
		ctr := col.Counter(ids[o.id].name, ids[o.id].freshTags(rr))
		if o.amt == 0 {
			ctr.Inc()
		} else {
			ctr.Add(o.amt)
		}
	}
	if conc {
		var wg sync.WaitGroup
		for g := 0; g < 8; g++ {
			wg.Add(1)
			go func(g int) {
				defer wg.Done()
				rr := rand.New(rand.NewSource(int64(id*100 + g)))
				for i := g; i < n; i += 8 {
					apply(ops[i], rr)
				}
			}(g)
		}
		wg.Wait()
		// first use: in every round a NEW identity is incremented once by each of 8 goroutines released together,
		// so its registration races with its first increments; every increment must land in the one series
		for round := 0; round < 120; round++ {
			fu := c18Ident{name: fmt.Sprintf("first_use_%d", round), tags: map[string]string{"kind": "x", "round": fmt.Sprint(round % 3)}}
			start := make(chan struct{})
			var wg2 sync.WaitGroup
			for g := 0; g < 8; g++ {
				wg2.Add(1)
				go func(g int) {
					defer wg2.Done()
					tags := fu.freshTags(rand.New(rand.NewSource(int64(round*8 + g))))
					<-start
					col.Counter(fu.name, tags).Inc()
				}(g)
				c.Lookups = append(c.Lookups, fu.lookup())
			}
			close(start)
			wg2.Wait()
			ids = append(ids, fu)
		}
	} else {
		for _, o := range ops {
			apply(o, r)
		}
	}
	// what a reader of each identity sees, summed over 10 look-ups / 10 (all must agree): take one
	for _, x := range ids {
		l := x.lookup()
		l.Val = col.Counter(x.name, x.freshTags(r)).Value()
		c.Finals = append(c.Finals, l)
	}
	return c
}

func hexf(f float64) string { return fmt.Sprintf("%x", f) }

func c18GenHist(r *rand.Rand, id int) c18Case {
	c := c18Case{ID: id, Kind: "hist"}
	var bs []float64
	if r.Intn(3) > 0 {
		bs = metrics.VerifDefaultBuckets()
	} else {
		n := 1 + r.Intn(5)
		x := 0.0
		for i := 0; i < n; i++ {
			x += []float64{0.5, 1, 2.25, 10}[r.Intn(4)]
			bs = append(bs, x)
		}
	}
	h := metrics.NewHistogramWithBuckets("h", append([]float64(nil), bs...), nil)
	for _, b := range bs {
		c.Buckets = append(c.Buckets, hexf(b))
	}
	n := r.Intn(60)
	var raw []float64
	pool := []float64{0, 0.1, 0.05, 0.5, 0.7, 1, 2.5, 3.3, 10, 99.9, 100, 1e4, 1e4 + 1, 5e6, 0.30000000000000004, 1e-9}
	for i := 0; i < n; i++ {
		v := pool[r.Intn(len(pool))]
		if r.Intn(4) == 0 {
			v = r.Float64() * 300
		}
		h.Observe(v)
		raw = append(raw, v)
		c.Vals = append(c.Vals, hexf(v))
	}
	c.Count = h.Count()
	c.Sum = hexf(h.Sum())
	c.Counts = h.VerifCounts()
	ps := []float64{0, 1, 10, 25, 33.3, 50, 75, 90, 95, 99, 99.9, 100}
	for _, p := range ps {
		c.Pcts = append(c.Pcts, [2]string{hexf(p), hexf(h.Percentile(p))})
	}
	if len(bs) == len(metrics.VerifDefaultBuckets()) {
		// the same observations in a histogram registered with a collector: what the collector exports for it
		col := metrics.NewCollector()
		h2 := col.Histogram("lat", nil)
		for _, v := range raw {
			h2.Observe(v)
		}
		// a timer asked for under the same name and tags is another metric: the histogram keeps its identity and its observations
		tm := col.Timer("lat", nil)
		_ = tm
		if col.Histogram("lat", nil) != h2 {
			c.Exp = append(c.Exp, [2]string{hexf(50), hexf(-1)}) // reported as an exported percentile that cannot be right
		}
		for _, m := range col.GetAllMetrics() {
			switch m.Name {
			case "lat_p50":
				c.Exp = append(c.Exp, [2]string{hexf(50), hexf(m.Value)})
			case "lat_p90":
				c.Exp = append(c.Exp, [2]string{hexf(90), hexf(m.Value)})
			case "lat_p95":
				c.Exp = append(c.Exp, [2]string{hexf(95), hexf(m.Value)})
			case "lat_p99":
				c.Exp = append(c.Exp, [2]string{hexf(99), hexf(m.Value)})
			case "lat_count":
				c.ExpCS[0] = hexf(m.Value)
			case "lat_sum":
				c.ExpCS[1] = hexf(m.Value)
			}
		}
	}
	return c
}

// c18GenMonReal: the operations are real ones - searches through the monitoring wrapper's two entry points (queries that
// match, queries of unknown words, empty and stop-word-only queries, repeats) and monitored reloads; every one of them is one
// recorded operation, whatever it found.
func c18GenMonReal(r *rand.Rand, id int) c18Case {
	c := c18Case{ID: id, Kind: "mon"}
	cmds := eGenDB(r)
	for len(cmds) < 6 {
		cmds = append(cmds, eGenCommand(r))
	}
	mdb := database.NewMonitoredDatabase(database.VerifFresh(cmds))
	pool := []string{eGenQuery(r, cmds), eGenQuery(r, cmds), eGenQuery(r, cmds), "zzqx unknownword", "", "the of", "  ", "qqqqzz"}
	seen := map[string]bool{}
	n := 5 + r.Intn(40)
	for i := 0; i < n; i++ {
		if r.Intn(8) == 0 {
			mdb.LoadDatabaseWithMonitoring(append([]database.Command(nil), cmds...))
			seen = map[string]bool{}
			c.MOps = append(c.MOps, c18MOp{Op: ints("load"), Ok: true})
			continue
		}
		q := pool[r.Intn(len(pool))]
		entry := r.Intn(2)
		kb := []byte(q) // the cache files a query under its ASCII-lower-cased bytes, exactly
		for x, ch := range kb {
			if ch >= 'A' && ch <= 'Z' {
				kb[x] = ch + 32
			}
		}
		key := fmt.Sprint(entry) + "|" + string(kb)
		var res []database.SearchResult
		if entry == 0 {
			res = mdb.SearchWithMonitoring(q, 5)
		} else {
			res = mdb.SearchWithOptionsAndMonitoring(q, database.SearchOptions{Limit: 5, AllPlatforms: true})
		}
		c.MOps = append(c.MOps, c18MOp{Search: true, Hit: seen[key]})
		if len(res) > 0 {
			seen[key] = true
		}
	}
	tot := map[string]*c18Tot{}
	for _, m := range mdb.GetPerformanceReport().ApplicationMetrics {
		if m.Type != metrics.MetricTypeCounter {
			continue
		}
		t := tot[m.Name]
		if t == nil {
			t = &c18Tot{Name: ints(m.Name)}
			tot[m.Name] = t
		}
		t.Total += int64(m.Value)
		t.Series++
	}
	names := make([]string, 0, len(tot))
	for k := range tot {
		names = append(names, k)
	}
	sort.Strings(names)
	for _, k := range names {
		c.Totals = append(c.Totals, *tot[k])
	}
	return c
}

func c18GenMon(r *rand.Rand, id int, conc bool) c18Case {
	if id%4 == 2 && !conc {
		return c18GenMonReal(r, id)
	}
	c := c18Case{ID: id, Kind: "mon", Conc: conc}
	pm := metrics.NewPerformanceMonitor()
	opsNames := []string{"load", "search", "save", "a:b", ""}
	n := 5 + r.Intn(120)
	for i := 0; i < n; i++ {
		if r.Intn(2) == 0 {
			c.MOps = append(c.MOps, c18MOp{Search: true, Hit: r.Intn(3) == 0})
		} else {
			c.MOps = append(c.MOps, c18MOp{Op: ints(opsNames[r.Intn(len(opsNames))]), Ok: r.Intn(4) != 0})
		}
	}
	apply := func(o c18MOp) {
		if o.Search {
			pm.RecordSearchOperation(3*time.Millisecond, 4, o.Hit, 12)
		} else {
			pm.RecordDatabaseOperation(fromInts(o.Op), time.Millisecond, o.Ok)
		}
	}
	if conc {
		var wg sync.WaitGroup
		for g := 0; g < 8; g++ {
			wg.Add(1)
			go func(g int) {
				defer wg.Done()
				for i := g; i < n; i += 8 {
					apply(c.MOps[i])
				}
			}(g)
		}
		wg.Wait()
	} else {
		for _, o := range c.MOps {
			apply(o)
		}
	}
	tot := map[string]*c18Tot{}
	for _, m := range pm.VerifCollector().GetAllMetrics() {
		if m.Type != metrics.MetricTypeCounter {
			continue
		}
		t := tot[m.Name]
		if t == nil {
			t = &c18Tot{Name: ints(m.Name)}
			tot[m.Name] = t
		}
		t.Total += int64(m.Value)
		t.Series++
	}
	names := make([]string, 0, len(tot))
	for k := range tot {
		names = append(names, k)
	}
	sort.Strings(names)
	for _, k := range names {
		c.Totals = append(c.Totals, *tot[k])
	}
	return c
}

func runC18(seed int64, n int, replay string, e *emitter) {
	if replay != "" {
		// cases are regenerated from (seed-independent) recorded kind+id: identity and counting
		// cases do not depend on stored observations, so a replay re-generates by id with the seed stored in the case
		for _, raw := range readReplay(replay) {
			var c struct {
				ID   int    `json:"id"`
				Kind string `json:"kind"`
				Conc bool   `json:"conc"`
				Seed int64  `json:"seed"`
			}
			if json.Unmarshal(raw, &c) != nil {
				continue
			}
			r := rand.New(rand.NewSource(c.Seed*1000003 + int64(c.ID)))
			e.emit(c18One(r, c.ID, c.Kind, c.Conc, c.Seed))
		}
		return
	}
	for i := 0; i < n; i++ {
		r := rand.New(rand.NewSource(seed*1000003 + int64(i)))
		kind := []string{"id", "id", "count", "count", "hist", "hist", "mon", "count", "mon", "id"}[i%10]
		conc := i%10 >= 7
		e.emit(c18One(r, i, kind, conc, seed))
	}
}

type c18Out struct {
	c18Case
	Seed int64 `json:"seed"`
}

func c18One(r *rand.Rand, id int, kind string, conc bool, seed int64) c18Out {
	var c c18Case
	switch kind {
	case "id":
		c = c18GenId(r, id)
	case "count":
		c = c18GenCount(r, id, conc)
	case "hist":
		c = c18GenHist(r, id)
	default:
		c = c18GenMon(r, id, conc)
	}
	return c18Out{c, seed}
}

func init() { runners["c18"] = runC18 }
