package main

import (
	"encoding/json"
	"math/rand"
	"os"
	"strings"

	"github.com/Vedant9500/WTF/internal/database"
)

// C05: the result cache is invisible. Histories through CachedDatabase / MonitoredDatabase.

type c05Step struct {
	Op     string `json:"op"` // search monsearch invalidate enable disable cleanup update stats
	Query  []int  `json:"q,omitempty"`
	Opts   *eOpts `json:"opts,omitempty"`
	DBSel  int    `json:"db_sel"` // for update: which of the case's databases
	Got    []eRes `json:"got"`
	Fresh  []eRes `json:"fresh"`
	Hits   int64  `json:"hits"`
	Misses int64  `json:"misses"`
	Size   int    `json:"size"`
}

type c05Case struct {
	ID    int       `json:"id"`
	Seed  int64     `json:"seed"`
	DBs   [][]eCmd  `json:"dbs"`
	Steps []c05Step `json:"steps"`
	Note  string    `json:"note,omitempty"`
}

func c05VaryOpts(r *rand.Rand, base eOpts, n int, cmds []database.Command) eOpts {
	o := base
	switch r.Intn(14) {
	case 0:
		o.Limit = []int{1, 2, 3, 5, 10, n + 1}[r.Intn(6)]
	case 1:
		o.NLP = !o.NLP
	case 2:
		o.Fuzzy = !o.Fuzzy
	case 3:
		o.Threshold = []int{0, -5, -30, -100}[r.Intn(4)]
	case 4:
		o.PipelineOnly = !o.PipelineOnly
	case 5:
		o.PipelineBoost = []string{"", "1.5", "2"}[r.Intn(3)]
	case 6:
		o.TermsCap = []int{0, 1, 2, 3, 12}[r.Intn(5)]
	case 7:
		o.AllPlatforms = !o.AllPlatforms
	case 8:
		o.Platforms = intsList([][]string{nil, {"windows"}, {"macos"}, {"linux"}, {"windows", "macos"}}[r.Intn(5)])
	case 9:
		o.NoCross = !o.NoCross
	case 10:
		if len(o.Boosts) > 0 {
			o.Boosts = nil
		} else {
			o.Boosts = []eBoost{{Word: ints(eWord(r)), F: "2"}, {Word: ints(eWord(r)), F: "1.5"}}
		}
	case 11: // unset values beside the defaults they might be folded onto
		o.Limit = []int{0, 5, 10, -1}[r.Intn(4)]
	case 12:
		o.TermsCap = []int{0, 10, -1, 8}[r.Intn(4)]
	}
	return o
}

func c05Gen(r *rand.Rand, id int) ([][]database.Command, []c05Step) {
	dbs := [][]database.Command{eGenDB(r), eGenDB(r), eGenDB(r)}
	if r.Intn(6) == 0 { // a big database in which one word matches more than 50 entries (long result lists)
		w := ePlain[r.Intn(10)]
		for len(dbs[0]) < 60+r.Intn(20) {
			c := eGenCommand(r)
			c.Description = w + " " + c.Description
			dbs[0] = append(dbs[0], c)
		}
	}
	for len(dbs[0]) < 3 {
		dbs[0] = append(dbs[0], eGenCommand(r))
	}
	// a small query pool: repeats, case variants, padded variants
	pool := []string{}
	for i := 0; i < 4; i++ {
		q := eGenQuery(r, dbs[r.Intn(3)])
		pool = append(pool, q, strings.ToUpper(q), recase(r, q))
		if r.Intn(2) == 0 {
			pool = append(pool, " "+q, q+" ")
		}
	}
	if len(dbs[0]) >= 60 {
		w := strings.Fields(dbs[0][len(dbs[0])-1].Description)[0]
		pool = append(pool, w, w, strings.ToUpper(w))
	}
	base := eGenOpts(r, len(dbs[0]), dbs[0])
	if len(dbs[0]) >= 60 {
		base.Limit = len(dbs[0]) + 1
		base.AllPlatforms = true
		base.PipelineOnly = false
	}
	optPool := []eOpts{base, base}
	for i := 0; i < 4; i++ {
		optPool = append(optPool, c05VaryOpts(r, optPool[r.Intn(len(optPool))], len(dbs[0]), dbs[0]))
	}
	var steps []c05Step
	if len(dbs[0]) >= 60 {
		// the same broad query asked with a shrinking limit, enhancement on: each answer must be the fresh one for ITS limit
		w := strings.Fields(dbs[0][len(dbs[0])-1].Description)[0]
		for _, l := range []int{len(dbs[0]) + 1, 10, 3, 1, 2} {
			o := base
			o.NLP, o.Limit = true, l
			steps = append(steps, c05Step{Op: []string{"search", "monsearch"}[r.Intn(2)], Query: ints(w), Opts: &o})
		}
	}
	if id%4 == 2 {
		// the same words in two orders, more of them than the term cap lets through, plain index search: the two requests
		// keep different words (the first four are protected), so they are different requests and must not share an entry
		var ws []string
		seen := map[string]bool{}
		for _, c := range dbs[0] {
			for _, w := range strings.Fields(strings.ToLower(c.Description + " " + c.Command)) {
				if len(w) >= 3 && !seen[w] && strings.Trim(w, "abcdefghijklmnopqrstuvwxyz") == "" && len(ws) < 6 {
					seen[w] = true
					ws = append(ws, w)
				}
			}
		}
		if len(ws) >= 5 {
			rev := make([]string, len(ws))
			for i, w := range ws {
				rev[len(ws)-1-i] = w
			}
			o := eOpts{AllPlatforms: true, Limit: len(dbs[0]) + 1, TermsCap: []int{3, 2, 4}[id/4%3]}
			for _, q := range []string{strings.Join(ws, " "), strings.Join(rev, " "), strings.Join(ws, " "), strings.ToUpper(strings.Join(rev, " "))} {
				oo := o
				steps = append(steps, c05Step{Op: []string{"search", "monsearch"}[len(steps)%2], Query: ints(q), Opts: &oo})
			}
		}
	}
	if id%4 == 3 {
		// boost tables over the same words with the values exchanged, or the same value at two levels on both words: the
		// words are in the query, so these are requests with different answers and must not share an entry
		var ws []string
		seen := map[string]bool{}
		for _, c := range dbs[0] {
			for _, w := range strings.Fields(strings.ToLower(c.Description)) {
				if len(w) >= 3 && !seen[w] && strings.Trim(w, "abcdefghijklmnopqrstuvwxyz") == "" && len(ws) < 2 {
					seen[w] = true
					ws = append(ws, w)
				}
			}
		}
		if len(ws) == 2 {
			tables := [][2]string{{"3", "1.5"}, {"1.5", "3"}, {"2", "2"}, {"4", "4"}, {"3", "1.5"}}
			for _, t := range tables {
				o := eOpts{AllPlatforms: true, Limit: len(dbs[0]) + 1,
					Boosts: []eBoost{{Word: ints(ws[0]), F: t[0]}, {Word: ints(ws[1]), F: t[1]}}}
				steps = append(steps, c05Step{Op: []string{"search", "monsearch"}[len(steps)%2], Query: ints(ws[0] + " " + ws[1]), Opts: &o})
			}
		}
	}
	if id%50 == 9 && id < 300 {
		// a history longer than twice the cache's capacity (1000 entries): 2100 distinct requests, then every one of them again
		var ws []string
		seen := map[string]bool{}
		for _, c := range dbs[0] {
			for _, w := range strings.Fields(strings.ToLower(c.Description + " " + c.Command)) {
				if len(w) >= 3 && !seen[w] && strings.Trim(w, "abcdefghijklmnopqrstuvwxyz") == "" && len(ws) < 7 {
					seen[w] = true
					ws = append(ws, w)
				}
			}
		}
		if len(ws) >= 3 {
			for round := 0; round < 2; round++ {
				for i := 0; i < 2100; i++ {
					o := eOpts{AllPlatforms: true, Limit: 1 + (i/len(ws))%3, Threshold: -1 - i}
					steps = append(steps, c05Step{Op: "search", Query: ints(ws[i%len(ws)]), Opts: &o})
				}
			}
			return dbs, steps
		}
	}
	n := 3 + r.Intn(23)
	for i := 0; i < n; i++ {
		x := r.Intn(100)
		var s c05Step
		switch {
		case x < 55:
			s.Op = "search"
		case x < 68:
			s.Op = "monsearch"
		case x < 74:
			s.Op = "invalidate"
		case x < 79:
			s.Op = "disable"
		case x < 85:
			s.Op = "enable"
		case x < 89:
			s.Op = "cleanup"
		case x < 94:
			s.Op = "update"
			s.DBSel = r.Intn(3)
			if x >= 92 { // the monitoring layer's own way of replacing the database
				s.Op = "monload"
			}
		default:
			s.Op = "stats"
		}
		if s.Op == "search" || s.Op == "monsearch" {
			s.Query = ints(pool[r.Intn(len(pool))])
			o := optPool[r.Intn(len(optPool))]
			s.Opts = &o
		}
		steps = append(steps, s)
	}
	return dbs, steps
}

func c05Run(c *c05Case, dbs [][]database.Command, dir string) {
	loaded := make([]*database.Database, len(dbs))
	for i := range dbs {
		d, err := loadCommands(dir, "d.yml", dbs[i])
		if err != nil {
			c.Note = "load-error"
			return
		}
		loaded[i] = d
		c.DBs = append(c.DBs, dumpDB(d))
	}
	mdb := database.NewMonitoredDatabase(database.VerifFresh(loaded[0].Commands))
	// a second, unrelated cached database in the same process: what it caches is none of mdb's business
	other := database.NewCachedDatabase(database.VerifFresh(loaded[1].Commands))
	for i := range c.Steps {
		s := &c.Steps[i]
		switch s.Op {
		case "search", "monsearch":
			q := fromInts(s.Query)
			o := s.Opts.toGo()
			if i%3 == 0 {
				other.SearchWithOptionsAndCache(q, o)
			}
			var got []database.SearchResult
			if s.Op == "search" {
				got = mdb.SearchWithOptionsAndCache(q, o)
			} else {
				got = mdb.SearchWithOptionsAndMonitoring(q, o)
			}
			s.Got = c05Project(mdb.Database, got)
			s.Fresh = c05Project(mdb.Database, mdb.Database.SearchUniversal(q, o))
		case "invalidate":
			mdb.InvalidateCache()
		case "enable":
			mdb.EnableCache(true)
		case "disable":
			mdb.EnableCache(false)
		case "cleanup":
			mdb.CleanupExpiredCache()
		case "update":
			mdb.UpdateDatabase(append([]database.Command(nil), loaded[s.DBSel].Commands...))
		case "monload":
			mdb.LoadDatabaseWithMonitoring(append([]database.Command(nil), loaded[s.DBSel].Commands...))
		}
		st := mdb.GetCacheStats()["search"]
		s.Hits, s.Misses, s.Size = st.Hits, st.Misses, st.Size
	}
}

// c05Project identifies a result by the position of its command in the current list, or, when the
// pointer is not an entry of the current list (an answer that outlived a replacement), by -1.
func c05Project(db *database.Database, rs []database.SearchResult) []eRes {
	return projectResults(db, rs)
}

func runC05(seed int64, n int, replay string, e *emitter) {
	dir := mustTemp("verif-c05-")
	defer os.RemoveAll(dir)
	if replay != "" {
		for _, raw := range readReplay(replay) {
			var c c05Case
			if json.Unmarshal(raw, &c) != nil {
				continue
			}
			dbs := make([][]database.Command, len(c.DBs))
			for i := range c.DBs {
				dbs[i] = fromECmds(c.DBs[i])
			}
			out := c05Case{ID: c.ID, Seed: c.Seed, Steps: c.Steps}
			for i := range out.Steps {
				out.Steps[i].Got, out.Steps[i].Fresh = nil, nil
			}
			c05Run(&out, dbs, dir)
			e.emit(out)
		}
		return
	}
	for i := 0; i < n; i++ {
		r := rand.New(rand.NewSource(seed*1000003 + int64(i)))
		dbs, steps := c05Gen(r, i)
		c := c05Case{ID: i, Seed: seed, Steps: steps}
		c05Run(&c, dbs, dir)
		e.emit(c)
	}
}

func init() { runners["c05"] = runC05 }
