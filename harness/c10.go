package main

import (
	"bytes"
	"encoding/json"
	"fmt"
	"math/rand"
	"os"
	"path/filepath"
	"strings"
	"time"
	"unicode/utf16"
	"unicode/utf8"

	"github.com/Vedant9500/WTF/internal/database"
	apperrors "github.com/Vedant9500/WTF/internal/errors"
	"github.com/Vedant9500/WTF/internal/recovery"
)

// C10: no input crashes the engine: any database file, any query, any options.

type c10Call struct {
	Entry string `json:"entry"` // universal search legacy_pipeline legacy_options fuzzy nlp suggestions recovery cached
	Query []int  `json:"q"`
	Opts  eOpts  `json:"opts"`
	Panic string `json:"panic,omitempty"`
	Hang  bool   `json:"hang"`
	N     int    `json:"n"`
	MS    int64  `json:"ms"`
}

type c10Case struct {
	ID         int       `json:"id"`
	Seed       int64     `json:"seed"`
	FileKind   string    `json:"file_kind"` // missing entries shape damaged binary empty
	File       []int     `json:"file"`
	Load       string    `json:"load"` // ok notfound parse other panic hang
	LoadN      int       `json:"load_n"`
	WellFormed bool      `json:"well_formed"` // the generator knows the text is a YAML list of command entries
	Calls      []c10Call `json:"calls"`
}

var c10Queries = []string{"\x80", "a\xbfb", "list files\xbf", "compress \x80 directory", "\xe2\x82", "\xf0\x9f\x98", "", " ", "a", "list files", "\x00", "ab\x00cd", "\x00\x00", "\xff\xfe", "caf\xe9", strings.Repeat("a", 1000), strings.Repeat("compress ", 111),
	strings.Repeat("é", 500), "-", "??", "\n", "\t\t", "<script>", "$(rm -rf)", "İK", "ǅ", "á", "👍👍", "tar -x", "%s%n", "../../..", "\\", "\"", "'", "*", "[a", "(", "a|b", "x y z w v u t s r q p o n m"}

// words of the command lines of the last generated 'entries' file (queries are derived from them)
var c10Words []string

// a query that the matcher can fully match inside one word of the database: the part of a word before a NUL,
// a prefix, or a subsequence of it
func c10Derived(r *rand.Rand) string {
	if len(c10Words) == 0 {
		return "ls"
	}
	w := c10Words[r.Intn(len(c10Words))]
	if i := strings.IndexByte(w, 0); i > 0 && r.Intn(3) != 0 {
		w = w[:i]
	}
	switch r.Intn(3) {
	case 0:
		if len(w) > 1 {
			w = w[:1+r.Intn(len(w))]
		}
	case 1: // drop one inner character (typo by omission)
		if len(w) > 2 {
			k := 1 + r.Intn(len(w)-2)
			w = w[:k] + w[k+1:]
		}
	}
	return w
}

func c10Opts(r *rand.Rand) eOpts {
	o := eOpts{}
	o.Limit = []int{0, 1, 5, -1, -1 << 62, 1 << 31, 1 << 40, 1 << 62, 3074457345618258603}[r.Intn(9)]
	o.NLP = r.Intn(2) == 0
	o.Fuzzy = r.Intn(2) == 0
	o.Threshold = []int{0, -30, 1 << 62, -1 << 62}[r.Intn(4)]
	o.TermsCap = []int{0, 1, -1, 1 << 62, -1 << 62}[r.Intn(5)]
	o.PipelineOnly = r.Intn(4) == 0
	o.PipelineBoost = []string{"", "2", "-1", "1e308", "NaN", "+Inf", "-Inf"}[r.Intn(7)]
	if r.Intn(3) == 0 {
		o.Boosts = []eBoost{{Word: ints(eWord(r)), F: []string{"2", "1e308", "NaN", "-1", "+Inf", "0"}[r.Intn(6)]}}
	}
	o.AllPlatforms = r.Intn(4) == 0
	if r.Intn(4) == 0 {
		o.Platforms = intsList([]string{"", "\x00", "linux", strings.Repeat("w", 300)}[:1+r.Intn(4)])
	}
	o.NoCross = r.Intn(4) == 0
	return o
}

func c10File(r *rand.Rand) (kind string, data []byte, wellFormed bool) {
	switch x := r.Intn(100); {
	case x < 5:
		return "missing", nil, false
	case x < 10:
		return "empty", []byte(""), true
	case x < 50: // entries (well-formed list), with hostile text
		cmds := eGenDB(r)
		for i := range cmds {
			switch r.Intn(12) {
			case 0:
				cmds[i].Command = "nul\x00inside " + cmds[i].Command
			case 1:
				cmds[i].Description = "d\x00"
			case 2:
				cmds[i].Command = strings.Repeat("x", 5000)
			case 3:
				cmds[i].Keywords = append(cmds[i].Keywords, "", "\x00", strings.Repeat("k", 3000))
			case 4:
				cmds[i].Command = ""
				cmds[i].Description = ""
			case 7: // no command text, the rest intact (matched through its description / keywords)
				cmds[i].Command = []string{"", " ", "\t"}[r.Intn(3)]
			case 5: // NUL at the end of / inside the first word
				w := strings.Fields(cmds[i].Command + " x")
				w[0] = w[0] + "\x00"
				cmds[i].Command = strings.Join(w, " ")
			case 6:
				if len(cmds[i].Command) > 2 {
					cmds[i].Command = cmds[i].Command[:2] + "\x00" + cmds[i].Command[2:]
				}
			}
		}
		c10Words = nil
		for i := range cmds {
			for _, w := range strings.Fields(cmds[i].Command + " " + cmds[i].Description) {
				c10Words = append(c10Words, w)
			}
		}
		data, err := marshalCommands(cmds)
		if err != nil {
			return "entries", []byte("[]"), true
		}
		if len(cmds)%5 == 3 && utf8.Valid(data) && !bytes.ContainsRune(data, 0) {
			// the same well-formed list in the other encodings a YAML stream may use: UTF-16 with a byte order mark
			be := len(cmds)%2 == 0
			out := []byte{0xff, 0xfe}
			if be {
				out = []byte{0xfe, 0xff}
			}
			for _, u := range utf16.Encode([]rune(string(data))) {
				if be {
					out = append(out, byte(u>>8), byte(u))
				} else {
					out = append(out, byte(u), byte(u>>8))
				}
			}
			return "entries", out, true
		}
		return "entries", data, true
	case x < 65: // valid YAML of another shape
		shapes := []string{"a: b\n", "- 1\n- 2\n", "- [a, b]\n", "- command: [x, y]\n", "- command: {a: b}\n", "hello\n", "42\n", "- command: x\n  keywords: notalist\n",
			"- command: x\n  pipeline: maybe\n", "- command: x\n  platform: 7\n", "- command: 5\n  description: true\n", "null\n", "---\n...\n", "- null\n", "- command: x\n  unknown_field: 1\n",
			"&a [*a]\n", "- &x {command: a}\n- *x\n", "- command: !!binary aGk=\n",
			// undecodable content whose own text looks like an operating-system error message
			"- command: x\n  keywords: no such file or directory\n", "- command: x\n  keywords: permission denied\n", "!<no%20such%20file%20or%20directory> x\n",
			"- command: x\n  pipeline: permission denied\n", "- command: [no such file or directory]\n",
			// a wrong-typed value beside entries that decode
			"- command: ok\n  description: fine\n- 42\n", "- command: ok\n- command: {a: b}\n", "- command: ok\n  keywords: [a]\n  pipeline: [1, 2]\n- command: second\n",
			"- command: ok\n- command: two\n  keywords: {a: b}\n- command: three\n"}
		s := shapes[r.Intn(len(shapes))]
		wf := s == "- command: x\n  unknown_field: 1\n" || s == "- command: 5\n  description: true\n" || s == "null\n" || s == "---\n...\n" || s == "- null\n" || s == "- &x {command: a}\n- *x\n" || s == "- command: !!binary aGk=\n"
		return "shape", []byte(s), wf
	case x < 85: // damaged YAML: mutate a well-formed file
		cmds := eGenDB(r)
		data, _ := marshalCommands(cmds)
		b := append([]byte(nil), data...)
		for k := 0; k < 1+r.Intn(6) && len(b) > 0; k++ {
			i := r.Intn(len(b))
			switch r.Intn(4) {
			case 0:
				b[i] = byte(r.Intn(256))
			case 1:
				b = append(b[:i], b[i+1:]...)
			case 2:
				b = append(b[:i], append([]byte{"\t:{[&*!|>%@`\"'"[r.Intn(14)]}, b[i:]...)...)
			case 3:
				b = b[:i]
			}
		}
		return "damaged", b, false
	default:
		n := r.Intn(400)
		b := make([]byte, n)
		for i := range b {
			b[i] = byte(r.Intn(256))
		}
		return "binary", b, false
	}
}

func loadKind(err error) string {
	if err == nil {
		return "ok"
	}
	if ae, ok := err.(*apperrors.AppError); ok {
		switch {
		case strings.HasPrefix(ae.Message, "database file not found"):
			return "notfound"
		case strings.HasPrefix(ae.Message, "failed to parse database"):
			return "parse"
		case strings.HasPrefix(ae.Message, "permission denied"):
			return "permission"
		}
	}
	return "other"
}

func guarded(f func() int) (n int, pan string, hang bool, ms int64) {
	done := make(chan struct{})
	t0 := time.Now()
	go func() {
		defer close(done)
		defer func() {
			if rec := recover(); rec != nil {
				pan = fmt.Sprint(rec)
				if len(pan) > 160 {
					pan = pan[:160]
				}
			}
		}()
		n = f()
	}()
	select {
	case <-done:
	case <-time.After(10 * time.Second):
		hang = true
	}
	return n, pan, hang, time.Since(t0).Milliseconds()
}

func c10Run(c *c10Case, dir string) {
	// the name varies too: a path is part of every OS error message
	name := []string{"f%d.yml", "f%d.yaml", "unmarshal%d.yml", "yaml: f%d.yml", "permission denied %d.yml", "f%d"}[c.ID%6]
	p := filepath.Join(dir, fmt.Sprintf(name, c.ID))
	if c.FileKind != "missing" {
		os.WriteFile(p, []byte(fromInts(c.File)), 0o644)
		defer os.Remove(p)
	}
	var db *database.Database
	_, pan, hang, _ := guarded(func() int {
		d, err := database.LoadDatabase(p)
		c.Load = loadKind(err)
		if err == nil {
			db = d
			c.LoadN = len(d.Commands)
		}
		return 0
	})
	if pan != "" {
		c.Load = "panic: " + pan
	}
	if hang {
		c.Load = "hang"
	}
	if db == nil {
		c.Calls = nil
		return
	}
	for i := range c.Calls {
		call := &c.Calls[i]
		q := fromInts(call.Query)
		o := call.Opts.toGo()
		call.N, call.Panic, call.Hang, call.MS = guarded(func() int {
			switch call.Entry {
			case "universal":
				return len(db.SearchUniversal(q, o))
			case "search":
				return len(db.Search(q, o.Limit))
			case "legacy_pipeline":
				return len(db.SearchWithPipelineOptions(q, o))
			case "legacy_options":
				return len(db.SearchWithOptions(q, o))
			case "fuzzy":
				return len(db.SearchWithFuzzy(q, o))
			case "nlp":
				return len(db.SearchWithNLP(q, o))
			case "suggestions":
				return len(db.GetSuggestions(q, o.Limit))
			case "cached":
				cdb := database.NewCachedDatabase(db)
				cdb.SearchWithOptionsAndCache(q, o)
				return len(cdb.SearchWithOptionsAndCache(q, o))
			default:
				old := os.Stdout
				null, _ := os.OpenFile(os.DevNull, os.O_WRONLY, 0)
				os.Stdout = null
				res, _ := recovery.NewSearchRecovery().RecoverFromSearchFailure(q, nil, db)
				os.Stdout = old
				null.Close()
				return len(res)
			}
		})
	}
}

func runC10(seed int64, n int, replay string, e *emitter) {
	dir := mustTemp("verif-c10-")
	defer os.RemoveAll(dir)
	if replay != "" {
		for _, raw := range readReplay(replay) {
			var c c10Case
			if json.Unmarshal(raw, &c) != nil {
				continue
			}
			for i := range c.Calls {
				c.Calls[i].Panic, c.Calls[i].Hang, c.Calls[i].N = "", false, 0
			}
			c10Run(&c, dir)
			e.emit(c)
		}
		return
	}
	entries := []string{"universal", "universal", "universal", "search", "legacy_pipeline", "legacy_options", "fuzzy", "nlp", "suggestions", "recovery", "cached"}
	for i := 0; i < n; i++ {
		r := rand.New(rand.NewSource(seed*1000003 + int64(i)))
		c := c10Case{ID: i, Seed: seed}
		var data []byte
		c.FileKind, data, c.WellFormed = c10File(r)
		c.File = ints(string(data))
		for k := 0; k < 6; k++ {
			q := c10Queries[r.Intn(len(c10Queries))]
			if r.Intn(3) == 0 {
				q = eGenQuery(r, nil)
			}
			if c.FileKind == "entries" && r.Intn(3) == 0 {
				q = c10Derived(r)
			}
			c.Calls = append(c.Calls, c10Call{Entry: entries[r.Intn(len(entries))], Query: ints(q), Opts: c10Opts(r)})
		}
		c10Run(&c, dir)
		e.emit(c)
	}
}

func init() { runners["c10"] = runC10 }
