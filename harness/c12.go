package main

import (
	"encoding/json"
	"math/rand"
	"sort"
	"sync"
	"time"

	"github.com/Vedant9500/WTF/internal/cache"
)

// C12: histories of LRUCache operations against the real implementation.

type c12Op struct {
	Op    string `json:"op"` // get put delete clear size capacity stats keys cleanup
	Key   int    `json:"k"`
	Val   int    `json:"v"`
	Sleep int64  `json:"sleep_ns"` // sleep BEFORE this op
	// observed
	Now   int64    `json:"now"` // ns since history start, read before the call
	Dur   int64    `json:"dur"`
	Found bool     `json:"found"`
	Ret   int64    `json:"ret"`
	Bool  bool     `json:"b"`
	Stats [5]int64 `json:"stats"`
	Keys  []int    `json:"keys"`
}

type c12Case struct {
	ID   int     `json:"id"`
	Cap  int     `json:"cap"`
	TTL  int64   `json:"ttl"`
	Ops  []c12Op `json:"ops"`
	Note string  `json:"note,omitempty"`
}

var c12Caps = []int{-3, 0, 1, 2, 3, 5, 100}
var c12KeyNames = []string{"k0", "k1", "k2", "k3", "k4", "k5", "k6", "k7"}

func c12Gen(r *rand.Rand, id int) c12Case {
	c := c12Case{ID: id}
	c.Cap = c12Caps[r.Intn(len(c12Caps))]
	switch r.Intn(4) {
	case 0:
		c.TTL = 0
	case 1:
		c.TTL = int64(time.Hour)
	case 2:
		c.TTL = 1
	default:
		c.TTL = int64(20 * time.Millisecond)
	}
	nkeys := 3 + r.Intn(5)
	n := 5 + r.Intn(56)
	val := 1
	for i := 0; i < n; i++ {
		var o c12Op
		x := r.Intn(100)
		switch {
		case x < 34:
			o.Op = "put"
		case x < 64:
			o.Op = "get"
		case x < 72:
			o.Op = "delete"
		case x < 74:
			o.Op = "clear"
		case x < 79:
			o.Op = "size"
		case x < 80:
			o.Op = "capacity"
		case x < 87:
			o.Op = "stats"
		case x < 92:
			o.Op = "keys"
		default:
			o.Op = "cleanup"
		}
		o.Key = r.Intn(nkeys)
		o.Val = val
		if o.Val%7 == 3 {
			o.Val = 3 // 3 is the history's name for the nil interface value (stored as nil below)
		}
		val++
		if c.TTL == int64(20*time.Millisecond) && r.Intn(100) < 12 {
			o.Sleep = int64(30 * time.Millisecond)
		}
		c.Ops = append(c.Ops, o)
	}
	return c
}

func spin(d time.Duration) {
	t := time.Now()
	for time.Since(t) < d {
	}
}

// c12Run executes the history on a fresh real cache. ok=false when a TTL comparison
// fell inside the measured uncertainty band (the case is then regenerated).
func c12Run(c *c12Case) (ok bool) {
	lc := cache.NewLRUCache(c.Cap, time.Duration(c.TTL))
	start := time.Now()
	var maxDur int64
	for i := range c.Ops {
		o := &c.Ops[i]
		if o.Sleep > 0 {
			time.Sleep(time.Duration(o.Sleep))
		} else if c.TTL == 1 {
			spin(2 * time.Microsecond)
		}
		key := c12KeyNames[o.Key]
		t0 := time.Since(start)
		switch o.Op {
		case "put":
			if o.Val == 3 { // the nil interface value is a value like any other
				lc.Put(key, nil)
			} else {
				lc.Put(key, o.Val)
			}
		case "get":
			v, f := lc.Get(key)
			o.Found = f
			if f {
				if v == nil {
					o.Ret = 3
				} else {
					o.Ret = int64(v.(int))
				}
			}
		case "delete":
			o.Bool = lc.Delete(key)
		case "clear":
			lc.Clear()
		case "size":
			o.Ret = int64(lc.Size())
		case "capacity":
			o.Ret = int64(lc.Capacity())
		case "stats":
			s := lc.Stats()
			o.Stats = [5]int64{s.Hits, s.Misses, s.Evictions, int64(s.Size), int64(s.Capacity)}
		case "keys":
			ks := lc.Keys()
			o.Keys = []int{}
			for _, k := range ks {
				for j, nm := range c12KeyNames {
					if nm == k {
						o.Keys = append(o.Keys, j)
					}
				}
			}
			sort.Ints(o.Keys)
		case "cleanup":
			o.Ret = int64(lc.CleanupExpired())
		}
		t1 := time.Since(start)
		o.Now = int64(t0)
		o.Dur = int64(t1 - t0)
		if o.Dur > maxDur {
			maxDur = o.Dur
		}
	}
	if c.TTL <= 0 {
		return true
	}
	// guard band: any (put, later get/cleanup) pair whose model age is within the
	// measured uncertainty of the lifetime makes the case undecidable by measurement.
	slack := 2*maxDur + 200
	for i := range c.Ops {
		if c.Ops[i].Op != "put" {
			continue
		}
		for j := i + 1; j < len(c.Ops); j++ {
			if c.Ops[j].Op != "get" && c.Ops[j].Op != "cleanup" {
				continue
			}
			age := c.Ops[j].Now - c.Ops[i].Now
			d := age - c.TTL
			if d < 0 {
				d = -d
			}
			if d <= slack {
				return false
			}
		}
	}
	return true
}

func runC12(seed int64, n int, replay string, e *emitter) {
	var cases []c12Case
	if replay != "" {
		for _, raw := range readReplay(replay) {
			var c c12Case
			if err := json.Unmarshal(raw, &c); err == nil {
				cases = append(cases, c)
			}
		}
	} else {
		r := rand.New(rand.NewSource(seed))
		for i := 0; i < n; i++ {
			cases = append(cases, c12Gen(r, i))
		}
	}
	// run 16-wide so that sleeps overlap; regeneration of discarded cases uses a
	// per-case PRNG derived from the seed so that results replay.
	var wg sync.WaitGroup
	sem := make(chan struct{}, 16)
	discarded := make([]int, len(cases))
	for i := range cases {
		wg.Add(1)
		sem <- struct{}{}
		go func(i int) {
			defer wg.Done()
			defer func() { <-sem }()
			for try := 0; try < 5; try++ {
				if c12Run(&cases[i]) {
					return
				}
				discarded[i]++
			}
			cases[i].Note = "undecidable-timing"
		}(i)
	}
	wg.Wait()
	for i := range cases {
		if discarded[i] > 0 && cases[i].Note == "" {
			cases[i].Note = "retried"
		}
		e.emit(cases[i])
	}
}

func init() { runners["c12"] = runC12 }
