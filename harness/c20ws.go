package main

import (
	"encoding/json"
	"math/rand"
	"strings"

	"github.com/Vedant9500/WTF/internal/validation"
)

// C20 (whitespace family): the CLI validates the query before searching; two command lines whose queries differ only in
// letter case or in leading, trailing or repeated whitespace must reach the engine with the same text (up to letter case).

type wsCase struct {
	ID     int    `json:"id"`
	Seed   int64  `json:"seed"`
	Family string `json:"family"`
	Q      []int  `json:"q"`
	V      []int  `json:"v"` // q re-spelled: other case, other whitespace runs
	ResQ   c14Res `json:"res_q"`
	ResV   c14Res `json:"res_v"`
}

// every unicode.IsSpace rune that the validator does not delete as a control character first
var wsSpaces = []string{" ", "\t", "\n", " ", " ", " ", " ", " ", " ", " ", " ", " ", " ", "　", " ", " ", " "}

func wsRun(c *wsCase) {
	one := func(s string) c14Res {
		out, err := validation.ValidateQuery(s)
		return c14Res{Ok: err == nil, Out: ints(out), Err: errKind(err)}
	}
	c.ResQ, c.ResV = one(fromInts(c.Q)), one(fromInts(c.V))
}

func wsVariant(r *rand.Rand, q string) string {
	words := strings.Fields(q)
	var sb strings.Builder
	run := func(min int) {
		for i, k := 0, min+r.Intn(3); i < k; i++ {
			sb.WriteString(wsSpaces[r.Intn(len(wsSpaces))])
		}
	}
	run(0)
	for i, w := range words {
		if i > 0 {
			run(1)
		}
		sb.WriteString(recase(r, w))
	}
	run(0)
	return sb.String()
}

func runC20Ws(seed int64, n int, replay string, e *emitter) {
	if replay != "" {
		for _, raw := range readReplay(replay) {
			var c wsCase
			if json.Unmarshal(raw, &c) != nil {
				continue
			}
			in := wsCase{ID: c.ID, Seed: c.Seed, Family: "ws", Q: c.Q, V: c.V}
			wsRun(&in)
			e.emit(in)
		}
		return
	}
	for i := 0; i < n; i++ {
		r := rand.New(rand.NewSource(seed*1000003 + int64(i)))
		q := eGenQuery(r, nil)
		if r.Intn(4) == 0 {
			q = harvestedQuery(r, i)
		}
		q = strings.Join(strings.Fields(q), " ")
		c := wsCase{ID: i, Seed: seed, Family: "ws", Q: ints(q), V: ints(wsVariant(r, q))}
		wsRun(&c)
		e.emit(c)
	}
}

func init() { runners["c20ws"] = runC20Ws }
