package main

import (
	"fmt"
	"math/rand"
	"sync"

	"github.com/Vedant9500/WTF/internal/cache"
)

// C12 (concurrent family): the statistics equal what actually happened also when the lookups come from several
// goroutines at once. Keys 0..15 are stored once; every goroutine then alternates lookups of a stored key (a hit) and of
// a key never stored (a miss). Nothing is inserted, deleted or expired meanwhile, so the totals are known exactly.

type c12ConcCase struct {
	ID         int    `json:"id"`
	Seed       int64  `json:"seed"`
	Family     string `json:"family"`
	Goroutines int    `json:"goroutines"`
	Per        int    `json:"per"`
	WantHits   int64  `json:"want_hits"`
	WantMisses int64  `json:"want_misses"`
	Hits       int64  `json:"hits"`
	Misses     int64  `json:"misses"`
	Evictions  int64  `json:"evictions"`
	Size       int64  `json:"size"`
	WrongValue int64  `json:"wrong_value"` // lookups that returned something else than what was stored (or found an absent key)
}

func c12ConcRun(c *c12ConcCase) {
	lc := cache.NewLRUCache(64, 0)
	for k := 0; k < 16; k++ {
		lc.Put(fmt.Sprintf("k%d", k), k)
	}
	var wg sync.WaitGroup
	wrong := make([]int64, c.Goroutines)
	for g := 0; g < c.Goroutines; g++ {
		wg.Add(1)
		go func(g int) {
			defer wg.Done()
			for i := 0; i < c.Per; i++ {
				if i%2 == 0 {
					k := (i/2 + g) % 16
					if v, ok := lc.Get(fmt.Sprintf("k%d", k)); !ok || v != k {
						wrong[g]++
					}
				} else if _, ok := lc.Get(fmt.Sprintf("absent%d", (i+g)%7)); ok {
					wrong[g]++
				}
			}
		}(g)
	}
	wg.Wait()
	for _, w := range wrong {
		c.WrongValue += w
	}
	st := lc.Stats()
	c.Hits, c.Misses, c.Evictions, c.Size = st.Hits, st.Misses, st.Evictions, int64(st.Size)
	c.WantHits = int64(c.Goroutines) * int64((c.Per+1)/2)
	c.WantMisses = int64(c.Goroutines) * int64(c.Per/2)
}

func runC12Conc(seed int64, n int, replay string, e *emitter) {
	if replay != "" {
		for range readReplay(replay) {
			n++
		}
	}
	for i := 0; i < n; i++ {
		r := rand.New(rand.NewSource(seed*1000003 + int64(i)))
		c := c12ConcCase{ID: i, Seed: seed, Family: "conc", Goroutines: 2 + r.Intn(11), Per: 100000 + r.Intn(200000)}
		c12ConcRun(&c)
		e.emit(c)
	}
}

func init() { runners["c12conc"] = runC12Conc }
