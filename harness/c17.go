package main

import (
	"bytes"
	"encoding/json"
	"fmt"
	"math/rand"
	"os"
	"os/exec"
	"path/filepath"
	"strings"
	"time"

	"github.com/Vedant9500/WTF/internal/cli"
	wctx "github.com/Vedant9500/WTF/internal/context"
	"github.com/Vedant9500/WTF/internal/database"
	"github.com/Vedant9500/WTF/internal/recovery"
	"github.com/Vedant9500/WTF/internal/validation"
)

// C17: every CLI command runs, and search output matches the engine's answer. Drives the BUILT binary
// (path in VERIF_WTF_BIN) in an isolated home and an empty working directory.

type c17Flag struct {
	Name  []int `json:"name"`
	Short []int `json:"short"`
	Type  []int `json:"type"`
}

type c17Cmd struct {
	Path       [][]int   `json:"path"`
	Local      []c17Flag `json:"local"`
	Persistent []c17Flag `json:"persistent"`
}

type c17Item struct {
	Cmd  []int `json:"cmd"`
	Desc []int `json:"desc"`
}

type c17Case struct {
	ID     int      `json:"id"`
	Seed   int64    `json:"seed"`
	Kind   string   `json:"kind"` // tree sub search
	Tree   []c17Cmd `json:"tree,omitempty"`
	Args   [][]int  `json:"args,omitempty"`
	Env    []string `json:"env,omitempty"`
	Exit   int      `json:"exit"`
	Panic  bool     `json:"panic"`
	Stdout []int    `json:"stdout,omitempty"`
	Stderr string   `json:"stderr_tail,omitempty"`
	// search runs
	DB         []eCmd    `json:"db,omitempty"`
	Query      []int     `json:"q,omitempty"`
	Format     string    `json:"format,omitempty"`
	Verbose    bool      `json:"verbose"`
	NoColor    bool      `json:"no_color"`
	Accepted   bool      `json:"accepted"`
	Clean      []int     `json:"clean,omitempty"`
	Limit      int       `json:"limit"`
	LimitArg   int       `json:"limit_arg"`     // the value given on the command line (0: none)
	DefaultLim int       `json:"default_limit"` // ValidateLimit(0)
	LimitOK    bool      `json:"limit_ok"`
	Engine     []c17Item `json:"engine"`
	Recovery   []c17Item `json:"recovery"`
	HistBefore int       `json:"hist_before"`
	HistAfter  int       `json:"hist_after"`
	HistLast   []int     `json:"hist_last"`
	HistLastN  int       `json:"hist_last_n"`
	DBHasESC   bool      `json:"db_has_esc"`
}

func c17Tree() c17Case {
	c := c17Case{Kind: "tree"}
	for _, cm := range cli.VerifCommandTree() {
		x := c17Cmd{Path: intsList(cm.Path)}
		for _, f := range cm.Local {
			x.Local = append(x.Local, c17Flag{ints(f.Name), ints(f.Shorthand), ints(f.Type)})
		}
		for _, f := range cm.Persistent {
			x.Persistent = append(x.Persistent, c17Flag{ints(f.Name), ints(f.Shorthand), ints(f.Type)})
		}
		c.Tree = append(c.Tree, x)
	}
	return c
}

type c17Run struct {
	exit   int
	stdout []byte
	stderr []byte
	panic  bool
}

func c17Exec(bin string, home, cwd string, env []string, args []string, stdin string) c17Run {
	cmd := exec.Command(bin, args...)
	cmd.Dir = cwd
	cmd.Env = append([]string{"HOME=" + home, "XDG_CONFIG_HOME=" + filepath.Join(home, ".config"), "PATH=/usr/bin:/bin", "TERM=xterm", "SHELL=/bin/sh"}, env...)
	cmd.Stdin = strings.NewReader(stdin)
	var so, se bytes.Buffer
	cmd.Stdout, cmd.Stderr = &so, &se
	done := make(chan error, 1)
	if err := cmd.Start(); err != nil {
		return c17Run{exit: -1, stderr: []byte(err.Error())}
	}
	go func() { done <- cmd.Wait() }()
	var r c17Run
	select {
	case err := <-done:
		if err != nil {
			if ee, ok := err.(*exec.ExitError); ok {
				r.exit = ee.ExitCode()
			} else {
				r.exit = -1
			}
		}
	case <-time.After(20 * time.Second):
		cmd.Process.Kill()
		r.exit = -9
	}
	r.stdout, r.stderr = so.Bytes(), se.Bytes()
	r.panic = bytes.Contains(r.stderr, []byte("panic:")) || bytes.Contains(r.stderr, []byte("goroutine ")) || r.exit == -9
	return r
}

var c17HostileArgs = []string{"", " ", "-", "--", "a b", "x\ny", "\x1b[31mred", "日本", "\xff\xfe", "null", "- item", "key: value", "#c", "{{.Names}}", "'q'", "\"dq\"", "|", "a|b|c",
	strings.Repeat("z", 300), "--help", "-h", "-p", "--limit", "5", "-l", "0", "--format", "json", "--no-color", "-v", "--platform", "linux", "hey", "../x", "/tmp/x"}

func c17Sub(r *rand.Rand, bin, dir string, id int) c17Case {
	c := c17Case{Kind: "sub", ID: id}
	subs := [][]string{{"search"}, {"alias"}, {"alias", "add"}, {"alias", "list"}, {"alias", "remove"}, {"setup"}, {"save"}, {"wizard"}, {"pipeline"},
		{"save-pipeline"}, {"history"}, {"help"}, {"completion"}, {}}
	args := append([]string(nil), subs[r.Intn(len(subs))]...)
	n := r.Intn(5)
	if len(args) > 0 && (args[0] == "save" || args[0] == "save-pipeline") && r.Intn(3) > 0 {
		n = 2 + r.Intn(2)
	}
	for i := 0; i < n; i++ {
		args = append(args, c17HostileArgs[r.Intn(len(c17HostileArgs))])
	}
	if len(args) > 0 && args[0] == "save-pipeline" && r.Intn(2) == 0 {
		// command texts with an empty step: an or-chain, a trailing / leading / doubled pipe, nothing at all
		args = []string{"save-pipeline", []string{"stats", "my pipe", "n"}[r.Intn(3)],
			[]string{"a || b", "ps aux | sort |", "| sort", "", " ", "cat f | | wc -l", "x |\t| y", "grep x f || echo none", "a|b|c"}[r.Intn(9)]}
	}
	home := filepath.Join(dir, fmt.Sprintf("home%d", id))
	cwd := filepath.Join(dir, fmt.Sprintf("cwd%d", id))
	os.MkdirAll(home, 0o755)
	os.MkdirAll(cwd, 0o755)
	// a small database in the working directory so that search-like commands have something to load
	cmds := eGenDB(r)
	if data, err := marshalCommands(cmds); err == nil {
		os.MkdirAll(filepath.Join(cwd, "assets"), 0o755)
		os.WriteFile(filepath.Join(cwd, "assets", "commands.yml"), data, 0o644)
	}
	if len(args) > 0 && args[0] == "history" {
		// a history to show: the sub-command's own flags (limits of any sign, a pattern that matches) then meet real entries
		hp := filepath.Join(home, ".config", "wtf", "search_history.json")
		os.MkdirAll(filepath.Dir(hp), 0o755)
		os.WriteFile(hp, []byte(`{"entries":[{"query":"list files","timestamp":"2024-01-01T00:00:00Z","results_count":3},{"query":"git status","timestamp":"2024-01-02T00:00:00Z","results_count":1},{"query":"list processes","timestamp":"2024-01-03T00:00:00Z","results_count":2}],"max_size":100}`), 0o644)
		if r.Intn(2) == 0 {
			args = []string{"history", []string{"--limit=-1", "--limit=-7", "--limit=0", "--limit=2", "-l=-1"}[r.Intn(5)]}
			args = append(args, [][]string{{"list"}, {"git"}, {"--top"}, {"--stats"}, {"nomatch"}, {}}[r.Intn(6)]...)
		}
	}
	run := c17Exec(bin, home, cwd, nil, args, "\n\n\nq\n")
	c.Args = intsList(args)
	c.Exit, c.Panic = run.exit, run.panic
	if len(run.stderr) > 400 {
		c.Stderr = string(run.stderr[:400])
	} else {
		c.Stderr = string(run.stderr)
	}
	os.RemoveAll(home)
	os.RemoveAll(cwd)
	return c
}

func c17Items(rs []database.SearchResult) []c17Item {
	out := []c17Item{}
	for _, r := range rs {
		out = append(out, c17Item{Cmd: ints(r.Command.Command), Desc: ints(r.Command.Description)})
	}
	return out
}

func c17Search(r *rand.Rand, bin, dir string, id int) c17Case {
	c := c17Case{Kind: "search", ID: id}
	home := filepath.Join(dir, fmt.Sprintf("home%d", id))
	cwd := filepath.Join(dir, fmt.Sprintf("cwd%d", id))
	os.MkdirAll(home, 0o755)
	os.MkdirAll(cwd, 0o755)
	defer os.RemoveAll(home)
	defer os.RemoveAll(cwd)
	cmds := eGenDB(r)
	for len(cmds) < 4 {
		cmds = append(cmds, eGenCommand(r))
	}
	if r.Intn(4) == 0 { // terminal escapes inside the database text
		cmds[0].Command = "evil\x1b[31mred " + cmds[0].Command
		cmds[0].Description = "desc \x1b]0;title\x07 " + cmds[0].Description
		c.DBHasESC = true
	}
	if r.Intn(3) == 0 { // wide text: more bytes than characters (table columns are cut by width)
		wide := []string{" 备份文件压缩归档工具命令行参数说明文档示例", " резервное копирование каталога архив", " 😀😀😀😀😀😀😀😀😀😀😀😀😀😀", " ééééééééééééééééééééééééééééééééééééééééééééééééééé"}
		for i := range cmds {
			if r.Intn(2) == 0 {
				cmds[i].Command += wide[r.Intn(len(wide))]
			}
			if r.Intn(4) == 0 {
				cmds[i].Niche += wide[r.Intn(len(wide))]
			}
		}
	}
	dbfile := filepath.Join(dir, fmt.Sprintf("db%d.yml", id))
	data, err := marshalCommands(cmds)
	if err != nil {
		c.Kind = "skip"
		return c
	}
	os.WriteFile(dbfile, data, 0o644)
	defer os.Remove(dbfile)
	q := eGenQuery(r, cmds)
	switch r.Intn(10) {
	case 0:
		q = "  " + q + "  "
	case 1:
		q = strings.ReplaceAll(q, " ", "   ")
	case 2:
		q = "zzqx " + q // likely no lexical match: typo fallback / recovery
	case 3: // quotes that reach the program (cmd.exe passes them through), blanks inside them
		q = []string{"' " + q + " '", "\"" + q + " \"", "'" + q + "'", "''", "\" \""}[len(q)%5]
	}
	c.Query = ints(q)
	args := []string{}
	if r.Intn(2) == 0 {
		args = append(args, "search")
	}
	limit := []int{0, 0, 1, 2, 3, 5, 7, 100, 101, -1}[r.Intn(10)]
	if limit != 0 || r.Intn(3) == 0 {
		args = append(args, "--limit", fmt.Sprint(limit))
	} else {
		limit = 0
	}
	c.Format = []string{"list", "list", "json", "json", "table"}[r.Intn(5)]
	args = append(args, "--format", c.Format)
	c.Verbose = r.Intn(2) == 0
	if c.Verbose {
		args = append(args, "-v")
	}
	var env []string
	switch r.Intn(5) {
	case 0:
		args = append(args, "--no-color")
		c.NoColor = true
	case 1:
		env = append(env, "NO_COLOR=1")
		c.NoColor = true
	case 2: // the environment variable asks for no colour whatever the flag's spelling
		env = append(env, "NO_COLOR=1")
		args = append(args, []string{"--no-color=false", "--no-color=true", "--no-color"}[r.Intn(3)])
		c.NoColor = true
	}
	var platforms []string
	allP, noCross := false, false
	switch r.Intn(9) {
	case 0:
		allP = true
		args = append(args, "--all-platforms")
	case 1:
		platforms = []string{"windows"}
		args = append(args, "--platform", "windows")
	case 2:
		platforms = []string{"linux"}
		noCross = true
		args = append(args, "--platform", "linux", "--no-cross-platform")
	case 3: // the switch alone: the host platform is the filter then
		noCross = true
		args = append(args, "--no-cross-platform")
	case 4: // several platforms, as a list or as repeated flags, in any order and case
		platforms = [][]string{{"linux", "macos", "windows"}, {"windows", "darwin", "linux"}, {"Linux", "MacOS", "Windows"}, {"linux", "macos"}}[r.Intn(4)]
		if r.Intn(2) == 0 {
			args = append(args, "--platform", strings.Join(platforms, ","))
		} else {
			for _, p := range platforms {
				args = append(args, "-p", p)
			}
		}
		if r.Intn(3) == 0 {
			noCross = true
			args = append(args, "--no-cross-platform")
		}
	}
	if id%6 == 4 && len(strings.Fields(q)) > 0 {
		// an unquoted query: one argument per word, an empty argument among them; the query is the arguments joined by blanks
		words := append(strings.Fields(q), "")
		if id%12 == 4 {
			words = append([]string{""}, strings.Fields(q)...)
		}
		q = strings.Join(words, " ")
		c.Query = ints(q)
		args = append(append(args, "--database", dbfile, "--"), words...)
	} else {
		args = append(args, "--database", dbfile, "--", q) // "--": a query may begin with a dash
	}
	c.Args, c.Env = intsList(args), env

	// a history already present in 1/3 of the runs
	histPath := filepath.Join(home, ".config", "wtf", "search_history.json")
	if r.Intn(3) == 0 {
		os.MkdirAll(filepath.Dir(histPath), 0o755)
		good := `{"entries":[{"query":"older","timestamp":"2024-01-01T00:00:00Z","results_count":1}],"max_size":100}`
		switch id % 5 {
		case 1: // a history file that cannot be read back: cut short by an interrupted write, a field of the wrong type, another shape
			os.WriteFile(histPath, []byte(good[:len(good)/2]), 0o644)
		case 2:
			os.WriteFile(histPath, []byte(strings.Replace(good, `"results_count":1`, `"results_count":"one"`, 1)), 0o644)
		case 3:
			os.WriteFile(histPath, []byte(`[{"query":"older"}]`), 0o644)
		default:
			os.WriteFile(histPath, []byte(good), 0o644)
			c.HistBefore = 1
		}
		if c.HistBefore == 0 {
			data, _ := os.ReadFile(histPath)
			os.WriteFile(histPath+".asplaced", data, 0o644)
		}
	}
	run := c17Exec(bin, home, cwd, env, args, "")
	c.Exit, c.Panic, c.Stdout = run.exit, run.panic, ints(string(run.stdout))
	if len(run.stderr) > 300 {
		c.Stderr = string(run.stderr[:300])
	} else {
		c.Stderr = string(run.stderr)
	}

	// what the CLI is expected to print, computed in-process from the same inputs
	clean, verr := validation.ValidateQuery(q)
	c.Accepted = verr == nil
	c.Clean = ints(clean)
	vl, lerr := validation.ValidateLimit(limit)
	c.LimitOK = lerr == nil
	c.Limit = vl
	c.LimitArg = limit
	c.DefaultLim, _ = validation.ValidateLimit(0)
	if c.Accepted && c.LimitOK {
		db, err := database.LoadDatabaseWithPersonal(dbfile, filepath.Join(home, ".config", "cmd-finder", "personal.yml"))
		if err == nil {
			o := database.SearchOptions{Limit: vl, UseFuzzy: true, FuzzyThreshold: -30, UseNLP: true, AllPlatforms: allP, Platforms: platforms, NoCrossPlatform: noCross}
			if pc, err := wctx.NewAnalyzer().AnalyzeDirectory(cwd); err == nil && pc != nil {
				o.ContextBoosts = pc.GetContextBoosts()
			}
			res := db.SearchUniversal(clean, o)
			c.Engine = c17Items(res)
			if len(res) == 0 {
				old := os.Stdout
				devnull, _ := os.Open(os.DevNull)
				null, _ := os.OpenFile(os.DevNull, os.O_WRONLY, 0)
				os.Stdout = null
				rec, rerr := recovery.NewSearchRecovery().RecoverFromSearchFailure(clean, nil, db)
				os.Stdout = old
				null.Close()
				devnull.Close()
				if rerr == nil {
					c.Recovery = c17Items(rec)
				}
			}
		}
	}
	// history after the run
	if data, err := os.ReadFile(histPath); err == nil {
		var h struct {
			Entries []struct {
				Query        string `json:"query"`
				ResultsCount int    `json:"results_count"`
			} `json:"entries"`
		}
		if json.Unmarshal(data, &h) == nil {
			c.HistAfter = len(h.Entries)
			if n := len(h.Entries); n > 0 {
				c.HistLast = ints(h.Entries[n-1].Query)
				c.HistLastN = h.Entries[n-1].ResultsCount
			}
		} else if damaged, _ := os.ReadFile(histPath + ".asplaced"); len(damaged) > 0 && bytes.Equal(damaged, data) {
			c.HistAfter = 0 // the unreadable file that was placed before the run is still there, untouched: no entry, as before
		} else {
			c.HistAfter = -1
		}
	}
	return c
}

func runC17(seed int64, n int, replay string, e *emitter) {
	bin := os.Getenv("VERIF_WTF_BIN")
	if bin == "" {
		fmt.Fprintln(os.Stderr, "VERIF_WTF_BIN not set")
		os.Exit(2)
	}
	dir := mustTemp("verif-c17-")
	defer os.RemoveAll(dir)
	if replay != "" {
		for _, raw := range readReplay(replay) {
			var c c17Case
			if json.Unmarshal(raw, &c) != nil {
				continue
			}
			r := rand.New(rand.NewSource(c.Seed*1000003 + int64(c.ID)))
			e.emit(c17One(r, c.Kind, c.ID, c.Seed, bin, dir))
		}
		return
	}
	t := c17Tree()
	t.Seed = seed
	e.emit(t)
	for i := 1; i <= n; i++ {
		r := rand.New(rand.NewSource(seed*1000003 + int64(i)))
		kind := "search"
		if i%3 == 0 {
			kind = "sub"
		}
		e.emit(c17One(r, kind, i, seed, bin, dir))
	}
}

func c17One(r *rand.Rand, kind string, id int, seed int64, bin, dir string) c17Case {
	var c c17Case
	switch kind {
	case "tree":
		c = c17Tree()
	case "sub":
		c = c17Sub(r, bin, dir, id)
	default:
		c = c17Search(r, bin, dir, id)
	}
	c.ID, c.Seed = id, seed
	return c
}

func init() { runners["c17"] = runC17 }
