package main

import (
	"encoding/json"
	"fmt"
	"github.com/Vedant9500/WTF/internal/embedding"
	"go/ast"
	"go/parser"
	"go/token"
	"math/rand"
	"os"
	"path/filepath"
	"sort"
	"strings"
	"sync"
	"sync/atomic"
	"time"
	"unicode"

	"github.com/Vedant9500/WTF/internal/cache"
	"github.com/Vedant9500/WTF/internal/database"
	"github.com/Vedant9500/WTF/internal/metrics"
)

// C11: concurrent searches on one database are race-free and answer as if alone.
//  (a) lock table: a go/ast walker over the current tree records, per method, the lock mode held around every
//      access to a field of the shared object (the regenerated table the Coq lock-discipline check runs on);
//  (b) stress: goroutines search / invalidate / sweep / read stats on one MonitoredDatabase (this harness is
//      built with -race by the check); every answer is compared with the sequential answer;
//  (c) LRU histories: concurrent Get/Put/Delete/Size/Stats with invoke/return stamps, checked for
//      linearizability against Model/Lru.v inside Coq.

// ---------------------------------------------------------------- (a) lock table

type c11Access struct {
	Type   string `json:"type"`
	Method string `json:"method"`
	Field  string `json:"field"`
	Write  bool   `json:"write"`
	Mode   string `json:"mode"` // none shared excl atomic
	Guard  string `json:"guard,omitempty"`
}

type c11Walker struct {
	fset    *token.FileSet
	methods map[string]*ast.FuncDecl // "Type.method" or "func"
	out     []c11Access
}

var c11ReadOnlyCalls = map[string]bool{"Len": true, "Back": true, "Front": true, "Prev": true, "Next": true, "Load": true, "Value": true}

func recvType(fd *ast.FuncDecl) (typ, name string) {
	if fd.Recv == nil || len(fd.Recv.List) == 0 {
		return "", ""
	}
	f := fd.Recv.List[0]
	t := f.Type
	if st, ok := t.(*ast.StarExpr); ok {
		t = st.X
	}
	if id, ok := t.(*ast.Ident); ok {
		typ = id.Name
	}
	if len(f.Names) > 0 {
		name = f.Names[0].Name
	}
	return
}

// lockCall recognises recv.mu.Lock() etc.; returns the new mode or "".
func lockCall(e ast.Expr, recv string) string {
	call, ok := e.(*ast.CallExpr)
	if !ok {
		return ""
	}
	sel, ok := call.Fun.(*ast.SelectorExpr)
	if !ok {
		return ""
	}
	inner, ok := sel.X.(*ast.SelectorExpr)
	if !ok {
		return ""
	}
	id, ok := inner.X.(*ast.Ident)
	if !ok || id.Name != recv || (inner.Sel.Name != "mu" && inner.Sel.Name != "mutex") {
		return ""
	}
	switch sel.Sel.Name {
	case "Lock":
		return "excl"
	case "RLock":
		return "shared"
	case "Unlock", "RUnlock":
		return "none"
	}
	return ""
}

func (w *c11Walker) walkMethod(typ, method string, fd *ast.FuncDecl, recv string, mode string, guard string, depth int, seen map[string]bool) {
	if fd == nil || fd.Body == nil || depth > 6 {
		return
	}
	key := typ + "." + fd.Name.Name + "/" + mode + "/" + guard
	if seen[key] {
		return
	}
	seen[key] = true
	w.walkStmts(typ, method, fd.Body.List, recv, &mode, guard, depth, seen)
}

func (w *c11Walker) walkStmts(typ, method string, stmts []ast.Stmt, recv string, mode *string, guard string, depth int, seen map[string]bool) {
	for _, s := range stmts {
		switch st := s.(type) {
		case *ast.ExprStmt:
			if m := lockCall(st.X, recv); m != "" {
				*mode = m
				if m != "none" {
					// an acquisition: a method whose body is ONE critical section has exactly one of these (helpers inlined)
					w.out = append(w.out, c11Access{Type: typ, Method: method, Field: "<acquire>", Mode: m})
				}
				continue
			}
			w.expr(typ, method, st.X, recv, *mode, guard, false, depth, seen)
		case *ast.DeferStmt:
			if lockCall(st.Call, recv) != "" {
				continue // deferred unlock: the mode holds to the end of the body
			}
			w.expr(typ, method, st.Call, recv, *mode, guard, false, depth, seen)
		case *ast.AssignStmt:
			for _, l := range st.Lhs {
				w.expr(typ, method, l, recv, *mode, guard, true, depth, seen)
			}
			for _, r := range st.Rhs {
				w.expr(typ, method, r, recv, *mode, guard, false, depth, seen)
			}
		case *ast.IncDecStmt:
			w.expr(typ, method, st.X, recv, *mode, guard, true, depth, seen)
		case *ast.IfStmt:
			if st.Init != nil {
				w.walkStmts(typ, method, []ast.Stmt{st.Init}, recv, mode, guard, depth, seen)
			}
			w.expr(typ, method, st.Cond, recv, *mode, guard, false, depth, seen)
			g := guard
			var sb strings.Builder
			ast.Fprint(&sb, nil, st.Cond, nil)
			if strings.Contains(exprString(st.Cond), "uIndex == nil") {
				g = "stale"
			}
			m := *mode
			w.walkStmts(typ, method, st.Body.List, recv, &m, g, depth, seen)
			if st.Else != nil {
				m2 := *mode
				w.walkStmts(typ, method, []ast.Stmt{st.Else}, recv, &m2, guard, depth, seen)
			}
		case *ast.BlockStmt:
			w.walkStmts(typ, method, st.List, recv, mode, guard, depth, seen)
		case *ast.ForStmt:
			if st.Init != nil {
				w.walkStmts(typ, method, []ast.Stmt{st.Init}, recv, mode, guard, depth, seen)
			}
			if st.Cond != nil {
				w.expr(typ, method, st.Cond, recv, *mode, guard, false, depth, seen)
			}
			if st.Post != nil {
				w.walkStmts(typ, method, []ast.Stmt{st.Post}, recv, mode, guard, depth, seen)
			}
			m := *mode
			w.walkStmts(typ, method, st.Body.List, recv, &m, guard, depth, seen)
		case *ast.RangeStmt:
			w.expr(typ, method, st.X, recv, *mode, guard, false, depth, seen)
			m := *mode
			w.walkStmts(typ, method, st.Body.List, recv, &m, guard, depth, seen)
		case *ast.ReturnStmt:
			for _, r := range st.Results {
				w.expr(typ, method, r, recv, *mode, guard, false, depth, seen)
			}
		case *ast.SwitchStmt:
			if st.Tag != nil {
				w.expr(typ, method, st.Tag, recv, *mode, guard, false, depth, seen)
			}
			for _, c := range st.Body.List {
				if cc, ok := c.(*ast.CaseClause); ok {
					m := *mode
					w.walkStmts(typ, method, cc.Body, recv, &m, guard, depth, seen)
				}
			}
		case *ast.DeclStmt:
			if gd, ok := st.Decl.(*ast.GenDecl); ok {
				for _, sp := range gd.Specs {
					if vs, ok := sp.(*ast.ValueSpec); ok {
						for _, v := range vs.Values {
							w.expr(typ, method, v, recv, *mode, guard, false, depth, seen)
						}
					}
				}
			}
		}
	}
}

func exprString(e ast.Expr) string {
	switch x := e.(type) {
	case *ast.BinaryExpr:
		return exprString(x.X) + " " + x.Op.String() + " " + exprString(x.Y)
	case *ast.SelectorExpr:
		return exprString(x.X) + "." + x.Sel.Name
	case *ast.Ident:
		return x.Name
	case *ast.CallExpr:
		return exprString(x.Fun) + "(...)"
	case *ast.ParenExpr:
		return "(" + exprString(x.X) + ")"
	case *ast.UnaryExpr:
		return x.Op.String() + exprString(x.X)
	}
	return "?"
}

// expr records accesses to recv.<field> inside e. write = e is assigned to / mutated.
func (w *c11Walker) expr(typ, method string, e ast.Expr, recv string, mode, guard string, write bool, depth int, seen map[string]bool) {
	switch x := e.(type) {
	case nil:
	case *ast.SelectorExpr:
		if id, ok := x.X.(*ast.Ident); ok && id.Name == recv {
			if x.Sel.Name != "mu" && x.Sel.Name != "mutex" {
				w.out = append(w.out, c11Access{Type: typ, Method: method, Field: x.Sel.Name, Write: write, Mode: mode, Guard: guard})
			}
			return
		}
		w.expr(typ, method, x.X, recv, mode, guard, write, depth, seen)
	case *ast.IndexExpr:
		if id, ok := x.X.(*ast.Ident); ok && id.Name == "storage" { // getOrCreate's alias of the collector's registry map
			w.out = append(w.out, c11Access{Type: typ, Method: method, Field: "registry", Write: write, Mode: mode, Guard: guard})
		}
		w.expr(typ, method, x.X, recv, mode, guard, write, depth, seen) // m[k] = v writes m
		w.expr(typ, method, x.Index, recv, mode, guard, false, depth, seen)
	case *ast.StarExpr:
		w.expr(typ, method, x.X, recv, mode, guard, write, depth, seen)
	case *ast.UnaryExpr:
		w.expr(typ, method, x.X, recv, mode, guard, write, depth, seen)
	case *ast.BinaryExpr:
		w.expr(typ, method, x.X, recv, mode, guard, false, depth, seen)
		w.expr(typ, method, x.Y, recv, mode, guard, false, depth, seen)
	case *ast.ParenExpr:
		w.expr(typ, method, x.X, recv, mode, guard, write, depth, seen)
	case *ast.TypeAssertExpr:
		w.expr(typ, method, x.X, recv, mode, guard, false, depth, seen)
	case *ast.CompositeLit:
		for _, el := range x.Elts {
			if kv, ok := el.(*ast.KeyValueExpr); ok {
				w.expr(typ, method, kv.Value, recv, mode, guard, false, depth, seen)
			} else {
				w.expr(typ, method, el, recv, mode, guard, false, depth, seen)
			}
		}
	case *ast.FuncLit:
		m := mode
		w.walkStmts(typ, method, x.Body.List, recv, &m, guard, depth, seen)
	case *ast.CallExpr:
		// sync/atomic: atomic.AddInt64(&recv.f, ..)
		if sel, ok := x.Fun.(*ast.SelectorExpr); ok {
			if pk, ok := sel.X.(*ast.Ident); ok && pk.Name == "atomic" {
				for _, a := range x.Args {
					w.expr(typ, method, a, recv, "atomic", guard, strings.HasPrefix(sel.Sel.Name, "Add") || strings.HasPrefix(sel.Sel.Name, "Store"), depth, seen)
				}
				return
			}
			// built-in delete(recv.m, k) handled below; method on a field: recv.f.M(...)
			if inner, ok := sel.X.(*ast.SelectorExpr); ok {
				if id, ok := inner.X.(*ast.Ident); ok && id.Name == recv && inner.Sel.Name != "mu" && inner.Sel.Name != "mutex" {
					w.out = append(w.out, c11Access{Type: typ, Method: method, Field: inner.Sel.Name, Write: !c11ReadOnlyCalls[sel.Sel.Name] && !isEmbeddedObject(inner.Sel.Name), Mode: mode, Guard: guard})
				}
			}
			// call of another method of the same receiver: inline it under the current mode
			if id, ok := sel.X.(*ast.Ident); ok && id.Name == recv {
				if callee := w.methods[typ+"."+sel.Sel.Name]; callee != nil {
					_, r2 := recvType(callee)
					w.walkMethod(typ, method, callee, r2, mode, guard, depth+1, seen)
				}
			}
		}
		if id, ok := x.Fun.(*ast.Ident); ok && id.Name == "delete" && len(x.Args) > 0 {
			w.expr(typ, method, x.Args[0], recv, mode, guard, true, depth, seen)
			for _, a := range x.Args[1:] {
				w.expr(typ, method, a, recv, mode, guard, false, depth, seen)
			}
			return
		}
		for _, a := range x.Args {
			w.expr(typ, method, a, recv, mode, guard, false, depth, seen)
		}
	}
}

// fields that are themselves synchronised objects (their own methods lock): a call on them is not a write to the field
func isEmbeddedObject(f string) bool {
	return f == "cache" || f == "searchCache" || f == "cacheManager" || f == "monitor" || f == "collector" || f == "histogram" || f == "Database" || f == "CachedDatabase" || f == "tfidf" || f == "embeddingIndex"
}

func c11LockTable(root string) ([]c11Access, error) {
	w := &c11Walker{fset: token.NewFileSet(), methods: map[string]*ast.FuncDecl{}}
	files := []string{"internal/cache/lru_cache.go", "internal/cache/search_cache.go", "internal/database/search_cached.go", "internal/database/search_monitored.go",
		"internal/database/search_universal.go", "internal/database/search.go", "internal/database/cascading_boost.go", "internal/database/search_helpers.go",
		"internal/database/embedding_loader.go", "internal/metrics/metrics.go", "internal/metrics/performance.go"}
	var decls []*ast.FuncDecl
	for _, f := range files {
		af, err := parser.ParseFile(w.fset, filepath.Join(root, f), nil, 0)
		if err != nil {
			return nil, err
		}
		for _, d := range af.Decls {
			if fd, ok := d.(*ast.FuncDecl); ok {
				t, _ := recvType(fd)
				w.methods[t+"."+fd.Name.Name] = fd
				decls = append(decls, fd)
			}
		}
	}
	interesting := map[string]bool{"LRUCache": true, "SearchCache": true, "Manager": true, "CachedDatabase": true, "MonitoredDatabase": true, "Database": true,
		"Collector": true, "Histogram": true, "Counter": true, "Gauge": true, "PerformanceMonitor": true}
	for _, fd := range decls {
		t, r := recvType(fd)
		if t == "" || !interesting[t] || r == "" {
			// generic helper getOrCreate(mc *Collector, ...): first parameter plays the receiver
			if fd.Name.Name == "getOrCreate" && fd.Type.Params != nil && len(fd.Type.Params.List) > 0 && len(fd.Type.Params.List[0].Names) > 0 {
				w.walkMethod("Collector", "getOrCreate", fd, fd.Type.Params.List[0].Names[0].Name, "none", "", 0, map[string]bool{})
			}
			continue
		}
		w.walkMethod(t, fd.Name.Name, fd, r, "none", "", 0, map[string]bool{})
	}
	// de-duplicate
	seen := map[c11Access]bool{}
	var out []c11Access
	for _, a := range w.out {
		if !seen[a] {
			seen[a] = true
			out = append(out, a)
		}
	}
	sort.Slice(out, func(i, j int) bool {
		a, b := out[i], out[j]
		return a.Type+a.Method+a.Field+a.Mode < b.Type+b.Method+b.Field+b.Mode
	})
	return out, nil
}

// ---------------------------------------------------------------- (b) stress

type c11Stress struct {
	Goroutines      int    `json:"goroutines"`
	Calls           int64  `json:"calls"`
	Mismatches      int64  `json:"mismatches"`
	FirstBad        string `json:"first_bad,omitempty"`
	SearchesRec     int64  `json:"searches_recorded"`
	CounterSum      int64  `json:"counter_sum"`
	Hits            int64  `json:"hits"`
	Misses          int64  `json:"misses"`
	HitMissSum      int64  `json:"hit_miss_sum"`
	HitMissExpected int64  `json:"hit_miss_expected"`
	LostLive        int64  `json:"lost_live"`        // entries stored during a sweep, inside their lifetime, that were gone afterwards
	SweepConclusive int64  `json:"sweep_conclusive"` // re-created entries looked up while still young
	SizeOver        int64  `json:"size_over"`        // Size() results above the capacity while fresh keys were being stored into a full cache
}

// c11SizeBound: a full cache, one goroutine storing fresh keys (every Put evicts), others polling Size(): in every
// one-at-a-time order a Size call sees at most `capacity` entries.
func c11SizeBound() (over int64) {
	for _, capacity := range []int{1, 3, 16} {
		c := cache.NewLRUCache(capacity, 0)
		for i := 0; i < capacity; i++ {
			c.Put(fmt.Sprintf("seed%d", i), i)
		}
		var stop atomic.Bool
		var wg sync.WaitGroup
		var bad atomic.Int64
		for g := 0; g < 3; g++ {
			wg.Add(1)
			go func() {
				defer wg.Done()
				for !stop.Load() {
					if c.Size() > capacity {
						bad.Add(1)
					}
				}
			}()
		}
		for i := 0; i < 60000; i++ {
			c.Put(fmt.Sprintf("fresh%d", i), i)
		}
		stop.Store(true)
		wg.Wait()
		over += bad.Load()
	}
	return
}

// c11SweepReinsert: many entries expire together; one goroutine sweeps while another looks the youngest keys up (miss) and stores
// them again. No Delete / Clear happens and the capacity is never reached: in every one-at-a-time order the sweep runs before a
// Put (a fresh entry is created afterwards) or after it (the fresh entry is not expired and is left alone), so the final Get hits.
func c11SweepReinsert() (lost, conclusive int64) {
	const n, hot, rounds = 20000, 48, 3
	ttl, settle := 400*time.Millisecond, 450*time.Millisecond
	for round := 0; round < rounds; round++ {
		c := cache.NewLRUCache(2*n, ttl)
		for i := 0; i < n; i++ {
			c.Put(fmt.Sprintf("k%06d", i), i)
		}
		time.Sleep(settle)
		var wg sync.WaitGroup
		wg.Add(1)
		go func() {
			defer wg.Done()
			c.CleanupExpired()
		}()
		deadline := time.Now().Add(3 * time.Second)
		for c.Size() == n && time.Now().Before(deadline) {
		}
		putAt := make([]time.Time, hot)
		stillThere := make([]bool, hot)
		for j := 0; j < hot; j++ {
			key := fmt.Sprintf("k%06d", n-1-j)
			_, stillThere[j] = c.Get(key) // a hit would mean the old entry lives on and keeps its age through the update below
			c.Put(key, "fresh")
			putAt[j] = time.Now()
		}
		wg.Wait()
		for j := 0; j < hot; j++ {
			v, ok := c.Get(fmt.Sprintf("k%06d", n-1-j))
			if stillThere[j] || time.Since(putAt[j]) > ttl/2 {
				continue // not conclusive: the entry was not re-created, or the machine stalled and it may be near its expiry
			}
			conclusive++
			if !ok || v != "fresh" {
				lost++
			}
		}
	}
	return
}

func c11RunStress(r *rand.Rand, dir string) c11Stress {
	cmds := eGenDB(r)
	for len(cmds) < 12 {
		cmds = append(cmds, eGenCommand(r))
	}
	db, err := loadCommands(dir, "s.yml", cmds)
	if err != nil {
		return c11Stress{}
	}
	type req struct {
		q    string
		o    database.SearchOptions
		want []eRes
	}
	var reqs []req
	for i := 0; i < 12; i++ {
		q := eGenQuery(r, cmds)
		o := eGenOpts(r, len(cmds), cmds)
		gopts := o.toGo()
		reqs = append(reqs, req{q, gopts, projectResults(db, db.SearchUniversal(q, gopts))})
	}
	mdb := database.NewMonitoredDatabase(db)
	st := c11Stress{Goroutines: 12}
	var wg sync.WaitGroup
	var bad atomic.Int64
	var calls atomic.Int64
	var monitored atomic.Int64
	var firstBad atomic.Value
	for g := 0; g < st.Goroutines; g++ {
		wg.Add(1)
		go func(g int) {
			defer wg.Done()
			rr := rand.New(rand.NewSource(int64(g) + 7))
			for i := 0; i < 150; i++ {
				calls.Add(1)
				switch x := rr.Intn(100); {
				case x < 75:
					rq := reqs[rr.Intn(len(reqs))]
					var got []database.SearchResult
					switch rr.Intn(3) {
					case 0:
						got = mdb.Database.SearchUniversal(rq.q, rq.o)
					case 1:
						got = mdb.SearchWithOptionsAndCache(rq.q, rq.o)
					default:
						got = mdb.SearchWithOptionsAndMonitoring(rq.q, rq.o)
						monitored.Add(1)
					}
					p := projectResults(mdb.Database, got)
					if fmt.Sprint(p) != fmt.Sprint(rq.want) {
						if bad.Add(1) == 1 {
							firstBad.Store(fmt.Sprintf("q=%q got=%v want=%v", rq.q, p, rq.want))
						}
					}
				case x < 83:
					mdb.InvalidateCache()
				case x < 91:
					mdb.CleanupExpiredCache()
				default:
					mdb.GetCacheStats()
				}
			}
		}(g)
	}
	wg.Wait()
	st.SearchesRec = monitored.Load()
	st.LostLive, st.SweepConclusive = c11SweepReinsert()
	st.SizeOver = c11SizeBound()
	// the same searches with a semantic index attached (word vectors for every query word, one vector per command):
	// each concurrent answer must again be the answer of the search run alone
	func() {
		edb := database.VerifFresh(db.Commands)
		const d = 6
		vec := func() []float32 {
			v := make([]float32, d)
			for i := range v {
				v[i] = float32(r.NormFloat64())
			}
			return v
		}
		idx := &embedding.Index{Dimension: d, WordVectors: map[string][]float32{}}
		for _, rq := range reqs {
			for _, w := range strings.FieldsFunc(strings.ToLower(rq.q), func(c rune) bool { return !unicode.IsLetter(c) && !unicode.IsNumber(c) }) {
				if _, ok := idx.WordVectors[w]; !ok {
					idx.WordVectors[w] = vec()
				}
			}
		}
		for range edb.Commands {
			idx.CmdEmbeddings = append(idx.CmdEmbeddings, vec())
		}
		edb.VerifSetEmbeddingIndex(idx)
		wants := make([][]eRes, len(reqs))
		for i, rq := range reqs {
			wants[i] = projectResults(edb, edb.SearchUniversal(rq.q, rq.o))
		}
		var ewg sync.WaitGroup
		for g := 0; g < 8; g++ {
			ewg.Add(1)
			go func(g int) {
				defer ewg.Done()
				rr := rand.New(rand.NewSource(int64(g) + 101))
				for i := 0; i < 120; i++ {
					k := rr.Intn(len(reqs))
					calls.Add(1)
					p := projectResults(edb, edb.SearchUniversal(reqs[k].q, reqs[k].o))
					if fmt.Sprint(p) != fmt.Sprint(wants[k]) {
						if bad.Add(1) == 1 {
							firstBad.Store(fmt.Sprintf("semantic index attached: q=%q got=%v want=%v", reqs[k].q, p, wants[k]))
						}
					}
				}
			}(g)
		}
		ewg.Wait()
	}()
	// first use: goroutines released together on a FRESH collector / monitored database, many rounds
	// (registration of a metric identity races with its first increments)
	// expected answers of NLP searches, for the rounds on freshly built databases below
	type nreq struct {
		q    string
		o    database.SearchOptions
		want []eRes
	}
	var nreqs []nreq
	for _, rq := range reqs {
		o := rq.o
		o.UseNLP = true
		nreqs = append(nreqs, nreq{rq.q, o, projectResults(db, db.SearchUniversal(rq.q, o))})
	}
	for round := 0; round < 300; round++ {
		col := metrics.NewCollector()
		fresh := database.NewMonitoredDatabase(db)
		var newly *database.Database
		if round%6 == 0 { // a database on which nothing has been searched yet: state built lazily by the first search is shared
			newly = database.VerifFresh(db.Commands)
		}
		start := make(chan struct{})
		var wg2 sync.WaitGroup
		const k = 8
		for g := 0; g < k; g++ {
			wg2.Add(1)
			go func(g int) {
				defer wg2.Done()
				<-start
				col.Counter("first_use_total", map[string]string{"kind": "x"}).Inc()
				col.Histogram("first_use_seconds", nil).Observe(1)
				if round%4 == 0 {
					rq := reqs[(round+g)%len(reqs)]
					fresh.SearchWithOptionsAndMonitoring(rq.q, rq.o)
				}
				if newly != nil {
					nq := nreqs[(round/6+g)%len(nreqs)]
					p := projectResults(newly, newly.SearchUniversal(nq.q, nq.o))
					calls.Add(1)
					if fmt.Sprint(p) != fmt.Sprint(nq.want) {
						if bad.Add(1) == 1 {
							firstBad.Store(fmt.Sprintf("first search on a fresh database: q=%q got=%v want=%v", nq.q, p, nq.want))
						}
					}
				}
			}(g)
		}
		close(start)
		wg2.Wait()
		st.SearchesRec += 2 * k
		st.CounterSum += col.Counter("first_use_total", map[string]string{"kind": "x"}).Value()
		st.CounterSum += col.Histogram("first_use_seconds", nil).Count()
		// ... and the histogram's sum: k observations of 1 add up to exactly k
		st.SearchesRec += k
		st.CounterSum += int64(col.Histogram("first_use_seconds", nil).Sum())
		if round%4 == 0 {
			st.SearchesRec += k
			st.HitMissExpected += k
			for _, m := range fresh.GetPerformanceReport().ApplicationMetrics {
				switch m.Name {
				case "searches_total":
					st.CounterSum += int64(m.Value)
				case "cache_hits_total":
					st.Hits += int64(m.Value)
				case "cache_misses_total":
					st.Misses += int64(m.Value)
				}
			}
		}
	}
	{
		h := metrics.NewCollector().Histogram("busy_seconds", nil)
		var wg3 sync.WaitGroup
		const g3, per = 8, 20000
		for g := 0; g < g3; g++ {
			wg3.Add(1)
			go func() {
				defer wg3.Done()
				for i := 0; i < per; i++ {
					h.Observe(1)
				}
			}()
		}
		wg3.Wait()
		st.SearchesRec += 2 * g3 * per
		st.CounterSum += h.Count() + int64(h.Sum())
	}
	// the same query with the same scalar options but different platform lists / context boosts, asked at the same
	// moment on a cold cache: each must get its own answer
	{
		type vreq struct {
			o    database.SearchOptions
			want []eRes
		}
		q := reqs[0].q
		base := reqs[0].o
		base.AllPlatforms, base.NoCrossPlatform, base.PipelineOnly = false, false, false
		var vs []vreq
		for _, pl := range [][]string{{"linux"}, {"windows"}, {"macos"}, nil} {
			o := base
			o.Platforms = pl
			vs = append(vs, vreq{o, projectResults(db, db.SearchUniversal(q, o))})
		}
		ob := base
		ob.ContextBoosts = map[string]float64{"files": 3, "list": 2.5, "git": 2}
		vs = append(vs, vreq{ob, projectResults(db, db.SearchUniversal(q, ob))})
		cdb := database.NewCachedDatabase(db)
		for round := 0; round < 150; round++ {
			cdb.InvalidateCache()
			start := make(chan struct{})
			var wg4 sync.WaitGroup
			for g := 0; g < 2*len(vs); g++ {
				wg4.Add(1)
				go func(g int) {
					defer wg4.Done()
					v := vs[g%len(vs)]
					<-start
					p := projectResults(db, cdb.SearchWithOptionsAndCache(q, v.o))
					calls.Add(1)
					if fmt.Sprint(p) != fmt.Sprint(v.want) {
						if bad.Add(1) == 1 {
							firstBad.Store(fmt.Sprintf("same query, different platforms/boosts, cold cache: q=%q platforms=%v got=%v want=%v", q, v.o.Platforms, p, v.want))
						}
					}
				}(g)
			}
			close(start)
			wg4.Wait()
		}
	}
	st.Calls, st.Mismatches = calls.Load(), bad.Load()
	if v := firstBad.Load(); v != nil {
		st.FirstBad = v.(string)
	}
	st.HitMissExpected += monitored.Load()
	rep := mdb.GetPerformanceReport()
	for _, m := range rep.ApplicationMetrics {
		switch m.Name {
		case "searches_total":
			st.CounterSum += int64(m.Value)
		case "cache_hits_total":
			st.Hits += int64(m.Value)
		case "cache_misses_total":
			st.Misses += int64(m.Value)
		}
	}
	st.HitMissSum = st.Hits + st.Misses
	return st
}

// ---------------------------------------------------------------- (c) LRU histories

type c11Event struct {
	Thread int      `json:"thread"`
	Op     string   `json:"op"`
	Key    int      `json:"k"`
	Val    int      `json:"v"`
	Inv    int64    `json:"inv"`
	Ret    int64    `json:"ret"`
	Found  bool     `json:"found"`
	Res    int64    `json:"res"`
	B      bool     `json:"b"`
	Stats  [4]int64 `json:"stats"`
}

type c11Case struct {
	ID     int         `json:"id"`
	Seed   int64       `json:"seed"`
	Kind   string      `json:"kind"` // table stress lru
	Table  []c11Access `json:"table,omitempty"`
	Stress *c11Stress  `json:"stress,omitempty"`
	Cap    int         `json:"cap"`
	Events []c11Event  `json:"events,omitempty"`
}

func c11RunLRU(r *rand.Rand) (int, []c11Event) {
	capacity := []int{1, 2, 3}[r.Intn(3)]
	lc := cache.NewLRUCache(capacity, 0)
	threads := 2 + r.Intn(2)
	per := 2 + r.Intn(3)
	keys := []string{"a", "b", "c"}
	var mu sync.Mutex
	var events []c11Event
	var wg sync.WaitGroup
	start := time.Now()
	var gate sync.WaitGroup
	gate.Add(1)
	for t := 0; t < threads; t++ {
		wg.Add(1)
		seed := r.Int63()
		go func(t int) {
			defer wg.Done()
			rr := rand.New(rand.NewSource(seed))
			gate.Wait()
			for i := 0; i < per; i++ {
				ev := c11Event{Thread: t, Key: rr.Intn(len(keys)), Val: t*100 + i + 1}
				switch x := rr.Intn(10); {
				case x < 4:
					ev.Op = "put"
				case x < 7:
					ev.Op = "get"
				case x < 8:
					ev.Op = "delete"
				case x < 9:
					ev.Op = "size"
				default:
					ev.Op = "stats"
				}
				ev.Inv = time.Since(start).Nanoseconds()
				switch ev.Op {
				case "put":
					lc.Put(keys[ev.Key], ev.Val)
				case "get":
					v, f := lc.Get(keys[ev.Key])
					ev.Found = f
					if f {
						ev.Res = int64(v.(int))
					}
				case "delete":
					ev.B = lc.Delete(keys[ev.Key])
				case "size":
					ev.Res = int64(lc.Size())
				case "stats":
					s := lc.Stats()
					ev.Stats = [4]int64{s.Hits, s.Misses, s.Evictions, int64(s.Size)}
				}
				ev.Ret = time.Since(start).Nanoseconds()
				mu.Lock()
				events = append(events, ev)
				mu.Unlock()
			}
		}(t)
	}
	gate.Done()
	wg.Wait()
	sort.Slice(events, func(i, j int) bool { return events[i].Inv < events[j].Inv })
	return capacity, events
}

func runC11(seed int64, n int, replay string, e *emitter) {
	dir := mustTemp("verif-c11-")
	defer os.RemoveAll(dir)
	root := os.Getenv("VERIF_REPO")
	if root == "" {
		root = "/repo"
	}
	if replay != "" {
		for _, raw := range readReplay(replay) {
			var c c11Case
			if json.Unmarshal(raw, &c) != nil {
				continue
			}
			r := rand.New(rand.NewSource(c.Seed*1000003 + int64(c.ID)))
			switch c.Kind {
			case "table":
				t, _ := c11LockTable(root)
				e.emit(c11Case{ID: c.ID, Seed: c.Seed, Kind: "table", Table: t})
			case "stress":
				s := c11RunStress(r, dir)
				e.emit(c11Case{ID: c.ID, Seed: c.Seed, Kind: "stress", Stress: &s})
			default:
				// a recorded history is re-checked as recorded (a schedule cannot be replayed), and a fresh one is produced
				e.emit(c)
			}
		}
		return
	}
	t, err := c11LockTable(root)
	if err != nil {
		fmt.Fprintln(os.Stderr, "lock table:", err)
		os.Exit(2)
	}
	e.emit(c11Case{ID: 0, Seed: seed, Kind: "table", Table: t})
	for i := 1; i <= n; i++ {
		r := rand.New(rand.NewSource(seed*1000003 + int64(i)))
		if i%20 == 1 {
			s := c11RunStress(r, dir)
			e.emit(c11Case{ID: i, Seed: seed, Kind: "stress", Stress: &s})
			continue
		}
		capacity, evs := c11RunLRU(r)
		e.emit(c11Case{ID: i, Seed: seed, Kind: "lru", Cap: capacity, Events: evs})
	}
}

func init() { runners["c11"] = runC11 }
